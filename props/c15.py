# C15  Voronoi grids are valid tessellations and the two constructions agree.
#
# Per-input VERIFIED CHECKER (translation validation): for every generator set explored, the neighbour structure that the
# REAL NewVoronoiGrid reports is certified, cell by cell, to define exactly the Voronoi cell of the positions the class
# works on (Farkas certificates found by an untrusted finder below, checked by the checker extracted from
# coq/Cxx/C15_Defs.v whose soundness is coq/Cxx/C15_Proofs.v: check_cell_sound), every get_index answer is checked to be
# a nearest generator in exact rational arithmetic (nearest_check_iff), and a layered numeric oracle + N-version
# comparison (OldVoronoiGrid, threaded construction) validates the rounded outputs (volumes, centroids, faces).
import os, sys, math, json, struct, time
from math import gcd
import vf

LEVEL = "translation_validation"
CLAIM = dict(
    cat="translation_validation", design="§3 C15 (docs/C15_design_section.md)",
    text="Per-input verified checker for the Voronoi grids. Coq (no axioms): over exact rationals, for ALL generator lists the Voronoi cells "
         "V_i = {x in box | forall k, |x-g_i|^2 <= |x-g_k|^2} cover the box, overlap only on bisector planes (interiors disjoint), are convex, contain their own "
         "generator and no other distinct one, faces are the same set / opposite normals from both sides; nearest_check decides 'assigned to the nearest generator' "
         "(iff); check_cell_sound: if the extracted checker accepts a cell's Farkas certificates then the polytope box /\\ {closer than the REPORTED neighbours} is "
         "EXACTLY the Voronoi cell (and witness_check_sound/witness_refutes_cell for the failing direction). Every run: the real NewVoronoiGrid/OldVoronoiGrid are "
         "built (serial and threaded) on corpus + random generator sets (lattices, perturbed lattices, clustered, coplanar, cospherical, near walls, non-cubic/offset "
         "boxes); for every cell of NewVoronoiGrid the reported neighbour list is certified exactly in the class's own internal integer-mantissa coordinates, every "
         "get_index lookup is checked exactly, facet symmetry is decided by the extracted neighbour_symmetric_check on exact facet flags. The old grid's volume SUM is bounded from its plane tolerance on every set where that bound is informative; the quick tier includes a 900-generator set.",
    note="THEOREM-BACKED verdicts: (a) neighbour structure = Voronoi cell of the internal positions (check_cell; cells of exactly degenerate sets on which the class "
         "misses a face of relative size <= 2^-40 are certified by check_cell_eps with that eps and counted separately; observed excess 1e-26), (b) lookups nearest "
         "(exact; a documented 2^-49/2^-47 slack class for ties within rounding of the float search). ORACLE/VALIDATION only (tolerances, no theorem): volumes>0 and sum to the box volume, "
         "volume/centroid/face area/midpoint against values recomputed from the exact vertex set of the reported polytope in real coordinates with a conditioning-scaled "
         "tolerance, area symmetry, Old-vs-New volumes/centroids/neighbours inside OldVoronoiGrid's tolerance domain, threaded == serial bit for bit. The check does NOT "
         "prove the algorithms correct for all inputs: it certifies each explored output. Trusted: Coq kernel, extraction (ExtrOcamlBasic) + OCaml, ocaml/c15_driver.ml "
         "(text/bit-pattern conversions), harness/c15/voronoi_harness.cpp (reads two private members). Untrusted: the Python certificate finder.",
    technique="Coq-verified certificate checker (Farkas) + exact rational oracles + N-version comparison")

U = 2.0 ** -53
MASK52 = (1 << 52) - 1
MAXIDX = 0xfffffff5
WALL0 = 0xfffffffa
HARNESS = os.path.join(vf.VERIF, "harness/c15/voronoi_harness.cpp")
DRIVER = os.path.join(vf.VERIF, "ocaml/c15_driver.ml")


def hx(x):
    return "%016x" % struct.unpack("<Q", struct.pack("<d", x))[0]


def bd(s):
    return struct.unpack("<d", struct.pack("<Q", int(s, 16)))[0]


def mant(h):
    b = int(h, 16)
    return (b & MASK52) if (b >> 52) == 0x3ff else None


def zh(v):
    return format(v, "x")


def qh(num, den=1):
    g = gcd(num, den)
    if g > 1:
        num //= g
        den //= g
    return zh(num) if den == 1 else zh(num) + "/" + zh(den)


# =====================================================================================================================
# generator sets
# =====================================================================================================================
def gauss(rng):
    u1 = max(rng.uniform(), 1e-300)
    return math.sqrt(-2 * math.log(u1)) * math.cos(2 * math.pi * rng.uniform())


def lattice(k, kind="sc"):
    pts = []
    e = 1e-3 / k
    for i in range(k):
        for j in range(k):
            for l in range(k):
                pts.append(((i + .5) / k, (j + .5) / k, (l + .5) / k))
                xi = (i + 1.) / k - (e if i == k - 1 else 0)
                yj = (j + 1.) / k - (e if j == k - 1 else 0)
                zl = (l + 1.) / k - (e if l == k - 1 else 0)
                if kind == "bcc":
                    pts.append((xi, yj, zl))
                if kind == "fcc":
                    pts.append((xi, yj, (l + .5) / k))
                    pts.append((xi, (j + .5) / k, zl))
                    pts.append(((i + .5) / k, yj, zl))
    return pts


CLASSES = ["uniform", "lattice", "bcc", "fcc", "perturbed1", "perturbed3", "perturbed6", "clustered", "coplanar", "cospherical", "walls", "line"]


def gen_unit(rng, cls, n):
    """generator set of the given class in unit-cube coordinates"""
    R = rng.uniform
    if cls == "uniform":
        return [(R(), R(), R()) for _ in range(n)]
    if cls == "lattice":
        return lattice(max(2, round(n ** (1 / 3.))), "sc")
    if cls == "bcc":
        return lattice(max(1, round((n / 2.) ** (1 / 3.))), "bcc")
    if cls == "fcc":
        return lattice(max(1, round((n / 4.) ** (1 / 3.))), "fcc")
    if cls.startswith("perturbed"):
        k = max(2, round(n ** (1 / 3.)))
        amp = {"perturbed1": 0.3, "perturbed3": 1e-3, "perturbed6": 1e-6}[cls] / k
        return [(x + amp * (R() - .5), y + amp * (R() - .5), z + amp * (R() - .5)) for (x, y, z) in lattice(k)]
    if cls == "clustered":
        # strongly clustered: a few Gaussian clumps (width 1e-1 .. 1e-4) on a sparse background
        nc = 1 + rng.below(3)
        cs = [((0.1 + 0.8 * R(), 0.1 + 0.8 * R(), 0.1 + 0.8 * R()), 10.0 ** (-1 - 3 * R())) for _ in range(nc)]
        pts = []
        for i in range(n):
            if i % 5 == 0:
                pts.append((R(), R(), R()))
            else:
                c, s = cs[rng.below(nc)]
                pts.append(tuple(min(max(c[a] + s * gauss(rng), 1e-6), 1 - 1e-6) for a in range(3)))
        return pts
    if cls == "coplanar":
        amp = rng.choice([0., 1e-9, 1e-6, 1e-3])
        ax = rng.below(3)
        h = 0.1 + 0.8 * R()
        pts = []
        for i in range(n):
            p = [R(), R(), R()]
            if i >= 2:
                p[ax] = h + amp * (R() - .5)
            pts.append(tuple(p))
        return pts
    if cls == "cospherical":
        amp = rng.choice([0., 1e-9, 1e-6, 1e-3])
        r = 0.2 + 0.25 * R()
        pts = [(0.5, 0.5, 0.5)] if rng.below(2) else []
        while len(pts) < n:
            v = (gauss(rng), gauss(rng), gauss(rng))
            nv = math.sqrt(sum(x * x for x in v))
            if nv < 1e-3:
                continue
            rr = r * (1 + amp * (R() - .5))
            pts.append(tuple(0.5 + rr * x / nv for x in v))
        return pts
    if cls == "walls":
        pts = []
        for i in range(n):
            p = [R(), R(), R()]
            for a in range(3):
                if rng.below(3) == 0:
                    d = 10.0 ** (-1 - 5 * R())
                    p[a] = d if rng.below(2) else 1 - d
            pts.append(tuple(p))
        return pts
    if cls == "line":
        amp = rng.choice([0., 1e-9, 1e-4])
        pts = []
        for i in range(n):
            t = (i + 0.5 + 0.3 * (R() - .5)) / n
            pts.append((t + amp * R(), t + amp * R(), t + amp * R()) if i % 7 else (R(), R(), R()))
        return pts
    raise ValueError(cls)


EPS = 2.0 ** -52


def rescale_emulation(a, s):
    """the arithmetic of NewVoronoiBox(box) + NewVoronoiGrid's constructor in binary64 (Python floats are binary64):
    returns the internal box anchor, sides and the four corners of the all-enclosing tetrahedron."""
    m = max(s)
    mn = [a[k] - s[k] for k in range(3)]
    mx = [(a[k] - s[k] + 9 * m) - mn[k] for k in range(3)]
    mx = [mx[k] * (1. + EPS) for k in range(3)]
    bot = [1. + (a[k] - mn[k]) / mx[k] for k in range(3)]
    top = [1. + (a[k] + s[k] - mn[k]) / mx[k] for k in range(3)]
    rs = [top[k] - bot[k] for k in range(3)]
    rm = max(rs)
    t0 = [bot[k] - rs[k] for k in range(3)]
    tet = [list(t0) for _ in range(4)]
    for k in range(3):
        tet[k + 1][k] = bot[k] - rs[k] + 9 * rm
    return bot, rs, tet


def box_precondition_ok(a, s):
    _, _, tet = rescale_emulation(a, s)
    return all(1. <= c < 2. for p in tet for c in p)


BOX_KINDS = ["unit", "cube_offset", "flat", "tall", "parsec", "small_offset", "thirds"]


def gen_box(rng, kind):
    R = rng.uniform
    if kind == "unit":
        return (0., 0., 0.), (1., 1., 1.)
    if kind == "cube_offset":
        s = 0.5 + 3 * R()
        return (-10 + 20 * R(), -10 + 20 * R(), 1000 * R()), (s, s, s)
    if kind == "flat":
        return (0., 0., 0.), (1., 0.2 + 0.3 * R(), 2. + R())
    if kind == "tall":
        return (-R(), -R(), -R()), (0.1 + 0.2 * R(), 0.1 + 0.2 * R(), 1. + R())
    if kind == "parsec":
        s = 3.086e17 * (0.5 + R())
        return (-s / 2, -s / 2, -s / 2), (s, s, s)
    if kind == "small_offset":
        return (1e-3 * (1 + R()), 2e-3 * (1 + R()), -5e-4 * (1 + R())), (1e-5 * (1 + R()), 3e-5 * (1 + R()), 2e-5 * (1 + R()))
    if kind == "thirds":
        return (1. / 3., -2. / 3., 0.1), (0.7, 0.7 + 0.4 * R(), 1.1)
    raise ValueError(kind)


def inbox(anchor, sides, u):
    """u in the unit cube -> position strictly inside the box, at least 2^-40 of the side away from every face"""
    p = []
    for k in range(3):
        t = min(max(u[k], 2.0 ** -40), 1.0 - 2.0 ** -40)
        x = anchor[k] + t * sides[k]
        lo = anchor[k] + 2.0 ** -41 * sides[k]
        hi = anchor[k] + (1 - 2.0 ** -41) * sides[k]
        p.append(min(max(x, lo), hi))
    return tuple(p)


def place(rng, units, a, s, nq, cls, boxkind, label=""):
    """map unit-cube coordinates into the box and draw the query positions"""
    pts, seen = [], set()
    for u in units:
        p = inbox(a, s, u)
        if p not in seen:
            seen.add(p)
            pts.append(p)
    qs = []
    for q in range(nq):
        r = rng.below(4)
        if r == 0 or len(pts) < 2:
            qs.append(inbox(a, s, (rng.uniform(), rng.uniform(), rng.uniform())))
        elif r == 1:   # midpoint of two generators: a tie up to rounding
            i, j = rng.below(len(pts)), rng.below(len(pts))
            qs.append(tuple((pts[i][k] + pts[j][k]) / 2 for k in range(3)))
        elif r == 2:   # a generator itself / next to it by one ulp per coordinate
            i = rng.below(len(pts))
            qs.append(tuple(pts[i][k] if rng.below(2) else math.nextafter(pts[i][k], a[k]) for k in range(3)))
        else:          # near a generator
            i = rng.below(len(pts))
            qs.append(inbox(a, s, tuple((pts[i][k] - a[k]) / s[k] + 10.0 ** (-1 - 8 * rng.uniform()) * (rng.uniform() - .5) for k in range(3))))
    qs = [tuple(min(max(q[k], a[k]), a[k] + s[k] * (1 - 2.0 ** -30)) for k in range(3)) for q in qs]
    return dict(cls=cls, box=boxkind, anchor=tuple(a), sides=tuple(s), pts=pts, qs=qs, label=label)


def make_spec(rng, cls, n, boxkind, nq, label=None, ncand=12):
    """a generator set in unit coordinates + candidate boxes of the given kind (the first candidate for which the class's internal
    representation satisfies the [1,2) precondition is used; decided by the class itself, see choose_boxes)"""
    units = gen_unit(rng, cls, n) if isinstance(cls, str) else cls
    cands = [gen_box(rng, boxkind) for _ in range(1 if boxkind == "unit" else ncand)]
    return dict(cls=(cls if isinstance(cls, str) else "corpus"), units=units, box=boxkind, cands=cands, nq=nq, label=label or "", rng=rng.fork("place"))


def choose_boxes(impl, specs, stats):
    """asks the REAL class (harness P line, one dummy generator) which candidate boxes are admissible"""
    probes = []
    for si, sp in enumerate(specs):
        for ci, (a, s) in enumerate(sp["cands"]):
            probes.append(dict(anchor=tuple(a), sides=tuple(s), pts=[inbox(a, s, (0.37, 0.41, 0.59))], qs=[], si=si, ci=ci))
    rc, res = run_harness(impl, probes, lambda p: ["N1"], env={"C15_ALARM": "20"})
    ok = {}
    for p, r in zip(probes, res):
        V = r.get("N1")
        good = V is not None and V["P"] is not None and V["P"][0] == 1
        stats["candidate_boxes"] = stats.get("candidate_boxes", 0) + 1
        if not good:
            stats["candidate_boxes_rejected"] = stats.get("candidate_boxes_rejected", 0) + 1
        ok.setdefault(p["si"], []).append(good)
    out = []
    for si, sp in enumerate(specs):
        g = ok.get(si, [])
        ci = g.index(True) if True in g else None
        if ci is None:
            a, s = (0., 0., 0.), (1., 1., 1.)
            kind = "unit(fallback)"
            stats["box_fallback_unit"] = stats.get("box_fallback_unit", 0) + 1
        else:
            a, s = sp["cands"][ci]
            kind = sp["box"]
        out.append(place(sp["rng"], sp["units"], a, s, sp["nq"], sp["cls"], kind, sp["label"]))
    return out


def make_problem(rng, cls, n, boxkind, nq, want_ok=None, label=None):
    """(scratch/diagnostic use) one generator set in a box of the given kind; want_ok uses the Python emulation of the rescaling"""
    for attempt in range(200):
        a, s = gen_box(rng, boxkind)
        if want_ok is None or box_precondition_ok(a, s) == want_ok or boxkind == "unit":
            break
    units = gen_unit(rng, cls, n) if isinstance(cls, str) else cls
    return place(rng, units, a, s, nq, cls if isinstance(cls, str) else (label or "corpus"), boxkind, label or "")


def corpus(rng):
    """hand-picked boundary cases (unit-cube coordinates)"""
    C = []
    C.append(("two", [(0.25, 0.5, 0.5), (0.75, 0.5, 0.5)]))
    C.append(("two_diagonal", [(0.2, 0.3, 0.4), (0.7, 0.6, 0.9)]))
    C.append(("three_collinear", [(0.25, 0.5, 0.5), (0.5, 0.5, 0.5), (0.75, 0.5, 0.5)]))
    C.append(("three", [(0.2, 0.2, 0.2), (0.8, 0.3, 0.4), (0.4, 0.9, 0.6)]))
    C.append(("four_square", [(0.25, 0.25, 0.5), (0.75, 0.25, 0.5), (0.25, 0.75, 0.5), (0.75, 0.75, 0.5)]))
    C.append(("four_tetra", [(0.3, 0.3, 0.3), (0.7, 0.7, 0.3), (0.7, 0.3, 0.7), (0.3, 0.7, 0.7)]))
    C.append(("five_centre", [(0.5, 0.5, 0.5), (0.25, 0.5, 0.5), (0.75, 0.5, 0.5), (0.5, 0.25, 0.5), (0.5, 0.75, 0.5)]))
    C.append(("five_random", [(rng.uniform(), rng.uniform(), rng.uniform()) for _ in range(5)]))
    C.append(("cube8", lattice(2)))
    C.append(("octahedron+centre", [(0.5, 0.5, 0.5), (0.2, 0.5, 0.5), (0.8, 0.5, 0.5), (0.5, 0.2, 0.5), (0.5, 0.8, 0.5), (0.5, 0.5, 0.2), (0.5, 0.5, 0.8)]))
    C.append(("single", [(0.3, 0.6, 0.7)]))
    return C


def problem_text(pr, variants):
    l = ["P %d %d %s %s %d %s" % (len(pr["pts"]), len(pr["qs"]), " ".join(hx(v) for v in pr["anchor"]), " ".join(hx(v) for v in pr["sides"]),
                                   len(variants), " ".join(variants))]
    for p in pr["pts"] + pr["qs"]:
        l.append(" ".join(hx(v) for v in p))
    return "\n".join(l) + "\n"


# =====================================================================================================================
# exact convex geometry on integer homogeneous coordinates (untrusted: finder + numeric oracle)
# =====================================================================================================================
def box_poly(lo, hi):
    """constraints in the order of C15_Defs.wall_cons: +x<=hi0, -x<=-lo0, +y<=hi1, -y<=-lo1, +z<=hi2, -z<=-lo2.
    vertex = (X, Y, Z, W, mask of tight constraints)"""
    cons = []
    for a in range(3):
        e = [0, 0, 0]
        e[a] = 1
        cons.append((tuple(e), hi[a]))
        e = [0, 0, 0]
        e[a] = -1
        cons.append((tuple(e), -lo[a]))
    verts = []
    for ix in (0, 1):
        for iy in (0, 1):
            for iz in (0, 1):
                p = (hi[0] if ix else lo[0], hi[1] if iy else lo[1], hi[2] if iz else lo[2], 1)
                m = (1 << (1 - ix)) | (1 << (3 - iy)) | (1 << (5 - iz))
                verts.append(p + (m,))
    return cons, verts


def clip(verts, a, b, idx):
    """clip a polytope (double description: vertices with the set of constraints tight at each) by a.x <= b. Exact."""
    a0, a1, a2 = a
    bit = 1 << idx
    s = [a0 * v[0] + a1 * v[1] + a2 * v[2] - b * v[3] for v in verts]
    outs = [i for i, x in enumerate(s) if x > 0]
    if not outs:
        return [v if x < 0 else (v[0], v[1], v[2], v[3], v[4] | bit) for v, x in zip(verts, s)]
    ins = [i for i, x in enumerate(s) if x < 0]
    masks = [v[4] for v in verts]
    new = []
    for i in ins:
        mi = masks[i]
        u = verts[i]
        su = s[i]
        for o in outs:
            c = mi & masks[o]
            if c & (c - 1) == 0:       # fewer than two common tight constraints: not an edge
                continue
            adj = True
            for k, mk in enumerate(masks):
                if mk & c == c and k != i and k != o:
                    adj = False
                    break
            if not adj:
                continue
            v = verts[o]
            sv = s[o]
            X = sv * u[0] - su * v[0]
            Y = sv * u[1] - su * v[1]
            Z = sv * u[2] - su * v[2]
            W = sv * u[3] - su * v[3]
            g = gcd(gcd(X, Y), gcd(Z, W))
            if g > 1:
                X //= g
                Y //= g
                Z //= g
                W //= g
            new.append((X, Y, Z, W, c | bit))
    res = []
    for v, x in zip(verts, s):
        if x < 0:
            res.append(v)
        elif x == 0:
            res.append((v[0], v[1], v[2], v[3], v[4] | bit))
    return res + new


def polytope(lo, hi, planes):
    cons, verts = box_poly(lo, hi)
    for (a, b) in planes:
        idx = len(cons)
        cons.append((a, b))
        verts = clip(verts, a, b, idx)
    return cons, verts


def det3(a, b, c):
    return a[0] * (b[1] * c[2] - b[2] * c[1]) - a[1] * (b[0] * c[2] - b[2] * c[0]) + a[2] * (b[0] * c[1] - b[1] * c[0])


def bits(m):
    r = []
    i = 0
    while m:
        if m & 1:
            r.append(i)
        m >>= 1
        i += 1
    return r


def farkas_at(cons, tight, c, d):
    """c as a non-negative combination of three independent constraints tight at a vertex, with bound <= d.
    returns (D, [(idx, l)]) with integer l >= 0, D > 0 (multipliers l/D)"""
    T = bits(tight)
    n = len(T)
    for x in range(n):
        ax = cons[T[x]][0]
        for y in range(x + 1, n):
            ay = cons[T[y]][0]
            for z in range(y + 1, n):
                az = cons[T[z]][0]
                D = det3(ax, ay, az)
                if D == 0:
                    continue
                l0 = det3(c, ay, az)
                l1 = det3(ax, c, az)
                l2 = det3(ax, ay, c)
                if D < 0:
                    D, l0, l1, l2 = -D, -l0, -l1, -l2
                if l0 < 0 or l1 < 0 or l2 < 0:
                    continue
                if l0 * cons[T[x]][1] + l1 * cons[T[y]][1] + l2 * cons[T[z]][1] <= d * D:
                    g = gcd(gcd(D, l0), gcd(l1, l2))
                    return (D // g, [(T[q], l // g) for q, l in ((x, l0), (y, l1), (z, l2)) if l != 0])
    return None


def certify(cons, verts, fv, c, d):
    """('cert', (D, [(idx, l)])) proving {cons} => c.x <= d, or ('witness', vertex) with c.vertex > d"""
    c0, c1, c2 = c
    best = None
    bv = None
    for v, f in zip(verts, fv):
        val = c0 * f[0] + c1 * f[1] + c2 * f[2]
        if best is None or val > bv:
            best = v
            bv = val
    r = farkas_at(cons, best[4], c, d)
    if r is not None:
        return ("cert", r)
    # exact fall back: exact maximum over all vertices (complete: an optimal dual solution is supported on the
    # constraints tight at any optimal vertex, and by Caratheodory on three independent ones)
    best = None
    for v in verts:
        num = c0 * v[0] + c1 * v[1] + c2 * v[2]
        if best is None or num * best[1] > best[0] * v[3]:
            best = (num, v[3], v)
    if best[0] > d * best[1]:
        return ("witness", best[2])
    for v in verts:
        num = c0 * v[0] + c1 * v[1] + c2 * v[2]
        if num * best[1] == best[0] * v[3]:
            r = farkas_at(cons, v[4], c, d)
            if r is not None:
                return ("cert", r)
    raise RuntimeError("certificate finder: inclusion holds but no certificate found (finder bug)")


def round_cert(cons, ct, c, d, bbase, blo, bhi):
    """cheaper certificate with the same support: multipliers rounded down to s bits, the residual of the normal is
    absorbed by the (already certified) bounding-box constraints +-e_a (indices bbase..bbase+5). Exact integer test;
    returns the exact certificate when no rounding level works."""
    D, items = ct
    for s in (14, 28, 44):
        sc = 1 << s
        lt = [(idx, (l << s) // D) for (idx, l) in items]
        rho = [sc * c[a] - sum(l * cons[idx][0][a] for (idx, l) in lt) for a in range(3)]
        bound = sum(l * cons[idx][1] for (idx, l) in lt)
        extra = []
        for a in range(3):
            if rho[a] > 0:
                extra.append((bbase + 2 * a, rho[a]))
                bound += rho[a] * bhi[a]
            elif rho[a] < 0:
                extra.append((bbase + 2 * a + 1, -rho[a]))
                bound += (-rho[a]) * (-blo[a])
        if bound <= sc * d:
            return (sc, [(i, l) for (i, l) in lt if l != 0] + extra)
    return ct


def cert_str(ct):
    if ct is None or not ct[1]:
        return "-"
    return zh(ct[0]) + "|" + ",".join("%d:%s" % (i, zh(l)) for (i, l) in ct[1])


def fdiv(n, d):
    """floor and ceil of n/d for d > 0"""
    q = n // d
    return q, (q if q * d == n else q + 1)


EPS_SLACK = (1, 1 << 40)     # relative slack eps = 2^-40 on |r|^2 for 'negligible' missed faces
NEGLIGIBLE_AREA = 2.0 ** -36  # a facet smaller than this fraction of the cell surface needs no partner


def cell_certificate(G, lo, hi, i, Ni, eps=(0, 1)):
    """finder for one cell in internal integer coordinates; eps = (num, den) relaxes every target to 2 r.y <= (1+eps)|r|^2.
    returns dict(kline, tlines, flags, nbb, ncert, witnesses)"""
    en, ed = eps
    gi = G[i]
    planes = []
    for j in Ni:
        r = (G[j][0] - gi[0], G[j][1] - gi[1], G[j][2] - gi[2])
        planes.append(((2 * r[0], 2 * r[1], 2 * r[2]), r[0] * r[0] + r[1] * r[1] + r[2] * r[2]))
    l = [lo[a] - gi[a] for a in range(3)]
    h = [hi[a] - gi[a] for a in range(3)]
    cons, verts = polytope(l, h, planes)
    fv = [(v[0] / v[3], v[1] / v[3], v[2] / v[3]) for v in verts]
    blo, bhi = [], []
    for a in range(3):
        mn = None
        mx = None
        for v in verts:
            if mn is None or v[a] * mn[1] < mn[0] * v[3]:
                mn = (v[a], v[3])
            if mx is None or v[a] * mx[1] > mx[0] * v[3]:
                mx = (v[a], v[3])
        blo.append(fdiv(mn[0], mn[1])[0])
        bhi.append(fdiv(mx[0], mx[1])[1])
    bbc = []
    for a in range(3):
        e = [0, 0, 0]
        e[a] = 1
        kind, ct = certify(cons, verts, fv, tuple(e), bhi[a])
        assert kind == "cert"
        bbc.append(cert_str(ct))
        e[a] = -1
        kind, ct = certify(cons, verts, fv, tuple(e), -blo[a])
        assert kind == "cert"
        bbc.append(cert_str(ct))
    pos = {}
    for p, j in enumerate(Ni):
        pos.setdefault(j, 6 + p)
    bbase = 6 + len(Ni)
    kc = []
    tl = []
    wit = []
    nbb = ncert = 0
    b0l, b1l, b2l = blo
    b0h, b1h, b2h = bhi
    g0, g1, g2 = gi
    ee = ed + en
    for k in range(len(G)):
        gk = G[k]
        r0 = gk[0] - g0
        r1 = gk[1] - g1
        r2 = gk[2] - g2
        d = r0 * r0 + r1 * r1 + r2 * r2
        # bb_implies of C15_Defs with a = 2r, b = (1+eps)|r|^2
        if ed * 2 * ((r0 * b0h if r0 >= 0 else r0 * b0l) + (r1 * b1h if r1 >= 0 else r1 * b1l) + (r2 * b2h if r2 >= 0 else r2 * b2l)) <= d * ee:
            nbb += 1
            continue
        if k in pos:
            kc.append("%d 1|%d:1" % (k, pos[k]))
            ncert += 1
            continue
        # the half-space 2 r.y <= (1+eps)|r|^2 written with integers: (ed 2r).y <= |r|^2 (ed+en)
        cvec = (2 * r0 * ed, 2 * r1 * ed, 2 * r2 * ed)
        ds = d * ee
        kind, x = certify(cons, verts, fv, cvec, ds)
        if kind == "cert":
            D, items = round_cert(cons, x, cvec, ds, bbase, blo, bhi)
            kc.append("%d %s" % (k, cert_str((D * ed, items))))
            ncert += 1
        else:
            # witness in absolute internal coordinates (the exact maximiser of 2 r.y over the claimed polytope)
            X, Y, Z, W = x[:4]
            tl.append("T %d %d %s %s %s" % (i, k, qh(X + g0 * W, W), qh(Y + g1 * W, W), qh(Z + g2 * W, W)))
            exc_num = 2 * (r0 * X + r1 * Y + r2 * Z) - d * W          # (2 r.y - |r|^2) W  > 0
            wit.append((k, ((X + g0 * W) / W, (Y + g1 * W) / W, (Z + g2 * W) / W), exc_num / (W * d) if d else math.inf))
    kline = "K %d %s %s %s %s %d %s" % (i, qh(en, ed), " ".join(zh(v) for v in blo), " ".join(zh(v) for v in bhi), " ".join(bbc), len(kc), " ".join(kc))
    flags = facet_flags(cons, verts, fv, len(Ni))
    return dict(kline=kline, tlines=tl, flags=flags, nbb=nbb, ncert=ncert, witnesses=wit, nverts=len(verts))


def facet_flags(cons, verts, fv, nn):
    """per reported real neighbour: True iff its bisector carries a genuine two-dimensional facet of the exact polytope (>= 3 exact
    vertices) whose area is not negligible (> 2^-36 of the cell surface, evaluated in binary64 from the exact vertices)"""
    vol, cen, pf, surface, diam = poly_geometry(cons, verts, fv)
    return [(6 + p) in pf and pf[6 + p][0] > NEGLIGIBLE_AREA * surface for p in range(nn)]


# =====================================================================================================================
# numeric oracle: geometry of the reported polytope in REAL coordinates from its exact vertex set
# =====================================================================================================================
def dbl_int_scale(vals):
    """common power of two e such that every double in vals is an integer multiple of 2^e"""
    e = None
    for v in vals:
        if v == 0.0:
            continue
        m, ex = math.frexp(v)
        ex -= 53
        mi = int(m * (1 << 53))
        while mi % 2 == 0:
            mi //= 2
            ex += 1
        e = ex if e is None else min(e, ex)
    return 0 if e is None else e


def to_int(v, e):
    """v / 2^e as an exact integer"""
    if v == 0.0:
        return 0
    m, ex = math.frexp(v)
    mi = int(m * (1 << 53))
    sh = ex - 53 - e
    return mi << sh if sh >= 0 else mi >> (-sh)


def poly_geometry(cons, verts, fv):
    """float geometry (relative to the origin, which must lie inside) of a polytope given by its exact vertices.
    returns (volume, centroid, faces {constraint index: (area, midpoint, perimeter)}, surface, diameter)"""
    vol = 0.0
    cen = [0.0, 0.0, 0.0]
    faces = {}
    surface = 0.0
    for idx in range(len(cons)):
        bit = 1 << idx
        fvs = [f for v, f in zip(verts, fv) if v[4] & bit]
        if len(fvs) < 3:
            continue
        nrm = cons[idx][0]
        nl = math.sqrt(float(nrm[0] * nrm[0] + nrm[1] * nrm[1] + nrm[2] * nrm[2]))
        nh = (nrm[0] / nl, nrm[1] / nl, nrm[2] / nl)
        ax = min(range(3), key=lambda a: abs(nh[a]))
        e = [0., 0., 0.]
        e[ax] = 1.
        u = (nh[1] * e[2] - nh[2] * e[1], nh[2] * e[0] - nh[0] * e[2], nh[0] * e[1] - nh[1] * e[0])
        ul = math.sqrt(u[0] * u[0] + u[1] * u[1] + u[2] * u[2])
        u = (u[0] / ul, u[1] / ul, u[2] / ul)
        w = (nh[1] * u[2] - nh[2] * u[1], nh[2] * u[0] - nh[0] * u[2], nh[0] * u[1] - nh[1] * u[0])
        c0 = [sum(f[a] for f in fvs) / len(fvs) for a in range(3)]
        fvs.sort(key=lambda f: math.atan2((f[0] - c0[0]) * w[0] + (f[1] - c0[1]) * w[1] + (f[2] - c0[2]) * w[2],
                                          (f[0] - c0[0]) * u[0] + (f[1] - c0[1]) * u[1] + (f[2] - c0[2]) * u[2]))
        p0 = fvs[0]
        area = 0.0
        mid = [0.0, 0.0, 0.0]
        for t in range(1, len(fvs) - 1):
            p1 = fvs[t]
            p2 = fvs[t + 1]
            a1 = (p1[0] - p0[0], p1[1] - p0[1], p1[2] - p0[2])
            a2 = (p2[0] - p0[0], p2[1] - p0[1], p2[2] - p0[2])
            cr = (a1[1] * a2[2] - a1[2] * a2[1], a1[2] * a2[0] - a1[0] * a2[2], a1[0] * a2[1] - a1[1] * a2[0])
            ta = 0.5 * abs(cr[0] * nh[0] + cr[1] * nh[1] + cr[2] * nh[2])
            tv = abs(p0[0] * (p1[1] * p2[2] - p1[2] * p2[1]) - p0[1] * (p1[0] * p2[2] - p1[2] * p2[0]) + p0[2] * (p1[0] * p2[1] - p1[1] * p2[0])) / 6.
            area += ta
            vol += tv
            for a in range(3):
                mid[a] += ta * (p0[a] + p1[a] + p2[a]) / 3.
                cen[a] += tv * (p0[a] + p1[a] + p2[a]) / 4.
        if area > 0:
            mid = [m / area for m in mid]
        perim = 0.0
        for t in range(len(fvs)):
            perim += math.dist(fvs[t], fvs[(t + 1) % len(fvs)])
        faces[idx] = (area, mid, perim)
        surface += area
    if vol > 0:
        cen = [c / vol for c in cen]
    diam = max((math.sqrt(f[0] * f[0] + f[1] * f[1] + f[2] * f[2]) for f in fv), default=0.0)
    return vol, cen, faces, surface, diam


def rel_vectors(P, lo, hi, i, Ni):
    """relative position (integers) of the 'neighbour' behind every constraint: mirror image of g_i for the six walls"""
    gi = P[i]
    rv = []
    for a in range(3):
        e = [0, 0, 0]
        e[a] = 2 * (hi[a] - gi[a])
        rv.append(tuple(e))
        e = [0, 0, 0]
        e[a] = 2 * (lo[a] - gi[a])
        rv.append(tuple(e))
    for j in Ni:
        rv.append((P[j][0] - gi[0], P[j][1] - gi[1], P[j][2] - gi[2]))
    return rv


def real_cell_geometry(P, lo, hi, i, Ni, scale, tets=None):
    """P: integer real positions (units 2^e = scale), lo/hi integer box. Exact vertices of box /\\ bisectors(Ni), then float geometry
    relative to the generator.  tets: the Delaunay tetrahedra (a, b, c) with g_i that the class used for this cell (harness D lines).
    returns dict(volume, centroid (relative), faces {neighbour index or wall code: (area, midpoint rel, perimeter)}, kappa_rho, ...)"""
    gi = P[i]
    rvec = rel_vectors(P, lo, hi, i, Ni)
    planes = [((2 * r[0], 2 * r[1], 2 * r[2]), r[0] * r[0] + r[1] * r[1] + r[2] * r[2]) for r in rvec[6:]]
    l = [lo[a] - gi[a] for a in range(3)]
    h = [hi[a] - gi[a] for a in range(3)]
    cons, verts = polytope(l, h, planes)
    fv = [(v[0] / v[3] * scale, v[1] / v[3] * scale, v[2] / v[3] * scale) for v in verts]
    vol, cen, pf, surface, diam = poly_geometry(cons, verts, fv)
    # conditioning.  The class computes each vertex of the cell as the circumcentre of a Delaunay tetrahedron (g_i, a, b, c) of its
    # INTERNAL positions, in binary64 from the REAL positions: first-order rounding error ~ u rho^4 / |det(r_a, r_b, r_c)| with
    # rho the longest of the three edges from g_i (exact integer determinant of the real positions).
    kappa_rho = 0.0
    kappa = 1.0              # dimensionless rho^3/|det|: amplification of a plane displacement into a vertex displacement
    if tets is not None:
        def rv(code):
            if code < MAXIDX:
                return (P[code][0] - gi[0], P[code][1] - gi[1], P[code][2] - gi[2])
            if code >= WALL0:
                w = code - WALL0          # LEFT RIGHT FRONT BACK BOTTOM TOP
                e = [0, 0, 0]
                e[w // 2] = 2 * ((hi if w & 1 else lo)[w // 2] - gi[w // 2])
                return tuple(e)
            return None
        for (a, b, c) in tets:
            ra, rb, rc = rv(a), rv(b), rv(c)
            if ra is None or rb is None or rc is None:
                kappa_rho = math.inf      # a vertex of the cell comes from a tetrahedron with a corner of the all-enclosing tetrahedron
                continue
            D = det3(ra, rb, rc)
            if D == 0:
                kappa_rho = math.inf
                continue
            rho = math.sqrt(float(max(ra[0] * ra[0] + ra[1] * ra[1] + ra[2] * ra[2], rb[0] * rb[0] + rb[1] * rb[1] + rb[2] * rb[2],
                                      rc[0] * rc[0] + rc[1] * rc[1] + rc[2] * rc[2]))) * scale
            kr = rho ** 4 / (abs(float(D)) * scale ** 3)
            if kr > kappa_rho:
                kappa_rho = kr
            if kr / rho > kappa:
                kappa = kr / rho
    else:
        # fall back (no tetrahedra available): triples of constraints tight at each exact vertex
        rlen0 = [math.sqrt(float(r[0] * r[0] + r[1] * r[1] + r[2] * r[2])) * scale for r in rvec]
        for v in verts:
            T = bits(v[4])[:8]
            n = len(T)
            for x in range(n):
                for y in range(x + 1, n):
                    for z in range(y + 1, n):
                        D = det3(rvec[T[x]], rvec[T[y]], rvec[T[z]])
                        if D == 0:
                            continue
                        kr = max(rlen0[T[x]], rlen0[T[y]], rlen0[T[z]]) ** 4 / (abs(float(D)) * scale ** 3)
                        if kr > kappa_rho:
                            kappa_rho = kr
    faces = {}
    for idx, val in pf.items():
        # wall codes of the class: LEFT(lo x) RIGHT(hi x) FRONT(lo y) BACK(hi y) BOTTOM(lo z) TOP(hi z); constraint order here is hi,lo per axis
        key = WALL0 + (idx ^ 1) if idx < 6 else Ni[idx - 6]
        faces[key] = val
    rl = [math.sqrt(float(r[0] * r[0] + r[1] * r[1] + r[2] * r[2])) * scale for r in rvec[6:]]
    rmin_half = min(rl) / 2 if rl else math.inf
    return dict(volume=vol, centroid=cen, faces=faces, kappa_rho=kappa_rho, kappa=kappa, surface=surface, diam=diam, nverts=len(verts), rmin_half=rmin_half)


# =====================================================================================================================
# harness output
# =====================================================================================================================
def parse_variant(lines):
    r = {"B": None, "T": None, "P": None, "Q": None, "R": {}, "W": {}, "C": {}, "F": {}, "L": {}, "D": {}, "X": None, "raw": lines}
    for l in lines:
        f = l.split()
        t = f[1]
        if t == "C":
            i = int(f[2])
            r["C"][i] = (bd(f[3]), (bd(f[4]), bd(f[5]), bd(f[6])), int(f[7]))
            r["F"].setdefault(i, [])
        elif t == "F":
            r["F"].setdefault(int(f[2]), []).append((int(f[3]), bd(f[4]), (bd(f[5]), bd(f[6]), bd(f[7])), int(f[8])))
        elif t == "D":
            r["D"].setdefault(int(f[2]), []).append((int(f[3]), int(f[4]), int(f[5])))
        elif t == "R":
            r["R"][int(f[2])] = f[3:6]
        elif t == "W":
            r["W"][int(f[2])] = f[3:9]
        elif t == "L":
            r["L"][int(f[2])] = int(f[3])
        elif t == "B":
            r["B"] = f[2:]
        elif t == "T":
            r["T"] = f[2:]
        elif t == "P":
            r["P"] = (int(f[2]), int(f[3]))
        elif t == "Q":
            r["Q"] = (int(f[2]), int(f[3]), bd(f[4]))
        elif t == "X":
            r["X"] = " ".join(f[2:])
    return r


def run_harness(exe, problems, variants_of, timeout=3000, env=None):
    """runs all problems through one harness process. returns list (per problem) of dict variant -> parsed"""
    text = "".join(problem_text(pr, variants_of(pr)) for pr in problems)
    rc, out = vf.run_lines([exe], text, timeout=timeout, env=env)
    res = []
    it = iter(out)
    cur_lines = {}
    pi = 0
    want = variants_of(problems[0]) if problems else []
    res.append({})
    for l in out:
        f = l.split(None, 2)
        if len(f) < 2:
            continue
        tag = f[0]
        cur_lines.setdefault(tag, []).append(l)
        if f[1] == "E":
            res[-1][tag] = parse_variant(cur_lines.pop(tag))
            if len(res[-1]) == len(want):
                pi += 1
                if pi < len(problems):
                    want = variants_of(problems[pi])
                    res.append({})
    while len(res) < len(problems):
        res.append({})
    return rc, res


# =====================================================================================================================
# one problem: certificates + checker text + numeric oracles
# =====================================================================================================================
class Findings:
    def __init__(self):
        self.items = []     # (kind, text, detail)

    def add(self, kind, text, **detail):
        self.items.append((kind, text, detail))


def analyse_new(pr, N, stats, sample_cells=None, numeric=True):
    """N: parsed output of variant N1.  returns (checker_text, expected_lines_meta, findings, info)"""
    fnd = Findings()
    n = len(pr["pts"])
    info = dict(n=n)
    if N is None or N.get("B") is None:
        fnd.add("harness", "NewVoronoiGrid variant produced no output (%s)" % (N.get("X") if N else "missing"))
        return None, None, fnd, info
    if N["P"] is None or N["P"][0] != 1:
        info["precondition"] = False
        return None, None, fnd, info
    info["precondition"] = True
    if N.get("Q") is not None and N["Q"][1] > 0:
        fnd.add("predicate_args", "during the construction %d coordinates handed to the exact predicates (%d calls) lie outside [1,2), e.g. %r: the predicates read the mantissa of a number "
                                  "that is not the rescaled coordinate and decide about a different point" % (N["Q"][1], N["Q"][0], N["Q"][2]))
    if N["X"] is not None or len(N["C"]) != n:
        fnd.add("crash", "NewVoronoiGrid construction died (%s): %d of %d cells reported" % (N["X"], len(N["C"]), n))
        return None, None, fnd, info
    B = N["B"]
    lo = [mant(B[a]) for a in range(3)]
    hi = [mant(B[6 + a]) for a in range(3)]
    G = [[mant(x) for x in N["R"][i]] for i in range(n)]
    txt = ["G", "x %d" % dbl_int_scale([v for p in pr["pts"] + pr["qs"] for v in p] + list(pr["sides"]))]
    for p in pr["pts"]:
        txt.append("g " + " ".join(hx(v) for v in p))
    txt.append("s " + " ".join(hx(v) for v in pr["sides"]))
    meta = []     # expected answer lines in order: (kind, ...)
    raw_keep = [l for l in N["raw"] if l.split(None, 2)[1] in ("B", "R", "W", "F")]
    txt += raw_keep
    for i in range(n):
        meta.append(("W", i))
    cells = range(n) if sample_cells is None else sample_cells
    cellset = set(cells)
    allflags = {}
    hist_ngb = stats.setdefault("neighbour_histogram", {})
    for i in range(n):
        Ni = [f[0] for f in N["F"][i] if f[0] < MAXIDX]
        if i in cellset:
            cc = cell_certificate(G, lo, hi, i, Ni)
            if cc["witnesses"]:
                # the exact inclusion fails: is the miss negligible (relative excess <= 2^-40, i.e. a face of negligible size)?
                worst = max(w[2] for w in cc["witnesses"])
                stats["cells_with_exact_miss"] = stats.get("cells_with_exact_miss", 0) + 1
                stats["worst_relative_excess"] = max(stats.get("worst_relative_excess", 0.0), worst)
                cc2 = cell_certificate(G, lo, hi, i, Ni, eps=EPS_SLACK)
                if not cc2["witnesses"]:
                    txt.append(cc2["kline"])
                    meta.append(("K", i, "eps"))
                    for tl in cc["tlines"]:
                        txt.append(tl)
                        meta.append(("T", i, int(tl.split()[2]), "negligible"))
                    stats["certs"] = stats.get("certs", 0) + cc2["ncert"] + 6
                    stats["bbpass"] = stats.get("bbpass", 0) + cc2["nbb"]
                    stats["cells_certified_eps"] = stats.get("cells_certified_eps", 0) + 1
                    allflags[i] = cc["flags"]
                    txt.append("S %d %s" % (i, "".join("1" if b else "0" for b in allflags[i]) or "-"))
                    nb = sum(1 for b in allflags[i] if b)
                    hist_ngb[nb] = hist_ngb.get(nb, 0) + 1
                    continue
            txt.append(cc["kline"])
            meta.append(("K", i, "exact"))
            for tl in cc["tlines"]:
                txt.append(tl)
                meta.append(("T", i, int(tl.split()[2]), "miss"))
            for (k, x, exc) in cc["witnesses"]:
                fnd.add("missing_neighbour", "cell %d: the reported neighbour list does not define its Voronoi cell: internal point %r of the reported polytope "
                        "is strictly closer to generator %d ((2 r.y - |r|^2)/|r|^2 = %.3g)" % (i, x, k, exc), cell=i, k=k)
            stats["certs"] = stats.get("certs", 0) + cc["ncert"] + 6
            stats["bbpass"] = stats.get("bbpass", 0) + cc["nbb"]
            stats["cells_certified"] = stats.get("cells_certified", 0) + 1
            allflags[i] = cc["flags"]
        else:
            # facet flags only, for the symmetry check
            gi = G[i]
            planes = []
            for j in Ni:
                r = (G[j][0] - gi[0], G[j][1] - gi[1], G[j][2] - gi[2])
                planes.append(((2 * r[0], 2 * r[1], 2 * r[2]), r[0] * r[0] + r[1] * r[1] + r[2] * r[2]))
            cons, verts = polytope([lo[a] - gi[a] for a in range(3)], [hi[a] - gi[a] for a in range(3)], planes)
            allflags[i] = facet_flags(cons, verts, [(v[0] / v[3], v[1] / v[3], v[2] / v[3]) for v in verts], len(Ni))
        txt.append("S %d %s" % (i, "".join("1" if b else "0" for b in allflags[i]) or "-"))
        nb = sum(1 for b in allflags[i] if b)
        hist_ngb[nb] = hist_ngb.get(nb, 0) + 1
    for q, qp in enumerate(pr["qs"]):
        if q in N["L"]:
            txt.append("L %d %d %s" % (q, N["L"][q], " ".join(hx(v) for v in qp)))
            meta.append(("L", q))
    txt.append("E")
    meta.append(("S",))
    info["flags"] = allflags
    info["G"] = G
    info["lo"] = lo
    info["hi"] = hi
    return txt, meta, fnd, info


# =====================================================================================================================
# numeric oracle (validation with tolerances; no theorem)
# =====================================================================================================================
ETA_C = 16.0          # safety factor on the first-order rounding-error estimate of a circumcentre
ILL = 1e-3            # a cell is 'ill-conditioned' when the estimated volume error exceeds this fraction of its volume
ILL_OLD = 1e-2        # same for the comparison with the tolerance based OldVoronoiGrid


def real_ints(pr):
    a, s = pr["anchor"], pr["sides"]
    top = tuple(a[k] + s[k] for k in range(3))          # the plane NewVoronoiBox mirrors in: fl(anchor + side)
    e = dbl_int_scale([v for p in pr["pts"] for v in p] + list(a) + list(top))
    P = [tuple(to_int(v, e) for v in p) for p in pr["pts"]]
    return P, [to_int(v, e) for v in a], [to_int(v, e) for v in top], 2.0 ** e, top


def vdist(a, b):
    return math.sqrt((a[0] - b[0]) ** 2 + (a[1] - b[1]) ** 2 + (a[2] - b[2]) ** 2)


def numeric_oracle(pr, V, tag, cells, fnd, stats, geo_cache, old=False, flags=None):
    """compares the rounded outputs of one grid variant V (parsed) with the geometry recomputed from the exact vertex set of the
    polytope defined by NewVoronoiGrid's reported neighbour lists (geo_cache[i], real coordinates).
    returns per-cell tolerances used (dict i -> (tolV, ill))"""
    n = len(pr["pts"])
    a, s = pr["anchor"], pr["sides"]
    cmax = max(max(abs(a[k]), abs(a[k] + s[k])) for k in range(3))
    L2 = s[0] * s[0] + s[1] * s[1] + s[2] * s[2]
    vbox = s[0] * s[1] * s[2]
    res = {}
    worst = stats.setdefault("worst_ratio_" + tag, {"vol": 0.0, "cen": 0.0, "area": 0.0, "mid": 0.0})
    for i in cells:
        geo = geo_cache[i]
        vol, cen, faces = V["C"][i][0], V["C"][i][1], V["F"][i]
        gi = pr["pts"][i]
        eta = ETA_C * U * geo["kappa_rho"] + 16 * U * cmax
        if old:
            # OldVoronoiGrid decides 'vertex on plane' with an ABSOLUTE tolerance eps = 2e-10 |sides|^2 on r.v - |r|^2 (r = half the
            # separation vector): a plane can be displaced by eps/|r|
            # a plane can be displaced by eps/|r|, a vertex (intersection of three planes) by kappa times that
            eta += 4 * 2e-10 * L2 / geo["rmin_half"] * geo["kappa"]
        tolV = 4 * eta * geo["surface"] + 64 * U * geo["volume"]
        ill = not (tolV <= (ILL_OLD if old else ILL) * geo["volume"])
        res[i] = (tolV, ill, eta)
        if not (vol > 0.0) or vol != vol or vol == math.inf:
            fnd.add("volume_sign", "%s cell %d: volume %r is not a positive finite number" % (tag, i, vol), cell=i)
            continue
        if ill:
            stats["ill_conditioned_" + tag] = stats.get("ill_conditioned_" + tag, 0) + 1
            continue
        stats["cells_numeric_" + tag] = stats.get("cells_numeric_" + tag, 0) + 1
        dv = abs(vol - geo["volume"])
        worst["vol"] = max(worst["vol"], dv / tolV)
        if dv > tolV:
            fnd.add("volume", "%s cell %d: volume %.17g differs from the volume %.17g of the polytope of its reported neighbours by %.3g (tolerance %.3g)"
                    % (tag, i, vol, geo["volume"], dv, tolV), cell=i)
        cex = tuple(geo["centroid"][k] + gi[k] for k in range(3))
        tolc = 8 * eta * geo["surface"] * geo["diam"] / geo["volume"] + 64 * U * cmax
        dc = vdist(cen, cex)
        worst["cen"] = max(worst["cen"], dc / tolc)
        if not (dc <= tolc):
            fnd.add("centroid", "%s cell %d: centroid %r differs from the exact centroid %r by %.3g (tolerance %.3g)" % (tag, i, cen, cex, dc, tolc), cell=i)
        rep = {}
        for (j, ar, mid, nv) in faces:
            rep.setdefault(j, []).append((ar, mid))
        tol_deg = 8 * eta * geo["diam"] + 64 * U * geo["surface"]
        for key, (aex, mex, perim) in geo["faces"].items():
            tolA = 4 * eta * perim + 64 * U * aex
            if key not in rep:
                if aex > tol_deg:
                    fnd.add("missed_face", "%s cell %d: no face reported towards %s although the polytope of the reported neighbours has a face of area %.6g there (tolerance %.3g)"
                            % (tag, i, key if key < MAXIDX else "wall %d" % (key - WALL0), aex, tol_deg), cell=i, ngb=key)
                continue
            ar, mid = rep[key][0]
            if len(rep[key]) > 1:
                if old:
                    # the tolerance based algorithm can report one face as several coplanar pieces with the same neighbour (seen on
                    # nearly degenerate sets): harmless for every consumer (they sum over faces); merge the pieces
                    stats["old_split_faces"] = stats.get("old_split_faces", 0) + 1
                    ar = sum(x[0] for x in rep[key])
                    mid = tuple(sum(x[0] * x[1][k] for x in rep[key]) / ar for k in range(3)) if ar > 0 else mid
                else:
                    fnd.add("duplicate_face", "%s cell %d: neighbour %d reported %d times" % (tag, i, key, len(rep[key])), cell=i)
            worst["area"] = max(worst["area"], abs(ar - aex) / max(tolA, tol_deg * 1e-3))
            if not (abs(ar - aex) <= max(tolA, 0.0)) and abs(ar - aex) > tol_deg * 1e-3:
                fnd.add("face_area", "%s cell %d -> %d: face area %.17g, exact %.17g (difference %.3g, tolerance %.3g)" % (tag, i, key, ar, aex, abs(ar - aex), tolA), cell=i, ngb=key)
            if aex > 1e-6 * geo["surface"]:
                mx = tuple(mex[k] + gi[k] for k in range(3))
                tolm = 8 * eta * (1 + perim * geo["diam"] / aex) + 64 * U * cmax
                dm = vdist(mid, mx)
                worst["mid"] = max(worst["mid"], dm / tolm)
                if not (dm <= tolm):
                    fnd.add("face_midpoint", "%s cell %d -> %d: face midpoint %r, exact %r (distance %.3g, tolerance %.3g)" % (tag, i, key, mid, mx, dm, tolm), cell=i, ngb=key)
        for key, lst in rep.items():
            if key not in geo["faces"]:
                if MAXIDX <= key < WALL0 and lst[0][0] > tol_deg:
                    fnd.add("corner_face", "%s cell %d: face of area %.6g towards a corner of the all-enclosing tetrahedron" % (tag, i, lst[0][0]), cell=i)
                elif key < MAXIDX or key >= WALL0:
                    if lst[0][0] > tol_deg and not old:
                        fnd.add("face_area", "%s cell %d -> %d: reported face area %.6g but the exact polytope has no face there (tolerance %.3g)" % (tag, i, key, lst[0][0], tol_deg), cell=i, ngb=key)
                    elif old and lst[0][0] > tol_deg:
                        fnd.add("nversion_neighbour", "%s cell %d -> %d: OldVoronoiGrid reports a face of area %.6g that NewVoronoiGrid's structure does not have" % (tag, i, key, lst[0][0]), cell=i, ngb=key)
    return res


# =====================================================================================================================
# pipeline
# =====================================================================================================================
def variants_for(pr):
    v = ["N1", "O1"]
    if len(pr["pts"]) > 100 or pr.get("threads"):
        v += ["N4", "O4"]
    return v


def strip_tag(lines, kinds=("C", "F", "L")):
    return [l.split(None, 1)[1] for l in lines if l.split()[1] in kinds]


def run_checker(model, texts, nproc=4, timeout=3000):
    """texts: list (per problem) of checker input (list of lines) or None. returns list of output line lists"""
    import subprocess
    idx = [k for k, t in enumerate(texts) if t]
    outs = [None] * len(texts)
    if not idx:
        return outs
    # longest first, round robin
    order = sorted(idx, key=lambda k: -len(texts[k]))
    chunks = [[] for _ in range(max(1, min(nproc, len(order))))]
    for r, k in enumerate(order):
        chunks[r % len(chunks)].append(k)
    procs = []
    for ch in chunks:
        inp = "".join("\n".join(texts[k]) + "\n#END %d\n" % k for k in ch)
        p = subprocess.Popen([model], stdin=subprocess.PIPE, stdout=subprocess.PIPE, stderr=subprocess.DEVNULL, universal_newlines=True)
        procs.append((p, ch, inp))
    import threading
    results = {}

    def work(p, ch, inp):
        try:
            o, _ = p.communicate(inp, timeout=timeout)
        except Exception:
            p.kill()
            o = ""
        results[id(p)] = o
    ths = [threading.Thread(target=work, args=a) for a in procs]
    for t in ths:
        t.start()
    for t in ths:
        t.join()
    for (p, ch, inp) in procs:
        o = results.get(id(p), "").splitlines()
        # answers come in order; split by counting expected answer lines is done by the caller through markers: the driver
        # echoes nothing for '#END', so split on the S line that ends every problem
        cur = []
        ci = 0
        for l in o:
            cur.append(l)
            if l.startswith("S ") and ci < len(ch):
                outs[ch[ci]] = cur
                cur = []
                ci += 1
    return outs


def check_answers(pr, meta, out, fnd, stats):
    """compare the checker's verdict lines with what the finder expects; every deviation is a finding or a break"""
    if out is None:
        fnd.add("checker", "extracted checker produced no output for this problem")
        return
    if len(out) != len(meta):
        fnd.add("checker", "extracted checker printed %d lines, %d expected: %r" % (len(out), len(meta), [l for l in out if l.startswith("?")][:3]))
        return
    for m, l in zip(meta, out):
        f = l.split()
        if f[0] != m[0]:
            fnd.add("checker", "answer line %r does not match expected kind %r" % (l, m))
            return
        if m[0] == "W":
            if f[-1] != "1":
                fnd.add("mirror", "cell %d: the wall copies NewVoronoiBox computes in the internal representation are not the exact mirror images in the internal box planes" % m[1], cell=m[1])
        elif m[0] == "K":
            stats["K_total"] = stats.get("K_total", 0) + 1
            if f[2] != m[2]:
                fnd.add("checker", "checker ran mode %s, expected %s" % (f[2], m[2]))
            elif f[-1] == "1":
                stats["K_ok" if m[2] == "exact" else "K_ok_eps"] = stats.get("K_ok" if m[2] == "exact" else "K_ok_eps", 0) + 1
            else:
                fnd.add("cert_rejected", "cell %d: the verified checker REJECTED the certificate (%s)" % (m[1], m[2]), cell=m[1])
        elif m[0] == "T":
            if f[-1] == "1":
                stats["witness_confirmed"] = stats.get("witness_confirmed", 0) + 1
                if m[3] == "miss":
                    fnd.add("missing_neighbour_confirmed", "cell %d: witness against generator %d CONFIRMED by the verified witness_check" % (m[1], m[2]), cell=m[1], k=m[2])
                else:
                    stats["negligible_misses"] = stats.get("negligible_misses", 0) + 1
            else:
                fnd.add("checker", "finder produced a witness for cell %d / generator %d that the verified witness_check does not accept (finder bug)" % (m[1], m[2]))
        elif m[0] == "L":
            q = m[1]
            stats["lookups"] = stats.get("lookups", 0) + 1
            if f[-1] == "exact":
                stats["lookups_exact"] = stats.get("lookups_exact", 0) + 1
            elif f[-1] == "slack":
                stats["lookups_slack"] = stats.get("lookups_slack", 0) + 1
            else:
                fnd.add("lookup", "NewVoronoiGrid::get_index(%r) returned a generator that is not nearest (not even within the rounding slack)" % (pr["qs"][q],), query=q)
        elif m[0] == "S":
            if f[-1] != "1":
                fnd.add("asymmetric_neighbour", "a genuine facet of some cell (exact polytope of the reported neighbours) is not reported by the cell on the other side")


def brute_nearest(pr, q):
    """exact nearest generator set for a query (rationals via integer scaling)"""
    e = dbl_int_scale([v for p in pr["pts"] for v in p] + list(q))
    Q = [to_int(v, e) for v in q]
    best = None
    arg = []
    for i, p in enumerate(pr["pts"]):
        d = sum((to_int(p[k], e) - Q[k]) ** 2 for k in range(3))
        if best is None or d < best:
            best, arg = d, [i]
        elif d == best:
            arg.append(i)
    return arg


def process(problems, impl, model, tier_quick, stats_all, log=None, cert_cap=None, env=None):
    """full pipeline for a list of problems; returns list of (problem, findings list, info)"""
    rc, res = run_harness(impl, problems, variants_for, env=env)
    texts, metas, infos, fnds, perstats = [], [], [], [], []
    for pr, r in zip(problems, res):
        st = {}
        n = len(pr["pts"])
        sample = None
        if cert_cap is not None and n > cert_cap:
            rr = vf.SplitMix64(n * 7919 + len(pr["qs"]))
            sample = sorted(set(rr.below(n) for _ in range(cert_cap)))
        txt, meta, fnd, info = analyse_new(pr, r.get("N1"), st, sample_cells=sample)
        texts.append(txt)
        metas.append(meta)
        infos.append(info)
        fnds.append(fnd)
        perstats.append(st)
    outs = run_checker(model, texts) if model else [None] * len(texts)
    out = []
    for pr, r, txt, meta, info, fnd, st, o in zip(problems, res, texts, metas, infos, fnds, perstats, outs):
        n = len(pr["pts"])
        N = r.get("N1")
        if txt is not None:
            if model:
                check_answers(pr, meta, o, fnd, st)
            # independent Python oracle for the lookups (brute force in exact integers): cross-check of the verified verdict
            for q, qp in enumerate(pr["qs"]):
                if q in N["L"]:
                    arg = brute_nearest(pr, qp)
                    st["lookups_py"] = st.get("lookups_py", 0) + 1
                    if N["L"][q] not in arg:
                        st["lookups_py_nonexact"] = st.get("lookups_py_nonexact", 0) + 1
            # numeric oracles
            P, lo, hi, scale, top = real_ints(pr)
            geo = {}
            for i in range(n):
                Ni = [f[0] for f in N["F"][i] if f[0] < MAXIDX]
                geo[i] = real_cell_geometry(P, lo, hi, i, Ni, scale, tets=N["D"].get(i))
            tn = numeric_oracle(pr, N, "N1", range(n), fnd, st, geo)
            vbox = pr["sides"][0] * pr["sides"][1] * pr["sides"][2]
            tot = sum(N["C"][i][0] for i in range(n))
            tolsum = sum(t[0] for t in tn.values()) + 64 * U * n * vbox
            if all(not t[1] for t in tn.values()):
                st["sum_checked"] = 1
                if not (abs(tot - vbox) <= tolsum):
                    fnd.add("volume_sum", "cell volumes sum to %.17g, box volume %.17g (relative difference %.3g, tolerance %.3g)" % (tot, vbox, (tot - vbox) / vbox, tolsum / vbox))
                if not (abs(tot - vbox) <= 1e-9 * vbox):
                    fnd.add("volume_sum", "cell volumes sum to %.17g, box volume %.17g: relative difference %.3g above 1e-9 although every cell is well conditioned" % (tot, vbox, (tot - vbox) / vbox))
            # area symmetry on genuine facets
            flags = info["flags"]
            for i in range(n):
                reals = [f for f in N["F"][i] if f[0] < MAXIDX]
                for p, f in enumerate(reals):
                    j = f[0]
                    if flags[i][p] and i < j and not tn[i][1] and not tn[j][1]:
                        back = [g for g in N["F"][j] if g[0] == i]
                        if back:
                            # each side's area error is bounded by (vertex error) x (perimeter <= pi diam)
                            tol = 8 * (tn[i][2] * geo[i]["diam"] + tn[j][2] * geo[j]["diam"]) + 64 * U * (geo[i]["surface"] + geo[j]["surface"])
                            st["area_pairs"] = st.get("area_pairs", 0) + 1
                            if not (abs(f[1] - back[0][1]) <= tol):
                                fnd.add("area_asymmetry", "face %d|%d: area %.17g seen from %d but %.17g seen from %d (tolerance %.3g)" % (i, j, f[1], i, back[0][1], j, tol), cell=i, ngb=j)
            # threaded construction must reproduce the serial one bit for bit (each cell is computed independently, in the same order of insertions)
            if "N4" in r:
                st["threaded_compared"] = st.get("threaded_compared", 0) + 1
                if strip_tag(r["N4"]["raw"]) != strip_tag(N["raw"]):
                    a, b = strip_tag(N["raw"]), strip_tag(r["N4"]["raw"])
                    k = vf.first_diff(a, b)
                    fnd.add("threaded", "NewVoronoiGrid built with 4 threads differs from the serial construction: %r vs %r" % (a[k] if k < len(a) else None, b[k] if k < len(b) else None))
            # N-version: OldVoronoiGrid
            O = r.get("O1")
            if O is not None:
                old_ok = O["X"] is None and len(O["C"]) == n
                # domain of the tolerance-based old algorithm: every cell must be resolved by its absolute tolerance
                fo = Findings()
                so = {}
                if old_ok:
                    to = numeric_oracle(pr, O, "O1", range(n), fo, so, geo, old=True)
                    indomain = all(not t[1] for t in to.values())
                else:
                    L2 = sum(x * x for x in pr["sides"])
                    indomain = all(4 * (4 * 2e-10 * L2 / geo[i]["rmin_half"] * geo[i]["kappa"]) * geo[i]["surface"] <= ILL_OLD * geo[i]["volume"] for i in range(n))
                st["old_compared"] = 1
                if not old_ok:
                    if indomain:
                        fnd.add("old_crash", "OldVoronoiGrid died (%s) on a generator set inside its tolerance domain" % O["X"])
                    else:
                        st["old_died_outside_domain"] = 1
                else:
                    for k2, v2 in so.items():
                        st[k2] = v2
                    # volume sum of the old grid: its cells are cut with an absolute tolerance eps = 2e-10 |sides|^2 on the plane
                    # distance, so every cell volume is off by at most (surface) x 4 eps kappa / |r|; the sum is checked whenever
                    # that bound is informative (well below 1e-4 of the box) - also for cells the per-cell comparison skips
                    L2o = sum(x * x for x in pr["sides"])
                    tol_old = sum(4 * (4 * 2e-10 * L2o / geo[i]["rmin_half"] * geo[i]["kappa"]) * geo[i]["surface"] for i in range(n)) + 64 * U * n * vbox
                    tot_o = sum(O["C"][i][0] for i in range(n))
                    if tol_old <= 1e-4 * vbox:
                        st["old_sum_checked"] = st.get("old_sum_checked", 0) + 1
                        st["old_sum_worst_ratio"] = max(st.get("old_sum_worst_ratio", 0.0), abs(tot_o - vbox) / max(tol_old, 1e-300))
                        if not (abs(tot_o - vbox) <= tol_old):
                            fnd.add("nversion_old_volume_sum", "OldVoronoiGrid: cell volumes sum to %.17g, box volume %.17g (relative difference %.3g, bound from its plane tolerance %.3g): "
                                    "cells overlap or leave gaps" % (tot_o, vbox, (tot_o - vbox) / vbox, tol_old / vbox))
                    for it in fo.items:
                        fnd.add("nversion_" + it[0] if not it[0].startswith("nversion") else it[0], it[1], **it[2])
                    # neighbour relations: every genuine facet with non-negligible area must be a neighbour in the old grid too
                    for i in range(n):
                        if to[i][1] or tn[i][1]:
                            continue
                        oldn = set(f[0] for f in O["F"][i])
                        for key, (aex, mex, perim) in geo[i]["faces"].items():
                            if key < MAXIDX and aex > 8 * (to[i][2]) * geo[i]["diam"] + 1e-9 * geo[i]["surface"] and key not in oldn:
                                fnd.add("nversion_neighbour", "cell %d: neighbour %d (face area %.6g) is missing in OldVoronoiGrid" % (i, key, aex), cell=i, ngb=key)
                    # lookups of the old grid agree with the new one unless the query is an (almost) exact tie
                    for q in N["L"]:
                        if q in O["L"] and O["L"][q] != N["L"][q]:
                            arg = brute_nearest(pr, pr["qs"][q])
                            st["old_lookup_differs"] = st.get("old_lookup_differs", 0) + 1
                            if O["L"][q] not in arg:
                                di = vdist(pr["pts"][O["L"][q]], pr["qs"][q])
                                db = vdist(pr["pts"][arg[0]], pr["qs"][q])
                                if di > db * (1 + 1e-12) + 1e-12 * max(pr["sides"]):
                                    fnd.add("nversion_lookup", "OldVoronoiGrid::get_index(%r) = %d at distance %.17g, nearest generator %d at %.17g" % (pr["qs"][q], O["L"][q], di, arg[0], db), query=q)
                    if "O4" in r and strip_tag(r["O4"]["raw"]) != strip_tag(O["raw"]):
                        fnd.add("threaded", "OldVoronoiGrid built with 4 threads differs from the serial construction")
        elif info.get("precondition") is False:
            st["precondition_violated"] = 1
        # accumulate
        for k2, v2 in st.items():
            if isinstance(v2, dict):
                d = stats_all.setdefault(k2, {})
                for a, b in v2.items():
                    if k2.startswith("worst"):
                        d[a] = max(d.get(a, 0), b)
                    else:
                        d[a] = d.get(a, 0) + b
            else:
                stats_all[k2] = stats_all.get(k2, 0) + v2
        out.append((pr, fnd.items, info))
    return out


# =====================================================================================================================
# defect probes (always on; C15_PROBES=0 switches them off for experiments)
# =====================================================================================================================
def known_entries():
    p = os.path.join(vf.VERIF, "known_findings.json")
    try:
        return [k for k in json.load(open(p)) if k.get("property") == "C15"]
    except Exception:
        return []


def probe_enabled(kind):
    """the defect probes always run: a listed finding is printed as KNOWN-FINDING by the driver, a fixed one must stay fixed"""
    return os.environ.get("C15_PROBES", "1") != "0"


HANG_INPUT = dict(anchor=(1e-3, 2e-3, -5e-4), sides=(1e-5, 3e-5, 2e-5),
                  pts=[(0.0010099999999999612, 0.0020002598594839036, -0.0004940907139738952),
                       (0.001008863909772535, 0.0020025845595234753, -0.0004995196165460897)])
OLD_CRASH_INPUT = dict(anchor=(0., 0., 0.), sides=(1., 1., 1.),
                       pts=[(0.6523420128149839, 0.41011127746399034, 0.3933946132978396), (0.6523166131076505, 0.4100744891313052, 0.3933790706813594),
                            (0.6523337898133296, 0.41010034516388505, 0.3934057814249395), (0.6523228166821459, 0.4100959031655861, 0.39338467297131696),
                            (0.6523079394398255, 0.41009061828897536, 0.3933831657905705), (0.6523230575058523, 0.41011567195425647, 0.39336177779153975)])


def pr_replay(pr, extra=None):
    d = dict(anchor=[hx(v) for v in pr["anchor"]], sides=[hx(v) for v in pr["sides"]], generators=[[hx(v) for v in p] for p in pr["pts"]],
             queries=[[hx(v) for v in p] for p in pr.get("qs", [])], cls=pr.get("cls", ""), box=pr.get("box", ""), label=pr.get("label", ""),
             generators_decimal=[list(p) for p in pr["pts"][:12]])
    if extra:
        d.update(extra)
    return d


def pr_from_replay(d):
    return dict(anchor=tuple(bd(v) for v in d["anchor"]), sides=tuple(bd(v) for v in d["sides"]), pts=[tuple(bd(v) for v in p) for p in d["generators"]],
                qs=[tuple(bd(v) for v in p) for p in d.get("queries", [])], cls=d.get("cls", ""), box=d.get("box", ""), label=d.get("label", ""),
                threads=d.get("threads", False))


def minimise(pr, kind, impl, model, budget=40.0, env=None):
    """delta debugging on the generator set: keep the same kind of finding"""
    t0 = time.time()
    pts = list(pr["pts"])

    def fails(cand):
        p = dict(pr)
        p["pts"] = cand
        st = {}
        r = process([p], impl, model, True, st, env=env)
        return any(it[0] == kind for it in r[0][1])
    nchunk = 2
    while len(pts) >= 2 and time.time() - t0 < budget:
        chunk = max(1, len(pts) // nchunk)
        reduced = False
        for s0 in range(0, len(pts), chunk):
            cand = pts[:s0] + pts[s0 + chunk:]
            if cand and time.time() - t0 < budget and fails(cand):
                pts = cand
                nchunk = max(nchunk - 1, 2)
                reduced = True
                break
        if not reduced:
            if chunk == 1:
                break
            nchunk = min(nchunk * 2, len(pts))
    q = dict(pr)
    q["pts"] = pts
    return q


# =====================================================================================================================
def build_specs(rng, quick):
    specs = []
    cor = corpus(rng)
    boxes = ["unit"] + ([BOX_KINDS[1 + rng.below(len(BOX_KINDS) - 1)]] if quick else BOX_KINDS[1:])
    for name, pts in cor:
        for b in boxes:
            specs.append(make_spec(rng, pts, 0, b, 6, label=name))
    sizes = [(10, 50), (50, 140)] if quick else [(6, 30), (30, 100), (100, 200), (200, 400)]
    bi = rng.below(len(BOX_KINDS))
    for rep in range(1 if quick else 2):
        for cls in CLASSES:
            for (a, b) in sizes:
                n = a + rng.below(b - a)
                specs.append(make_spec(rng, cls, n, BOX_KINDS[bi % len(BOX_KINDS)], 16 if quick else 40))
                bi += 1
    # larger sets: threaded construction (job size of the grids is 100 cells), certificates on a sample of cells
    big = [("uniform", 320), ("perturbed3", 343), ("uniform", 900)] if quick else [("uniform", 700), ("perturbed3", 1000), ("clustered", 1200), ("lattice", 1728), ("uniform", 2000), ("walls", 1500)]
    for cls, n in big:
        specs.append(make_spec(rng, cls, n, BOX_KINDS[bi % len(BOX_KINDS)], 24 if quick else 60))
        bi += 1
    return specs


def run(ck):
    ck.prove()
    d = ck.scratch
    ok1, log1 = vf.coq_extract("C15", d)
    ok2, log2 = (False, "") if not ok1 else vf.ocaml_build(d, ["c15_model"], DRIVER, "model")
    ok3, log3 = vf.cxx_build(HARNESS, os.path.join(d, "impl"), libs=False, openmp=True)
    if not ok3:
        ck.breaks.append("harness does not compile against /repo/src (NewVoronoiGrid/OldVoronoiGrid):\n" + log3[-2000:])
    if not (ok1 and ok2):
        ck.breaks.append("checker extraction/build failed:\n" + (log1 + log2)[-2000:])
    impl = os.path.join(d, "impl")
    model = os.path.join(d, "model") if (ok1 and ok2) else None
    cov = ck.coverage
    stats = {}
    if ok3:
        probs = choose_boxes(impl, build_specs(ck.rng, ck.quick), stats)
        ck.log("generator sets: %d, cells: %d" % (len(probs), sum(len(p["pts"]) for p in probs)))
        t0 = time.time()
        nviol = 0
        classes = {}
        sizes = {}
        done = 0
        # a construction that hangs is killed by the harness after C15_ALARM seconds
        henv = {"C15_ALARM": os.environ.get("C15_ALARM", "20" if ck.quick else "180")}
        starts = [0, 4] + list(range(12, len(probs), 12))
        for bi_, b0 in enumerate(starts):
            bs = (starts[bi_ + 1] if bi_ + 1 < len(starts) else len(probs)) - b0
            if bs <= 0:
                continue
            if nviol >= 4:
                ck.notes.append("stopped after %d of %d generator sets: %d violations already reported" % (done, len(probs), nviol))
                break
            results = process(probs[b0:b0 + bs], impl, model, ck.quick, stats, cert_cap=(80 if ck.quick else 200), env=henv)
            done += len(results)
            for pr, items, info in results:
                key = "%s/%s" % (pr["cls"], pr["box"])
                if pr.get("label"):
                    stats.setdefault("corpus_cases", {})[pr["label"]] = stats.get("corpus_cases", {}).get(pr["label"], 0) + 1
                classes[key] = classes.get(key, 0) + 1
                nb = len(pr["pts"])
                sk = "<=8" if nb <= 8 else "<=50" if nb <= 50 else "<=150" if nb <= 150 else "<=500" if nb <= 500 else ">500"
                sizes[sk] = sizes.get(sk, 0) + 1
                if not items:
                    continue
                kinds = []
                for it in items:
                    if it[0] not in kinds:
                        kinds.append(it[0])
                if nviol >= 4:
                    continue
                nviol += 1
                kind = kinds[0]
                # prefer the theorem-backed kinds as the headline
                for pref in ("missing_neighbour_confirmed", "lookup", "asymmetric_neighbour", "cert_rejected", "crash"):
                    if pref in kinds:
                        kind = pref
                        break
                small = pr
                if len(pr["pts"]) > 8 and kind not in ("checker", "harness"):
                    try:
                        small = minimise(pr, kind, impl, model, budget=30.0 if ck.quick else 90.0, env=henv)
                    except Exception as ex:
                        ck.notes.append("minimisation failed: %r" % (ex,))
                st2 = {}
                again = process([small], impl, model, True, st2, env=henv)[0][1]
                texts = [it[1] for it in again if it[0] == kind][:3] or [it[1] for it in items if it[0] == kind][:3]
                ck.violation("C15 fails on the real Voronoi grids [%s] (%s generator set, box %s, %d generators after minimisation from %d): %s; all kinds of finding on the original set: %s"
                             % (kind, pr["cls"] + ("/" + pr["label"] if pr.get("label") else ""), pr["box"], len(small["pts"]), len(pr["pts"]), " || ".join(texts), ",".join(kinds)),
                             pr_replay(small, {"kind": kind, "threads": len(pr["pts"]) > 100}), key={"kind": kind})
        ck.log("pipeline %.1fs" % (time.time() - t0))
        cov["samples"] = [{"class": q["cls"], "label": q["label"], "box": q["box"], "anchor": list(q["anchor"]), "sides": list(q["sides"]), "generators": len(q["pts"]),
                           "first_generators": [list(x) for x in q["pts"][:3]], "queries": len(q["qs"])} for q in probs[:3] + probs[-2:]]
        cov["input_classes"] = classes
        cov["set_sizes"] = sizes
        cov["generator_sets"] = done
        cov["cells"] = sum(len(p["pts"]) for p in probs[:done])
        # ---- precondition sweep: internal representation of random boxes (the class needs every coordinate in [1,2)) ----
        nb = 60 if ck.quick else 400
        sweep = []
        for k in range(nb):
            kind = BOX_KINDS[1 + ck.rng.below(len(BOX_KINDS) - 1)]
            a, s = gen_box(ck.rng, kind)
            sweep.append(dict(cls="sweep", box=kind, anchor=tuple(a), sides=tuple(s), pts=[inbox(a, s, (0.3, 0.4, 0.6)), inbox(a, s, (0.7, 0.2, 0.5))], qs=[], label=""))
        rc, res = run_harness(impl, sweep, lambda p: ["N1"])
        bad = [(p, r["N1"]) for p, r in zip(sweep, res) if "N1" in r and r["N1"]["P"] is not None and r["N1"]["P"][0] != 1]
        cov["precondition_sweep"] = {"boxes": nb, "internal_coordinate_outside_[1,2)": len(bad)}
        if bad:
            p, r = bad[0]
            what = ("NewVoronoiGrid: the internal (rescaled) representation of the all-enclosing tetrahedron leaves [1,2) for %d of %d random boxes (e.g. anchor %r sides %r: "
                    "corners %r), violating the precondition of ExactGeometricTests (which reads the 52-bit mantissas): predicates that fall back to exact arithmetic "
                    "and involve such a corner are evaluated on garbage; the construction can loop forever / read out of bounds" % (len(bad), nb, p["anchor"], p["sides"], [bd(x) for x in r["T"]]))
            if probe_enabled("rescaled_corner_out_of_range"):
                ck.violation(what, pr_replay(p, {"kind": "rescaled_corner_out_of_range"}), key={"kind": "rescaled_corner_out_of_range", "input": "precondition_sweep"})
            else:
                ck.notes.append("NOT ENFORCED (no known_findings entry, C15_PROBES unset): " + what)
        # ---- probes of known defects --------------------------------------------------------------------------------
        run_probes(ck, impl, model, cov)
    nK = stats.get("K_ok", 0)
    cov["evaluations"] = stats.get("certs", 0) + stats.get("bbpass", 0) + stats.get("lookups", 0)
    cov["distinct_nontrivial"] = stats.get("certs", 0)
    # translation-validation keys: programs = outputs of the real classes (one tessellation per generator set and grid class) that were
    # validated; disagreements = cells / lookups on which the exact verdict was not an outright pass and which were examined further
    cov["programs"] = int(cov.get("generator_sets", 0)) + int(stats.get("old_compared", 0))
    cov["disagreements_checked"] = int(stats.get("K_total", 0) - stats.get("K_ok", 0)) + int(stats.get("lookups_slack", 0)) + int(stats.get("witness_confirmed", 0)) + int(stats.get("eps_certified", 0))
    cov["cells_certified_by_extracted_checker"] = "%d of %d submitted" % (nK, stats.get("K_total", 0))
    cov["lookups"] = {"checked": stats.get("lookups", 0), "exact": stats.get("lookups_exact", 0), "within_rounding_slack": stats.get("lookups_slack", 0)}
    cov["statistics"] = {k: v for k, v in stats.items()}
    cov["rule"] = ("generator sets from SplitMix64(VERIF_SEED): corpus (1,2,3,4,5,7,8 hand-picked points incl. collinear/coplanar/cospherical) then classes "
                   + ",".join(CLASSES) + " x box kinds " + ",".join(BOX_KINDS) + " (candidate boxes are submitted to the class itself and the first whose internal representation satisfies the [1,2) precondition is used; "
                   "violating boxes are counted by the precondition sweep). evaluations = (cell i, generator k) inclusions P_i in H_ik verified by the extracted check_cell "
                   "(explicit Farkas certificates = distinct_nontrivial; the rest through the certified bounding box) + get_index lookups decided by the extracted nearest_check. "
                   "Sets above the cap certify a random sample of cells (all cells get exact facet flags, lookups and the numeric oracle).")
    ck.assumptions += [
        "the diagram certified is the one of NewVoronoiGrid's INTERNAL positions (_real_rescaled_positions, integer mantissas in [1,2)) inside the internal box whose planes are fl(anchor+side): "
        "the map real -> internal is monotone per axis and affine up to one rounding; the harness reads these two private members and the checker's W lines verify that the six wall copies are exact mirror images",
        "the extracted checker runs on Coq's inductive Z/positive (ExtrOcamlBasic only); ocaml/c15_driver.ml converts bit patterns / text to Coq data and is trusted for that",
        "the certificate finder (Python, exact integer double-description + Cramer) is NOT trusted: a wrong certificate is rejected, a wrong witness is rejected by witness_check",
        "volumes, centroids, face areas and midpoints are binary64 results: compared with values recomputed from the exact vertex set with tolerance "
        "4*eta*surface (eta = 16 u max rho^4/|det(r1,r2,r3)| + 16 u |coordinate|, the first-order rounding error of a circumcentre); cells whose tolerance exceeds 1e-3 of their volume are counted as ill-conditioned and skipped",
        "OldVoronoiGrid uses an absolute tolerance 2e-10 |sides|^2: compared only on cells it can resolve (tolerance term 4 eps/|r|); dying outside that domain is recorded, not flagged",
        "lookups: exact verdict forall k |x-g_i|^2 <= |x-g_k|^2; the class compares rounded squared distances and prunes with rounded cell bounds, so a result within (1+2^-49) d_k^2 + 2^-47 |sides|^2 is classed 'slack' (none observed unless listed in coverage)",
    ]
    ck.resolve_breaks_without_input()


def run_probes(ck, impl, model, cov):
    pr_done = {}
    # (1) concrete hang / out-of-bounds input for the precondition defect
    if probe_enabled("rescaled_corner_out_of_range"):
        p = dict(HANG_INPUT, qs=[], cls="probe", box="small_offset", label="hang")
        rc, res = run_harness(impl, [p], lambda q: ["N1"], env={"C15_FORCE": "1", "C15_ALARM": "10"})
        X = res[0].get("N1", {}).get("X") if res and res[0].get("N1") else "no output"
        pr_done["hang"] = X
        if X:
            ck.violation("NewVoronoiGrid does not terminate / dies (%s) on 2 generators in the box anchor %r sides %r: a corner of the all-enclosing tetrahedron is outside [1,2) in the internal representation"
                         % (X, p["anchor"], p["sides"]), pr_replay(p, {"kind": "rescaled_corner_out_of_range", "force": True}), key={"kind": "rescaled_corner_out_of_range", "input": "two_generators_small_offset_box"})
    # (2) OldVoronoiGrid segfault on a tight cluster
    if probe_enabled("old_crash_cluster"):
        p = dict(OLD_CRASH_INPUT, qs=[], cls="probe", box="unit", label="old_crash")
        rc, res = run_harness(impl, [p], lambda q: ["O1"], env={"C15_ALARM": "20"})
        X = res[0].get("O1", {}).get("X") if res and res[0].get("O1") else "no output"
        pr_done["old_crash"] = X
        if X:
            ck.violation("OldVoronoiGrid dies (%s) on 6 generators 1.6e-5..5e-5 apart in the unit box (separations comparable to its absolute tolerance sqrt(2e-10 |sides|^2))" % X,
                         pr_replay(p, {"kind": "old_crash_cluster"}), key={"kind": "old_crash_cluster", "input": "six_generators_1.6e-5_apart_unit_box"})
    # (3) NewVoronoiGrid volumes on (nearly) degenerate input: Voronoi vertices are circumcentres of sliver tetrahedra computed in binary64
    if probe_enabled("new_volume_near_degenerate"):
        rr = vf.SplitMix64(12345)
        k = 4
        U0 = [(x + 1e-13 * (rr.uniform() - .5) / k, y + 1e-13 * (rr.uniform() - .5) / k, z + 1e-13 * (rr.uniform() - .5) / k) for (x, y, z) in lattice(k)]
        cases = [("a 4x4x4 cubic lattice perturbed by 1e-13 of the spacing",
                  dict(cls="probe", box="unit", anchor=(0., 0., 0.), sides=(1., 1., 1.), pts=[inbox((0., 0., 0.), (1., 1., 1.), u) for u in U0], qs=[], label="perturbed13"))]
        try:
            cases.append(("an fcc lattice with vacancies (89 generators)", pr_from_replay(json.load(open(os.path.join(vf.VERIF, "corpus/C15_fcc_vacancies.json"))))))
        except Exception as ex:
            ck.notes.append("corpus/C15_fcc_vacancies.json not readable: %r" % (ex,))
        for name, p in cases:
            p = dict(p, qs=[])
            rc, res = run_harness(impl, [p], lambda q: ["N1"])
            N = res[0].get("N1")
            if N and len(N["C"]) == len(p["pts"]):
                vb = p["sides"][0] * p["sides"][1] * p["sides"][2]
                tot = sum(N["C"][i][0] for i in range(len(p["pts"])))
                pr_done["sum_rel_error:" + name] = tot / vb - 1.0
                if abs(tot / vb - 1.0) > 1e-9:
                    ck.violation("NewVoronoiGrid: the cell volumes of %s sum to %.9g times the box volume (relative error %.3g): Voronoi vertices are circumcentres "
                                 "of sliver tetrahedra computed in binary64 from the real positions (NewVoronoiTetrahedron::get_midpoint_circumsphere), the error grows like u/|det|"
                                 % (name, tot / vb, tot / vb - 1.0), pr_replay(p, {"kind": "new_volume_near_degenerate"}), key={"kind": "new_volume_near_degenerate", "input": p.get("label") or name[:40]})
    cov["probes"] = pr_done


def replay(ck, rp):
    d = ck.scratch
    r = rp["replay"]
    ok1, log1 = vf.coq_extract("C15", d)
    ok2, log2 = (False, "") if not ok1 else vf.ocaml_build(d, ["c15_model"], DRIVER, "model")
    ok3, log3 = vf.cxx_build(HARNESS, os.path.join(d, "impl"), libs=False, openmp=True)
    if not ok3:
        print(log3[-2000:])
        return 2
    impl = os.path.join(d, "impl")
    model = os.path.join(d, "model") if (ok1 and ok2) else None
    pr = pr_from_replay(r)
    kind = r.get("kind", "")
    print("REPLAY: %d generators, box anchor %r sides %r, kind %s" % (len(pr["pts"]), pr["anchor"], pr["sides"], kind))
    if kind in ("rescaled_corner_out_of_range", "old_crash_cluster", "new_volume_near_degenerate"):
        env = {"C15_ALARM": "15"}
        if r.get("force"):
            env["C15_FORCE"] = "1"
        rc, res = run_harness(impl, [pr], lambda q: ["N1", "O1"], env=env)
        bad = 0
        for tag, V in res[0].items():
            print(tag, "precondition:", V["P"], "died:", V["X"], "cells:", len(V["C"]), "corners:", [bd(x) for x in V["T"]] if V["T"] else None)
            if V["X"] or (V["P"] is not None and V["P"][0] != 1):
                bad = 1
            if V["C"]:
                vb = pr["sides"][0] * pr["sides"][1] * pr["sides"][2]
                tot = sum(c[0] for c in V["C"].values())
                print(tag, "sum of volumes / box volume - 1 = %.3g" % (tot / vb - 1))
                if abs(tot / vb - 1) > 1e-9:
                    bad = 1
        print("REPLAY:", "property fails on this input" if bad else "property holds on this input")
        return bad
    st = {}
    res = process([pr], impl, model, True, st)
    items = res[0][1]
    for it in items[:20]:
        print(it[0], ":", it[1])
    print(json.dumps({k: v for k, v in st.items() if not isinstance(v, dict)}))
    print("REPLAY:", ("property fails on this input: " + ",".join(sorted(set(i[0] for i in items)))) if items else "property holds on this input")
    return 1 if items else 0
