# C12  complete runs end normally without invalid / uninitialised memory accesses
# (level: other) -- theorem over pointer life cycles REGENERATED from the clang AST, tied to
# valgrind / sanitizer runs of the real binary and of replay harnesses
import os, sys, json, shutil, re
from concurrent.futures import ThreadPoolExecutor
import vf

sys.path.insert(0, os.path.join(vf.VERIF, "tools"))
import lifecycle_extract as LX

LEVEL = "other"
CLAIM = dict(cat="other", design="§3 C12",
   text="Memory safety of the whole program is not something a Coq model of this size can carry. What is logic is carried by theorems: a translator (clang AST -> a small pointer language) regenerates, on every run, "
        "constructor;destructor of EVERY class in /repo/src with raw-pointer members plus the bodies of do_simulation and main; an abstract interpreter over {uninit,null,live,freed} is proved sound in Coq w.r.t. a "
        "nondeterministic semantics (every outcome of uninterpreted conditions = every combination of optional components, every loop count): accepted programs never test, read or delete an uninitialised or freed "
        "pointer. All regenerated programs are accepted (theorem re-checked against the current code). The rest of the property is OBSERVED: complete runs of the real binary (RHD hydro, RHD with radiation + live output, "
        "restart, task-based ionization with diffuse field and continuous source, 1-4 threads) under valgrind memcheck (quick) and an ASan+UBSan build (thorough) must exit 0 with an empty report. Complete-run scenarios (valgrind; thorough: ASan/UBSan too): hydro, restart, RHD with live output (cubic and non-cubic subgrids), ionization with diffuse field and continuous source, a star / an external field without luminosity, a task space re-used several times per iteration, trackers (three in one cell) on a subgrid with copies, sources that appear and disappear.",
   note="Level 'other': the theorem covers the pointer life cycle only (intraprocedural; ownership transfer, array elements and container internals not modelled); out-of-bounds, use-after-free inside containers and "
        "uninitialised scalars are only observed by valgrind/sanitizers on the sampled configurations. Trusted: clang 14 AST, the translator tools/lifecycle_extract.py (unknown constructs over-approximate to reads), valgrind. "
        "Three genuine defects of the pinned commit were found by the theorem failing, replayed under valgrind and fixed (LiveOutputManager, UniformRandomPhotonSourceDistribution and CaproniPhotonSourceDistribution restart constructors).",
   technique="Coq-proved sound abstract interpretation over programs regenerated from the clang AST + valgrind/sanitizer runs")

CONFIGS = os.path.join(vf.VERIF, "harness", "configs")


def regenerate():
    ok, out = vf.repo_configure()
    cache = os.path.join(vf.BUILD, "c12_ast")
    progs, notes = LX.extract(vf.REPO, vf.REPOBUILD, cache)
    shutil.rmtree(cache, ignore_errors=True)
    vf.write_if_changed(os.path.join(vf.COQ, "Cxx", "C12_Gen.v"), LX.emit_coq(progs))
    return progs, notes


def rejected_programs():
    """names of regenerated programs the (proved sound) checker rejects, evaluated inside Coq"""
    ok, log = vf.coq_make(["Cxx/C12_Gen.vo", "Cxx/C12_Defs.vo"])
    tmp = os.path.join(vf.BUILD, "c12_rejected.v")
    open(tmp, "w").write('From Coq Require Import List String.\nFrom CMI Require Import Cxx.C12_Defs Cxx.C12_Gen.\n'
                         'Eval vm_compute in map (fun x => let \'(n, np, st) := x in n) (filter (fun x => let \'(n, np, st) := x in negb (prog_safe np st)) gen_programs).\n')
    rc, out = vf.sh(["timeout", "300", "coqc", "-Q", vf.COQ, "CMI", "-w", "none", "-o", os.path.join(vf.BUILD, "c12_rejected.vo"), tmp], timeout=330)
    return re.findall(r'"([^"]+)"', out), rc, out


def run_binary(exe, workdir, args, valgrind, timeout=900):
    cmd = ([ "valgrind", "-q", "--error-exitcode=99", "--exit-on-first-error=yes", "--errors-for-leak-kinds=none"] if valgrind else []) + [exe] + args
    rc, out = vf.sh(cmd, cwd=workdir, timeout=timeout, env={"OMP_NUM_THREADS": "4", "ASAN_OPTIONS": "detect_leaks=0:abort_on_error=0:exitcode=98", "UBSAN_OPTIONS": "halt_on_error=1:exitcode=97"})
    return rc, out


def scenario(exe, base, name, steps, valgrind):
    """steps: list of (args). Each scenario runs in its own directory with the config files copied in"""
    d = os.path.join(base, name)
    shutil.rmtree(d, ignore_errors=True)
    os.makedirs(d)
    for f in os.listdir(CONFIGS):
        shutil.copy(os.path.join(CONFIGS, f), d)
    # variants of ion.param with an optional component that switches itself off: a star without ionizing luminosity next to an
    # external field, and an external field without flux next to a star ("No ... luminosity! Disabling ...")
    ion = open(os.path.join(CONFIGS, "ion.param")).read()
    open(os.path.join(d, "ion_dark_star.param"), "w").write(ion.replace("luminosity: 1.e+47 Hz", "luminosity: 0. Hz"))
    open(os.path.join(d, "ion_dark_field.param"), "w").write(ion.replace("total flux: 1.e8 m^-2 s^-1", "total flux: 0. m^-2 s^-1"))
    # a task space that is re-used many times over within one iteration (the element counter of ThreadSafeVector wraps around
    # its size repeatedly); the peak simultaneous use stays well below the size
    open(os.path.join(d, "ion_small_taskspace.param"), "w").write(ion.replace("number of tasks: 30000", "number of tasks: 250"))
    rhd = open(os.path.join(CONFIGS, "rhd.param")).read()
    # trackers on a subgrid that has copies
    open(os.path.join(d, "ion_trackers.param"), "w").write(ion.replace("  source copy level: 1", "  source copy level: 1\n  enable trackers: true")
                                                           + "TrackerManager:\n  filename: trackers.yml\n")
    # four trackers: three share one cell (the second and every later tracker of a cell go through the MultiTracker path), one is alone
    open(os.path.join(d, "trackers.yml"), "w").write("number of trackers: 4\n\n" + "".join(
        "tracker[%d]:\n  type: Spectrum\n  position: [%s]\n  number of bins: %d\n\n" % (i, pos, nb)
        for i, (pos, nb) in enumerate([("0.1 pc, 0.05 pc, -0.07 pc", 50), ("-0.6 pc, 0.5 pc, 0.4 pc", 20), ("0.1 pc, 0.05 pc, -0.07 pc", 30), ("0.1 pc, 0.05 pc, -0.07 pc", 10)])))
    # live output (surface density maps) on subgrids with different cell counts per axis
    open(os.path.join(d, "rhd_noncubic.param"), "w").write(rhd.replace("number of cells: [8, 8, 8]", "number of cells: [16, 8, 4]"))
    # radiation hydrodynamics with sources that appear and disappear (the subgrid copies are rebuilt between radiation steps)
    open(os.path.join(d, "rhd_moving.param"), "w").write(rhd.replace("PhotonSourceDistribution:\n  type: SingleStar\n  luminosity: 1.e+47 Hz\n  position: [0.1 pc, 0.05 pc, -0.07 pc]\n",
        "PhotonSourceDistribution:\n  type: UniformRandom\n  number of sources: 3\n  source lifetime: 0.003 Myr\n  source luminosity: 1.e47 s^-1\n"
        "  box anchor: [-0.9 pc, -0.9 pc, -0.9 pc]\n  box sides: [1.8 pc, 1.8 pc, 1.8 pc]\n  update interval: 0.001 Myr\n  random seed: 6\n"))
    res = []
    for a in steps:
        native = a[0] == "NATIVE"      # a leg that only prepares state (under valgrind one thread would do all the work of the leg)
        a = a[1:] if native else a
        rc, out = run_binary(exe, d, a, valgrind and not native)
        rep = [l for l in out.splitlines() if l.startswith("==") or "runtime error" in l or "ERROR: AddressSanitizer" in l or "Error" in l[:40]]
        res.append((a, rc, rep[:12]))
        if rc != 0:
            break
    shutil.rmtree(d, ignore_errors=True)
    return name, res


def scenarios(thorough):
    S = {
        "hydro_1thread": [["--task-based-rhd", "--params", "hydro.param", "--threads", "1", "--dirty", "--number-of-steps", "2"]],
        "hydro_restart": [["--task-based-rhd", "--params", "hydro.param", "--threads", "1", "--dirty", "--number-of-steps", "1"],
                          ["--task-based-rhd", "--params", "hydro.param", "--threads", "1", "--dirty", "--restart", ".", "--number-of-steps", "2"]],
        "rhd_radiation_liveoutput_2threads": [["--task-based-rhd", "--params", "rhd.param", "--threads", "2", "--dirty", "--number-of-steps", "2"]],
        "ionization_diffuse_continuous_2threads": [["--task-based", "--params", "ion.param", "--threads", "2", "--dirty"]],
        "ionization_dark_star_2threads": [["--task-based", "--params", "ion_dark_star.param", "--threads", "2", "--dirty"]],
        "ionization_dark_field_2threads": [["--task-based", "--params", "ion_dark_field.param", "--threads", "2", "--dirty"]],
        "ionization_small_taskspace_2threads": [["--task-based", "--params", "ion_small_taskspace.param", "--threads", "2", "--dirty"]],
        "ionization_trackers_copies_2threads": [["--task-based", "--params", "ion_trackers.param", "--threads", "2", "--dirty"]],
        "rhd_liveoutput_noncubic_subgrids_2threads": [["--task-based-rhd", "--params", "rhd_noncubic.param", "--threads", "2", "--dirty", "--number-of-steps", "2"]],
        # the photon scheduling state of restored subgrids (premature launch decisions) is only exercised when a run WITH radiation is restarted
        "rhd_radiation_restart": [["--task-based-rhd", "--params", "rhd.param", "--threads", "2", "--dirty", "--number-of-steps", "1"],
                                  ["--task-based-rhd", "--params", "rhd.param", "--threads", "2", "--dirty", "--restart", ".", "--number-of-steps", "2"]],
        # a dump written by 4 threads continued with 1 thread (the statement quantifies over restart and over all thread counts)
        "hydro_restart_with_fewer_threads": [["NATIVE", "--task-based-rhd", "--params", "hydro.param", "--threads", "4", "--dirty", "--number-of-steps", "1"],
                                             ["--task-based-rhd", "--params", "hydro.param", "--threads", "1", "--dirty", "--restart", ".", "--number-of-steps", "2"]],
        "rhd_moving_sources_1thread": [["--task-based-rhd", "--params", "rhd_moving.param", "--threads", "1", "--dirty"]],
    }
    if thorough:
        S.update({
            "hydro_4threads": [["--task-based-rhd", "--params", "hydro.param", "--threads", "4", "--dirty", "--number-of-steps", "3"]],
            "ionization_1thread": [["--task-based", "--params", "ion.param", "--threads", "1", "--dirty"]],
            "ionization_4threads": [["--task-based", "--params", "ion.param", "--threads", "4", "--dirty"]],
            "rhd_radiation_1thread": [["--task-based-rhd", "--params", "rhd.param", "--threads", "1", "--dirty", "--number-of-steps", "3"]],
        })
    return S


UNIT_REPLAYS = {"UniformRandomPhotonSourceDistribution": "UniformRandomPhotonSourceDistribution",
                "CaproniPhotonSourceDistribution": "CaproniPhotonSourceDistribution"}


def run(ck):
    progs, notes = regenerate()
    for n in notes:
        ck.breaks.append("translator: " + n)
    ok_proof = ck.prove(extra_obligations=len(progs), extra_discharged=0)
    rej, rc, out = rejected_programs()
    if rc != 0:
        ck.breaks.append("could not evaluate the checker on the regenerated programs:\n" + out[-1500:])
    ck.coverage["discharged"] += len(progs) - len(rej) if rc == 0 else 0
    d = ck.scratch
    ok_b, log_b = vf.repo_ninja(["CMacIonize"])
    exe = os.path.join(vf.REPOBUILD, "rundir", "CMacIonize")
    if not ok_b:
        ck.breaks.append("the whole binary does not build:\n" + log_b[-1500:])
    # --- replays for rejected life cycles
    for name in rej:
        cls = name.split("::")[0]
        p = [q for q in progs if q["name"] == name]
        info = {"program": name, "pointers": p[0]["ptrs"] if p else [], "abstract_program": LX.to_coq(p[0]["ops"])[:3000] if p else ""}
        shown = False
        if cls in UNIT_REPLAYS:
            okh, logh = vf.cxx_build(os.path.join(vf.VERIF, "harness/c12/restart_ctor_harness.cpp"), os.path.join(d, "rch"), libs=True)
            if okh:
                rcv, outv = vf.sh(["valgrind", "-q", "--error-exitcode=99", os.path.join(d, "rch"), cls, os.path.join(d, "rch.tmp")], timeout=600)
                if rcv == 99:
                    info["valgrind"] = outv[:1500]
                    ck.violation("C12: %s leaves an owning pointer uninitialised that its destructor tests (life-cycle theorem fails; valgrind confirms on the real class)" % name,
                                 dict(info, replay_cmd="restart_ctor_harness %s under valgrind" % cls), key={"kind": "lifecycle", "class": cls})
                    shown = True
        elif cls == "LiveOutputManager" and ok_b:
            nm, res = scenario(exe, d, "replay_lom", scenarios(False)["hydro_1thread"], True)
            if any(r[1] == 99 and any("LiveOutputManager" in l for l in r[2]) for r in res):
                info["valgrind"] = res[-1][2]
                ck.violation("C12: %s leaves an owning pointer uninitialised that its destructor tests (life-cycle theorem fails; valgrind confirms on a complete hydro run)" % name,
                             dict(info, replay_cmd="CMacIonize --task-based-rhd --params hydro.param under valgrind"), key={"kind": "lifecycle", "class": cls})
                shown = True
        elif cls == "TaskBasedIonizationSimulation" and ok_b:
            for sc in ("ionization_dark_star_2threads", "ionization_dark_field_2threads", "ionization_diffuse_continuous_2threads"):
                nm, res = scenario(exe, d, "replay_tbis", scenarios(False)[sc], True)
                if any(r[1] != 0 for r in res):
                    info["valgrind"] = res[-1][2]
                    ck.violation("C12: %s: an owning pointer member is deleted and used afterwards (life-cycle theorem fails; the complete run '%s' exits with status %d under valgrind: %s)"
                                 % (name, sc, res[-1][1], " | ".join(res[-1][2][:3])),
                                 dict(info, scenario=sc, replay_cmd="CMacIonize %s under valgrind" % " ".join(res[-1][0])), key={"kind": "lifecycle", "class": cls})
                    shown = True
                    break
        if not shown:
            ck.breaks.append("life-cycle checker rejects %s (pointers %s) and no replay on the real code is available" % (name, info["pointers"]))
    # --- observed part: complete runs under valgrind (quick) / ASan+UBSan as well (thorough)
    runs = []
    if ok_b:
        S = scenarios(not ck.quick)
        with ThreadPoolExecutor(max_workers=8) as ex:
            futs = [ex.submit(scenario, exe, d, n, st, True) for n, st in S.items()]
            for f in futs:
                runs.append(("valgrind",) + f.result())
        if not ck.quick:
            san = os.path.join(vf.BUILD, "repo_asan")
            os.makedirs(san, exist_ok=True)
            if not os.path.exists(os.path.join(san, "build.ninja")):
                vf.sh(["cmake", "-G", "Ninja", "-S", vf.REPO, "-B", san, "-DCMAKE_BUILD_TYPE=RelWithDebInfo", "-DCMAKE_CXX_FLAGS=-D%s" % vf.GUARD,
                       "-DCMAKE_CXX_FLAGS_RELWITHDEBINFO=-O1 -g -fsanitize=address,undefined -fno-omit-frame-pointer -DNDEBUG -Wno-error",
                       "-DCMAKE_EXE_LINKER_FLAGS=-fsanitize=address,undefined"], timeout=900)
            rcs, outs = vf.sh(["ninja", "-j%d" % vf.NCPU, "CMacIonize"], cwd=san, timeout=3000)
            if rcs == 0:
                sexe = os.path.join(san, "rundir", "CMacIonize")
                with ThreadPoolExecutor(max_workers=8) as ex:
                    futs = [ex.submit(scenario, sexe, d, "asan_" + n, st, False) for n, st in S.items()]
                    for f in futs:
                        runs.append(("asan+ubsan",) + f.result())
            else:
                ck.notes.append("ASan/UBSan build failed; thorough tier ran valgrind only: " + outs[-500:])
    nbad = 0
    for tool, name, res in runs:
        for a, rc, rep in res:
            if rc != 0:
                nbad += 1
                top = next((l for l in rep if " at 0x" in l or "runtime error" in l or "#0" in l), rep[0] if rep else "")
                if any("LiveOutputManager" in l for l in rep) and any(v["key"].get("class") == "LiveOutputManager" for v in ck.violations):
                    continue
                ck.violation("C12: complete run '%s' (%s) exits with status %d under %s: %s" % (name, " ".join(a), rc, tool, " | ".join(rep[:4])),
                             {"scenario": name, "args": a, "tool": tool, "exit": rc, "report": rep}, key={"kind": "run", "scenario": name, "tool": tool, "where": re.sub(r"0x[0-9A-Fa-f]+", "", top)[:80]})
    cov = ck.coverage
    cov["explanation"] = ("theorem: soundness of the life-cycle analysis + acceptance of all %d regenerated programs (%d classes' constructor;destructor pairs, do_simulation, main); "
                          "observation: %d complete runs of the real binary under %s, all required to exit 0 with an empty report" %
                          (len(progs), len(set(p["name"].split("::")[0] for p in progs)), sum(len(r[2]) for r in runs), "valgrind" if ck.quick else "valgrind and ASan+UBSan"))
    cov["evaluations"] = sum(len(r[2]) for r in runs) + len(progs)
    cov["distinct_nontrivial"] = len(set(r[1] for r in runs)) + len([p for p in progs if len(p["ptrs"]) > 0])
    cov["rule"] = "evaluations = regenerated life-cycle programs checked + complete program runs observed; non-trivial program = tracks at least one pointer; distinct runs = distinct scenarios"
    cov["programs"] = len(progs)
    cov["rejected_programs"] = rej
    cov["runs"] = [{"tool": t, "scenario": n, "steps": [{"args": " ".join(a), "exit": rc, "report": rep[:3]} for a, rc, rep in res]} for t, n, res in runs]
    cov["samples"] = [{"program": p["name"], "pointers": p["ptrs"], "abstract": LX.to_coq(p["ops"])[:300]} for p in progs[:3]]
    ck.assumptions += ["clang AST of the sources as compiled with -DCMI_VERIF", "pointers handed directly to a plain function are followed into that function (does it delete its parameter? by value or by reference, reset or not); pointers handed to methods/constructors are assumed not to be deleted there",
                       "valgrind/sanitizer runs sample configurations; they are observations, not proof"]
    ck.resolve_breaks_without_input()


def replay(ck, rp):
    r = rp["replay"]
    d = ck.scratch
    if "program" in r:
        cls = r["program"].split("::")[0]
        if cls in UNIT_REPLAYS:
            okh, logh = vf.cxx_build(os.path.join(vf.VERIF, "harness/c12/restart_ctor_harness.cpp"), os.path.join(d, "rch"), libs=True)
            rcv, outv = vf.sh(["valgrind", "-q", "--error-exitcode=99", os.path.join(d, "rch"), cls, os.path.join(d, "rch.tmp")], timeout=600)
            print(outv[:1500])
            print("REPLAY:", "uninitialised pointer tested by the destructor" if rcv == 99 else "property holds on this input")
            return 1 if rcv == 99 else 0
    ok_b, log_b = vf.repo_ninja(["CMacIonize"])
    exe = os.path.join(vf.REPOBUILD, "rundir", "CMacIonize")
    name = r.get("scenario", "hydro_1thread")
    S = scenarios(True)
    nm, res = scenario(exe, d, "replay", S.get(name, S["hydro_1thread"]), True)
    bad = [x for x in res if x[1] != 0]
    print(res)
    print("REPLAY:", "run fails under valgrind" if bad else "property holds on this input")
    return 1 if bad else 0
