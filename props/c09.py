# C09  stop/restart continues exactly: proof (Coq: codec, inventory checker soundness, continuation, D3 refutation)
#      + restart inventory REGENERATED from the clang AST on every run + correspondence with the real
#      RestartWriter/Reader, the real restartable classes and the whole binary (stop after k, restart, compare dumps)
import os, sys, json, re, shutil, struct
from concurrent.futures import ThreadPoolExecutor
import vf

sys.path.insert(0, os.path.join(vf.VERIF, "tools"))
import restart_inventory as RI

LEVEL = "proof"
# pinned-vs-repaired switch: set to True when hooks/c09_fix_d3.patch has been committed to /repo.  The check itself reads the
# state from the regenerated inventory (is DensitySubGrid::_inv_cell_size dumped?); the constant only says what is EXPECTED,
# a disagreement is reported as a note.
D3_FIXED = True

CLAIM = dict(cat="proof", design="§3 C09",
   text="Coq theorems (no axioms beyond Coq's primitive binary64 in the two refutations): (a) the typed binary codec of RestartWriter/RestartReader (bool, integers of any width, doubles as bit patterns, "
        "trivially copyable structs, NUL-free strings, key-ordered string maps; the reader's NUL truncation and std::map insertion are modelled) round-trips every well-formed value and every typed "
        "stream, for every sizeof(size_t); (b) a checker for restart inventories is sound: if writer and reader token structures are equal for every class and for do_simulation, then for EVERY oracle "
        "(loop counts, optional components, dynamic classes) the restart reads exactly the dumped type sequence, hence exactly the dumped values; every data member is dumped and restored or listed as "
        "derived-by-the-same-expression / transient; (c) for any step function over persisted x derived x transient state, stop after any k, dump, restore, continue = uninterrupted run, and chains of "
        "restarts compose; (d) the pinned code's _inv_cell_size = 1/(side/n) is NOT the constructor's n/side in binary64 (C09_inv_cell_size_refuted, defect D3) and the continuation then fails. "
        "Tie, every run: the inventory (25 classes, ~150 members, dump and restart sequences of do_simulation) is regenerated from the clang AST of /repo and evaluated by vm_compute; the committed "
        "derived/transient table is re-checked against the expressions in the AST; the extracted codec is compared with the real writer/reader on random typed sequences; real components are "
        "written, read and rewritten; the size sequence read by a restarted run is compared with the one the dump wrote (reader hook); and the whole binary is stopped after every k < N, restarted, and "
        "its final dumps compared byte for byte with the uninterrupted run outside the timer bytes and the re-seeded random_seed word. Whole-binary plans include a run restarted from the dump written after its LAST step (must take no step and reproduce the dump) and, when the inventory breaks, the full configuration list (turbulence forcing with driving steps due/not due, anisotropic boxes) is searched for the concrete diverging run.",
   note="Quick configurations include a RescaledIC hydro mask (the dump walker follows the optional mask block through the regenerated inventory to find the re-seeded word). Partial: only the task-based RHD path (TaskBasedRadiationHydrodynamicsSimulation::do_simulation and the classes it dumps) is inventoried; the legacy RadiationHydrodynamicsSimulation/DensityGrid path is not. "
        "Documented exceptions: the four wall-clock timers and the photon random stream (restart_generator is rebuilt from the dumped random_seed, so later seeds differ). HDF5 snapshots are not compared. "
        "Equality of loop counts / optional components at dump and restart time (the oracle) is an assumption tied dynamically by the reader-hook trace. The committed table harness/c09/derived_transient.json "
        "(where each transient member is reset) is audited by hand; the extractor only re-checks the expressions of derived members. Trusted: Coq kernel, clang 14 AST + tools/restart_inventory.py, "
        "extraction (ExtrOcamlBasic, ExtrOCamlFloats) + OCaml driver for the correspondence only. Findings: D3 (fixed by hooks/c09_fix_d3.patch) and RescaledICHydroMask restart defects (_snap_n read as double, "
        "_mask_velocity not dumped; hooks/c09_fix_mask_restart.patch).",
   technique="Coq proofs (codec round trip, checker soundness, induction over restart chains, vm_compute float witness) + clang-AST-regenerated inventory + differential execution of the real binary")

CONFIGS = os.path.join(vf.VERIF, "harness", "configs")
HARN = os.path.join(vf.VERIF, "harness", "c09")
TABLE = os.path.join(HARN, "derived_transient.json")
MPI = ["-Wl,--no-as-needed", "-lmpi_cxx", "-lmpi"]


# ----------------------------------------------------------------------------------------------------------------
# regeneration
def regenerate(scratch=None):
    """clang AST of /repo -> coq/Cxx/C09_Gen.v ; returns (inventory dict, meta, sizes)"""
    ok, out = vf.repo_configure()
    cache = os.path.join(vf.BUILD, "c09_ast_%d" % os.getpid())
    try:
        r = RI.extract(vf.REPO, vf.REPOBUILD, cache)
        types = RI.prim_types(r)
        os.makedirs(cache, exist_ok=True)
        src = os.path.join(cache, "probe.cpp")
        open(src, "w").write(RI.probe_source(types))
        okp, logp = vf.cxx_build(src, os.path.join(cache, "probe"), openmp=False)
        sizes = {}
        if okp:
            rc, outp = vf.sh([os.path.join(cache, "probe")], timeout=60)
            sizes = RI.parse_probe(outp)
        else:
            r["notes"].append("sizeof probe does not compile: " + logp[-800:])
        table = json.load(open(TABLE))
        txt, meta = RI.emit_coq(r, sizes, table)
        vf.write_if_changed(os.path.join(vf.COQ, "Cxx", "C09_Gen.v"), txt)
        meta["table"] = table
        return r, meta, sizes
    finally:
        shutil.rmtree(cache, ignore_errors=True)


def evaluate_inventory():
    """run the (proved sound) checker on the regenerated inventory inside Coq; returns (ok flags, report lines, rc, log)"""
    ok, log = vf.coq_make(["Cxx/C09_Gen.vo", "Cxx/C09_Defs.vo"])
    tmp = os.path.join(vf.BUILD, "c09_report.v")
    open(tmp, "w").write('From Coq Require Import List String.\nFrom CMI Require Import Cxx.C09_Defs Cxx.C09_Gen.\nSet Printing Depth 1000000.\nSet Printing Width 200.\n'
                         'Eval vm_compute in (symmetric gen_inventory, closed gen_inventory, members_ok gen_inventory).\n'
                         'Eval vm_compute in report gen_inventory.\n'
                         'Eval vm_compute in map (fun x => let \'(c, m, v) := x in (c, m, verdict_name v)) (member_verdicts gen_inventory).\n')
    rc, out = vf.sh(["timeout", "300", "coqc", "-Q", vf.COQ, "CMI", "-w", "none", "-o", os.path.join(vf.BUILD, "c09_report.vo"), tmp], timeout=330)
    flags, rep, verdicts = None, [], []
    if rc == 0:
        parts = re.split(r"(?m)^\s*=\s", out)
        if len(parts) >= 4:
            flags = re.findall(r"\b(true|false)\b", parts[1])[:3]
            rep = re.findall(r'"((?:[^"]|"")*)"', parts[2].split("\n     : ")[0])
            verdicts = re.findall(r'\(\s*"((?:[^"]|"")*)",\s*"((?:[^"]|"")*)",\s*"((?:[^"]|"")*)"\s*\)', parts[3])
    return flags, rep, verdicts, rc, (log if not ok else "") + out


# ----------------------------------------------------------------------------------------------------------------
# (i) codec: random typed sequences
def rand_bytes(rng, n, nul=False):
    out = []
    for _ in range(n):
        b = rng.below(256)
        if b == 0 and not nul:
            b = 1 + rng.below(255)
        out.append(b)
    return bytes(out)


def gen_token(rng, kind, wf=True):
    if kind == "b":
        return "b:%d" % rng.below(2)
    if kind in ("i1", "i2", "i4", "i8"):
        w = int(kind[1:])
        v = rng.choice([0, 1, (1 << (8 * w)) - 1, 1 << (8 * w - 1), rng.next() & ((1 << (8 * w)) - 1)])
        return "%s:%0*x" % (kind, 2 * w, v)
    if kind == "d":
        v = rng.choice([0, 0x8000000000000000, 0x3ff0000000000000, 0x7ff0000000000000, 0xfff0000000000000, 1, 0x7fefffffffffffff, rng.next()])
        if (v >> 52) & 0x7ff == 0x7ff and v & ((1 << 52) - 1):
            v = 0x7ff8000000000000     # one canonical quiet NaN (signalling NaNs may be quieted when passed by value)
        return "d:%016x" % v
    if kind == "r16":
        return "r16:" + rand_bytes(rng, 16, nul=True).hex()
    if kind == "s":
        n = rng.choice([0, 0, 1, 2, 7, 8, 9, 31, 32, 33, 255, 256, 1000 + rng.below(3000)]) if rng.below(4) else rng.below(40)
        return "s:" + rand_bytes(rng, n, nul=not wf).hex()
    if kind == "m":
        n = rng.choice([0, 0, 1, 2, 3, 5, 12, 40])
        keys = set()
        for _ in range(n):
            keys.add(rand_bytes(rng, rng.choice([0, 1, 1, 2, 3, 8, 20]), nul=not wf))
        keys = sorted(keys) if wf else list(keys)
        return "m:" + ",".join("%s=%s" % (k.hex(), rand_bytes(rng, rng.choice([0, 1, 5, 30]), nul=not wf).hex()) for k in keys)
    raise ValueError(kind)


KINDS = ["b", "i1", "i2", "i4", "i8", "d", "r16", "s", "m"]


def codec_cases(rng, n):
    """E lines (well-formed values) ; D lines are derived from the implementation's own output and from corrupted streams"""
    lines = ["E", "E s:", "E m:", "E b:0 b:1", "E s:61 s: s:6162",
             "E m:=,61=,6162=63", "E i1:00 i1:ff i2:8000 i4:ffffffff i8:ffffffffffffffff d:7ff8000000000000 r16:" + "00" * 16]
    for i in range(n):
        k = 1 + rng.below(12)
        lines.append("E " + " ".join(gen_token(rng, rng.choice(KINDS)) for _ in range(k)))
    return lines


def tokens_types(line):
    return [t.split(":")[0] for t in line.split()[1:]]


# ----------------------------------------------------------------------------------------------------------------
# whole binary
def make_config(d, name, cells, subgrids, periodic=(True, True, True), copy_level=None, sides=(20., 20., 20.), turbulence=False, forcing_step="0.00002", mask=False):
    """a variant of harness/configs/hydro.param in directory d"""
    txt = open(os.path.join(CONFIGS, "hydro.param")).read()
    txt = txt.replace("number of cells: [18, 18, 18]", "number of cells: [%d, %d, %d]" % tuple(cells))
    txt = txt.replace("number of subgrids: [2, 2, 2]", "number of subgrids: [%d, %d, %d]" % tuple(subgrids))
    txt = txt.replace("periodicity: [true, true, true]", "periodicity: [%s, %s, %s]" % tuple("true" if p else "false" for p in periodic))
    txt = txt.replace("sides: [20. m, 20. m, 20. m]", "sides: [%r m, %r m, %r m]" % tuple(sides))
    txt = txt.replace("anchor: [-10. m, -10. m, -10. m]", "anchor: [%r m, %r m, %r m]" % tuple(-0.5 * s for s in sides))
    if copy_level is not None:
        txt = txt.replace("  random seed: 42", "  random seed: 42\n  source copy level: %d" % copy_level)
    if turbulence:
        txt = txt.replace("  random seed: 42", "  random seed: 42\n  turbulent forcing: true")
        txt += "TurbulenceForcing:\n  time step: %s s\n" % forcing_step + "  forcing power: 5.e9 m^2 s^-3\n  minimum wave number: 1.\n  maximum wave number: 3.\n"
    if mask:
        # a RescaledIC mask inside the moving sphere (all masked cells have non-zero velocity, so that applying the mask is not idempotent
        # on the conserved energy); delta t 0: the mask is applied after every step
        txt = txt.replace("  random seed: 42", "  random seed: 42\n  use mask: true")
        txt += ("HydroMask:\n  type: RescaledIC\n  center: [-2. m, 1. m, 3. m]\n  radius: 2.6 m\n  scale factor density: 0.5\n  scale factor velocity: 1.\n"
                "  scale factor pressure: 0.5\n  delta t: 0. s\n")
    open(os.path.join(d, name), "w").write(txt)


def run_sim(exe, d, param, steps, restart=False, env=None, timeout=600):
    cmd = [exe, "--task-based-rhd", "--params", param, "--threads", "1", "--dirty"] + (["--restart", "."] if restart else []) + ["--number-of-steps", str(steps)]
    e = {"OMP_NUM_THREADS": "1"}
    if env:
        e.update(env)
    rc, out = vf.sh(cmd, cwd=d, timeout=timeout, env=e)
    return rc, out


def scenario(exe, base, tag, cfg, N, ks):
    """run ks[0] steps, restart to ks[1] ... restart to N (ks = [] : uninterrupted). returns (dump N bytes, dump N-1 bytes or None, rc list)"""
    d = os.path.join(base, tag)
    shutil.rmtree(d, ignore_errors=True)
    os.makedirs(d)
    for f in os.listdir(CONFIGS):
        shutil.copy(os.path.join(CONFIGS, f), d)
    if cfg.get("make"):
        make_config(d, cfg["param"], **cfg["make"])
    rcs = []
    stops = list(ks) + [N]
    total = 0
    for i, k in enumerate(stops):
        total += k if i < len(ks) else 0
        target = sum(ks[:i + 1]) if i < len(ks) else N
        rc, out = run_sim(exe, d, cfg["param"], target, restart=(i > 0))
        rcs.append(rc)
        if rc != 0:
            break
    last = prev = None
    p = os.path.join(d, "restart.dump")
    if os.path.exists(p):
        last = open(p, "rb").read()
    p = os.path.join(d, "restart.0.back")
    if os.path.exists(p):
        prev = open(p, "rb").read()
    shutil.rmtree(d, ignore_errors=True)
    return last, prev, rcs


def parse_prefix(inv, sizes, data):
    """walk the regenerated dump sequence of do_simulation over the bytes of a dump as far as no loop / optional component is
    met: returns ([(start, end)] of the Timer components, (start, end) of random_seed or None)"""
    timers, seed = [], None
    pos = 0

    last_count = [0]

    def prim(cxx):
        nonlocal pos
        kind, size, _ = sizes[cxx]
        if kind in ("bool", "int", "float", "raw"):
            if kind == "int" and size == 8:
                last_count[0] = struct.unpack_from("<Q", data, pos)[0]
            pos += size
        elif kind == "string":
            n = struct.unpack_from("<Q", data, pos)[0]
            pos += 8 + n
        elif kind == "map":
            n = struct.unpack_from("<Q", data, pos)[0]
            pos += 8
            for _ in range(2 * n):
                m = struct.unpack_from("<Q", data, pos)[0]
                pos += 8 + m
        else:
            raise ValueError(cxx)

    def walk(toks):
        nonlocal pos
        for t in toks:
            if t[0] == "prim":
                prim(t[1])
            elif t[0] == "call":
                c = inv["classes"][t[1]]
                walk(c["writer"])
            elif t[0] == "loop":
                # the writers of the optional components write an element count and then the elements
                n = last_count[0]
                if n > len(data):
                    raise StopIteration
                for _ in range(n):
                    walk(t[1])
            else:
                raise StopIteration
    try:
        for t in inv["top_writer"]:
            start = pos
            if t[0] == "if" and "mask" in t[1]:
                # optional component: present when the dump continues with the type tag of a hydro mask (the factory writes the tag and
                # then the state of the mask itself)
                n = struct.unpack_from("<Q", data, pos)[0]
                tag = data[pos + 8:pos + 8 + n] if 0 < n < 64 else b""
                if b"HydroMask" in tag:
                    pos += 8 + n
                    cls = tag.decode().lstrip("0123456789")
                    walk(inv["classes"][cls]["writer"])
                continue
            if t[0] == "if" and "turbulence" in t[1]:
                continue        # written after random_seed
            walk([t])
            if t[0] == "call" and t[1] == "Timer":
                timers.append((start, pos))
            if t[0] == "prim" and t[2] == "random_seed":
                seed = (start, pos)
                break
    except (StopIteration, KeyError, struct.error, ValueError):
        pass
    return timers, seed


def diff_ranges(a, b, limit=200000):
    """maximal runs of differing byte positions (both of equal length)"""
    if a == b:
        return []
    import itertools
    out = []
    n = min(len(a), len(b))
    i = 0
    # fast path: compare in chunks
    CH = 4096
    while i < n:
        if a[i:i + CH] == b[i:i + CH]:
            i += CH
            continue
        j = i
        end = min(i + CH, n)
        while j < end:
            if a[j] != b[j]:
                s = j
                while j < end and a[j] != b[j]:
                    j += 1
                if out and out[-1][1] == s:
                    out[-1] = (out[-1][0], j)
                else:
                    out.append((s, j))
                if len(out) > limit:
                    return out
            else:
                j += 1
        i = end
    if len(a) != len(b):
        out.append((n, max(len(a), len(b))))
    return out


def outside(ranges, mask):
    res = []
    for (s, e) in ranges:
        cur = s
        for (ms, me) in sorted(mask):
            if me <= cur or ms >= e:
                continue
            if ms > cur:
                res.append((cur, ms))
            cur = max(cur, me)
            if cur >= e:
                break
        if cur < e:
            res.append((cur, e))
    return res


# ----------------------------------------------------------------------------------------------------------------
def build_all(ck):
    d = ck.scratch
    b = {}
    ok1, log1 = vf.coq_extract("C09", d)
    ok2, log2 = (False, "") if not ok1 else vf.ocaml_build(d, ["c09_model"], os.path.join(vf.VERIF, "ocaml/c09_driver.ml"), "model", floats=True)
    b["model"] = ok1 and ok2
    if not b["model"]:
        ck.breaks.append("model extraction/build failed:\n" + (log1 + log2)[-2000:])
    ok3, log3 = vf.cxx_build(os.path.join(HARN, "codec_harness.cpp"), os.path.join(d, "codec"), openmp=False)
    b["codec"] = ok3
    if not ok3:
        ck.breaks.append("codec harness does not compile against /repo/src/RestartWriter.hpp / RestartReader.hpp:\n" + log3[-2000:])
    ok4, log4 = vf.cxx_build(os.path.join(HARN, "component_harness.cpp"), os.path.join(d, "comp"), openmp=True, extra=MPI)
    b["comp"] = ok4
    if not ok4:
        ck.breaks.append("component harness does not compile against the restartable classes of /repo/src:\n" + log4[-2500:])
    ok5, log5 = vf.repo_ninja(["CMacIonize"])
    b["exe"] = ok5
    if not ok5:
        ck.breaks.append("the whole binary does not build:\n" + log5[-1500:])
    return b


def codec_tie(ck, b):
    d = ck.scratch
    cov = ck.coverage
    n = 300 if ck.quick else 3000
    lines = codec_cases(ck.rng.fork("codec"), n)
    text = "\n".join(lines) + "\nZ\n"
    rc_i, out_i = vf.run_lines([os.path.join(d, "codec"), os.path.join(d, "codec.tmp")], text)
    rc_m, out_m = vf.run_lines([os.path.join(d, "model")], text)
    mism = 0
    ev = 0
    if rc_i != 0 or len(out_i) != len(lines) + 1:
        ck.breaks.append("codec harness failed (exit %d, %d lines for %d cases)" % (rc_i, len(out_i), len(lines) + 1))
        return 0, set()
    if len(out_m) != len(out_i):
        ck.breaks.append("model driver produced %d lines for %d cases" % (len(out_m), len(out_i)))
        return 0, set()
    if out_i[-1] != out_m[-1]:
        ck.breaks.append("sizeof(size_t): implementation says %r, regenerated model uses %r" % (out_i[-1], out_m[-1]))
    sigs = set()
    dlines = []
    for l, a, m in zip(lines, out_i, out_m):
        ev += 1
        if a != m:
            mism += 1
            if mism <= 3:
                ck.breaks.append("correspondence C09 codec model <-> RestartWriter on `%s`: impl=%s model=%s" % (l[:200], a[:200], m[:200]))
        tys = tokens_types(l)
        sigs.add(" ".join(tys))
        hexs = a.split()[1] if len(a.split()) > 1 else "-"
        dlines.append(("D %s %s" % (hexs, " ".join(tys)), l))
    # read back: (1) what the implementation wrote (property oracle: values identical), (2) model bytes with corruptions
    rng = ck.rng.fork("codec-d")
    extra = []
    for i in range(n // 2):
        k = 1 + rng.below(5)
        toks = [gen_token(rng, rng.choice(["s", "m", "s", "m", "i8", "b"]), wf=False) for _ in range(k)]
        extra.append("E " + " ".join(toks))
    # unsorted / duplicate-key maps and strings with NUL are first ENCODED BY THE MODEL (the harness' std::map would reorder them)
    rc_x, out_x = vf.run_lines([os.path.join(d, "model")], "\n".join(extra) + "\n")
    for l, x in zip(extra, out_x):
        hexs = x.split()[1] if len(x.split()) > 1 else "-"
        dlines.append(("D %s %s" % (hexs, " ".join(tokens_types(l))), None))
    dtext = "\n".join(x[0] for x in dlines) + "\n"
    rc_i2, out_i2 = vf.run_lines([os.path.join(d, "codec"), os.path.join(d, "codec.tmp")], dtext)
    rc_m2, out_m2 = vf.run_lines([os.path.join(d, "model")], dtext)
    if len(out_i2) != len(dlines) or len(out_m2) != len(dlines):
        ck.breaks.append("codec read-back: %d/%d lines for %d cases" % (len(out_i2), len(out_m2), len(dlines)))
        return ev, sigs
    bad_rt = 0
    for (dl, orig), a, m in zip(dlines, out_i2, out_m2):
        ev += 1
        if a != m:
            mism += 1
            if mism <= 3:
                ck.breaks.append("correspondence C09 codec model <-> RestartReader on `%s`: impl=%s model=%s" % (dl[:200], a[:200], m[:200]))
        if orig is not None and a.split()[1:] != orig.split()[1:]:
            bad_rt += 1
            if bad_rt <= 2:
                ck.violation("C09 fails on the real RestartWriter/RestartReader: values written are not the values read back: wrote `%s` read `%s`" % (orig[:300], a[:300]),
                             {"kind": "codec", "line": orig}, key={"kind": "codec_roundtrip"})
    cov["codec_cases"] = len(lines) + len(dlines)
    cov["codec_mismatches"] = mism
    return ev, sigs


def component_tie(ck, b, persisted_inv):
    """(ii) write -> read -> write on real classes ; D3 witnesses ; RescaledICHydroMask replay"""
    d = ck.scratch
    rng = ck.rng.fork("comp")
    seeds = [1, 2, 3] + [rng.below(1 << 30) for _ in range(5 if ck.quick else 60)]
    # D3 witnesses: (cells per axis, side) -- corpus first (the Coq witnesses), then random non-dyadic and dyadic ones
    W = [((9, 9, 9), (10., 10., 10.)), ((49, 3, 5), (1., 1., 1.)), ((8, 4, 2), (10., 10., 10.)), ((5, 7, 4), (20. / 3, 10., 20.))]
    for _ in range(12 if ck.quick else 200):
        n = tuple(1 + rng.below(40) for _ in range(3))
        s = tuple(rng.choice([1., 10., 20., 0.1, 3.0857e16, 1. + rng.uniform(), 10. ** (rng.uniform() * 20 - 5)]) for _ in range(3))
        W.append((n, s))
    lines = ["RT %d" % s for s in seeds] + ["S %d %d %d %016x %016x %016x" % (n + tuple(vf.dbl_bits(x) for x in s)) for n, s in W] + ["M 7", "M 0"]
    rc, out = vf.run_lines([os.path.join(d, "comp"), os.path.join(d, "comp")], "\n".join(lines) + "\n", timeout=900)
    if rc != 0:
        # the real classes crashed on one command (e.g. a restart constructor reading a misaligned stream): find it
        out = []
        for l in lines:
            rc1, o1 = vf.run_lines([os.path.join(d, "comp"), os.path.join(d, "comp")], l + "\n", timeout=300)
            out += o1
            if rc1 != 0:
                done = [x.split()[1] for x in o1 if x.startswith("RT ")]
                ck.violation("C09 fails on the real classes: write -> read -> write harness command `%s` ends with status %d after completing %s (a restart constructor does not read what its writer wrote)"
                             % (l, rc1, done[-3:]), {"kind": "component", "line": l}, key={"kind": "component_roundtrip", "class": "crash after " + (done[-1] if done else "start")})
                break
    ev = 0
    names = set()
    reported = set()
    nd3 = 0
    mline = [l for l in out if l.startswith("M ")]
    for l in out:
        if l.startswith("RT "):
            ev += 1
            f = dict(x.split("=", 1) for x in l.split()[2:])
            name = l.split()[1]
            names.add(name)
            if (f.get("rewrite") != "same" or f.get("state") != "same") and name not in reported:
                reported.add(name)
                ck.violation("C09 fails on the real class %s: write -> read -> write: bytes %s, restored state %s" % (name, f.get("rewrite"), f.get("state")),
                             {"kind": "component", "class": name, "line": l}, key={"kind": "component_roundtrip", "class": name})
    # S lines against the model
    slines = [l for l in out if l.startswith("S ")]
    flines = ["F %016x %016x" % (vf.dbl_bits(float(n[a])), vf.dbl_bits(s[a])) for n, s in W for a in range(3)]
    mism = 0
    first_d3 = None
    if b["model"] and len(slines) == len(W):
        rc_m, out_m = vf.run_lines([os.path.join(d, "model")], "\n".join(flines) + "\n")
        for i, ((n, s), l) in enumerate(zip(W, slines)):
            f = dict(x.split("=", 1) for x in l.split()[1:])
            cs, ic, ir = f["cs"].split(","), f["inv_ctor"].split(","), f["inv_restart"].split(",")
            for a in range(3):
                ev += 1
                m = out_m[3 * i + a].split()
                want_restored = m[2] if persisted_inv else m[3]
                if (cs[a], ic[a], ir[a]) != (m[1], m[2], want_restored):
                    mism += 1
                    if mism <= 3:
                        ck.breaks.append("correspondence C09 model <-> DensitySubGrid for n=%d side=%r: impl cell_size/inv/inv_restored=%s/%s/%s model=%s/%s/%s"
                                         % (n[a], s[a], cs[a], ic[a], ir[a], m[1], m[2], want_restored))
            if "_inv_cell_size" in f["state"]:
                nd3 += 1
                if first_d3 is None:
                    first_d3 = {"cells": n, "sides": s, "line": l}
            elif (f["state"] != "same" or f["rewrite"] != "same") and "HydroDensitySubGrid" not in reported:
                reported.add("HydroDensitySubGrid")
                ck.violation("C09 fails on the real class HydroDensitySubGrid (%s cells, sides %s): write -> read -> write: bytes %s, restored state %s" % (n, s, f["rewrite"], f["state"]),
                             {"kind": "subgrid", "cells": n, "sides": s}, key={"kind": "component_roundtrip", "class": "HydroDensitySubGrid"})
    elif len(slines) != len(W):
        ck.breaks.append("component harness answered %d of %d subgrid cases" % (len(slines), len(W)))
    ck.coverage["subgrid_cases"] = len(W)
    ck.coverage["subgrid_cases_restored_differently"] = nd3
    return ev, names, first_d3, mline


def trace_tie(ck, b, exe):
    """(iii) size sequence written by a dump == size sequence read by the restart (needs hooks/c09_reader_trace.patch)"""
    hdr = os.path.join(vf.REPO, "src", "RestartReader.hpp")
    if "RR_read" not in open(hdr).read():
        ck.notes.append("reader hook (hooks/c09_reader_trace.patch) is not applied to %s: the dynamic type-sequence comparison is skipped" % vf.REPO)
        ck.coverage["reader_trace"] = "skipped: hook not applied"
        return 0
    d = os.path.join(ck.scratch, "trace")
    shutil.rmtree(d, ignore_errors=True)
    os.makedirs(d)
    for f in os.listdir(CONFIGS):
        shutil.copy(os.path.join(CONFIGS, f), d)
    make_config(d, "trace.param", cells=(6, 10, 6), subgrids=(2, 2, 2), copy_level=1)
    tw, tr = os.path.join(d, "w.trace"), os.path.join(d, "r.trace")
    rc1, out1 = run_sim(exe, d, "trace.param", 1, env={"CMI_VERIF_CRASH_TRACE": tw})
    rc2, out2 = run_sim(exe, d, "trace.param", 2, restart=True, env={"CMI_VERIF_CRASH_TRACE": tr})
    if rc1 != 0 or rc2 != 0:
        ck.breaks.append("trace runs failed (exit %d / %d)" % (rc1, rc2))
        return 0
    w = [l.split()[1] for l in open(tw) if l.startswith("RW_before_write ")]
    r = [l.split()[1] for l in open(tr) if l.startswith("RR_read ")]
    ck.coverage["reader_trace"] = {"writes_in_dump_1": len(w), "reads_at_restart": len(r)}
    k = vf.first_diff(w, r)
    if k != -1:
        ck.violation("C09 fails on the real binary: the restarted run reads another size sequence than the dump wrote: token %d written with %s bytes, read with %s bytes (written %d tokens, read %d)"
                     % (k, w[k] if k < len(w) else None, r[k] if k < len(r) else None, len(w), len(r)),
                     {"kind": "trace", "config": "6x10x6 cells, 2x2x2 subgrids", "token": k}, key={"kind": "restart_reads_other_types"})
    shutil.rmtree(d, ignore_errors=True)
    return len(w)


def configs_for(tier_quick):
    C = [dict(name="hydro 18^3 cells in 2x2x2 subgrids (9 cells on 10 m), periodic, moving sphere, source copies", param="hydro.param", make=None),
         dict(name="hydro 15x14x4 cells in 3x2x1 subgrids (5x7x4 cells per subgrid), box 20^3, periodic in y only, copy level 1, RescaledIC hydro mask inside the moving sphere", param="geo3.param",
              make=dict(cells=(15, 14, 4), subgrids=(3, 2, 1), periodic=(False, True, False), copy_level=1, mask=True))]
    if not tier_quick:
        C.append(dict(name="hydro 15x14x8 cells in 3x2x2 subgrids (5x7x4 cells per subgrid), box 20x20x20, periodic, copy level 1", param="geo2.param",
                      make=dict(cells=(15, 14, 8), subgrids=(3, 2, 2), copy_level=1)))
        C.append(dict(name="hydro 18^3 cells in 2x2x2 subgrids, periodic, turbulence forcing on (AlveliusTurbulenceForcing dumped), no copies", param="turb.param",
                      make=dict(cells=(18, 18, 18), subgrids=(2, 2, 2), copy_level=0, turbulence=True)))
        C.append(dict(name="hydro 18^3 cells in 2x2x2 subgrids, periodic, turbulence forcing with a driving step every ~2.5 hydro steps (a driving step is due after some restarts and not after others)", param="turb2.param",
                      make=dict(cells=(18, 18, 18), subgrids=(2, 2, 2), copy_level=0, turbulence=True, forcing_step="0.00005")))
        C.append(dict(name="hydro 21x6x10 cells in 3x2x2 subgrids on a 7 x 2.2 x 3.1 m box, periodic", param="geo4.param",
                      make=dict(cells=(21, 6, 10), subgrids=(3, 2, 2), sides=(7., 2.2, 3.1), copy_level=0)))
    return C


def differential(ck, b, exe, inv, sizes, suspects):
    """(iv) uninterrupted vs stopped-and-restarted, every k"""
    N = 5 if ck.quick else 6
    base = os.path.join(ck.scratch, "runs")
    os.makedirs(base, exist_ok=True)
    ev = 0
    sigs = set()
    samples = []
    # search-on-break: when the inventory / codec / component ties already broke, look for the concrete diverging run in the
    # full configuration list (turbulence forcing, anisotropic box, ...) even in the quick tier
    searching = bool(suspects or ck.breaks or getattr(ck, "c09_inventory_report", None))
    for ci, cfg in enumerate(configs_for(ck.quick and not searching)):
        plans = [("A1", []), ("A2", [])] + [("k%d" % k, [k]) for k in range(1, N)]
        if not ck.quick:
            plans += [("c12", [1, 2]), ("c211", [2, 1, 1]), ("c31", [3, 1])]
        with ThreadPoolExecutor(max_workers=min(8, vf.NCPU)) as ex:
            futs = {tag: ex.submit(scenario, exe, base, "c%d_%s" % (ci, tag), cfg, N, ks) for tag, ks in plans}
            res = {tag: f.result() for tag, f in futs.items()}
        A, Aprev, rcs = res["A1"]
        if A is None or any(r != 0 for r in rcs):
            ck.breaks.append("uninterrupted run of `%s` failed (exit %s)" % (cfg["name"], rcs))
            continue
        timers, seed = parse_prefix(inv, sizes, A)
        if len(timers) != 4 or seed is None:
            ck.breaks.append("could not locate the four timers and random_seed in the dump through the regenerated inventory (found %d timers, seed %s)" % (len(timers), seed))
            continue
        mask = list(timers) + [seed]
        # determinism: two identical uninterrupted runs differ only inside the timers
        A2 = res["A2"][0]
        dd = outside(diff_ranges(A, A2 or b""), timers)
        ev += 1
        if dd:
            ck.violation("C09: two identical one-thread runs of `%s` give different dumps outside the timers (first offset %d)" % (cfg["name"], dd[0][0]),
                         {"kind": "differential", "config": cfg, "N": N, "k": None, "first_offset": dd[0][0]}, key={"kind": "nondeterministic"})
            continue
        failing = []
        for tag, ks in plans[2:]:
            B, Bprev, rcs = res[tag]
            ev += 1
            if B is None or any(r != 0 for r in rcs):
                failing.append((ks, "restarted run failed (exit %s)" % rcs, None, 0))
                continue
            if len(B) != len(A):
                failing.append((ks, "dump sizes differ (%d vs %d)" % (len(A), len(B)), min(len(A), len(B)), abs(len(A) - len(B))))
                continue
            dr = outside(diff_ranges(A, B), mask)
            nbytes = sum(e - s for s, e in dr)
            # the previous dump (step N-1) was also produced after the restart when the last stop is before N-1
            if not dr and Bprev is not None and Aprev is not None and sum(ks) < N - 1:
                dr2 = outside(diff_ranges(Aprev, Bprev), mask)
                if dr2:
                    dr, nbytes = dr2, sum(e - s for s, e in dr2)
            seed_differs = A[seed[0]:seed[1]] != B[seed[0]:seed[1]]
            sigs.add((ci, tuple(ks), bool(dr), seed_differs))
            if dr:
                failing.append((ks, "%d bytes differ outside the mask" % nbytes, dr[0][0], nbytes))
            if len(samples) < 3:
                samples.append({"config": cfg["name"], "N": N, "stops": ks, "dump_bytes": len(A), "masked": [list(m) for m in mask],
                                "seed_word_differs": seed_differs, "bytes_differing_outside_mask": nbytes})
        if failing:
            ks, why, off, nb = failing[0]
            member = suspects[0] if suspects else None
            key = {"kind": "restart_diverges"}
            if member:
                key["member"] = member
            ck.violation("C09 fails on the real binary: `%s`, %d steps: stopping after %s steps and restarting does not reproduce the uninterrupted run: %s (first differing offset %s); failing stop points: %s%s"
                         % (cfg["name"], N, ks, why, off, [f[0] for f in failing], ("; the inventory names " + ", ".join(suspects)) if suspects else ""),
                         {"kind": "differential", "config": cfg, "N": N, "k": ks, "first_offset": off, "failing": [[f[0], f[1]] for f in failing]}, key=key)
        ck.coverage.setdefault("differential", []).append({"config": cfg["name"], "N": N, "plans": [p[1] for p in plans[2:]], "failing": [[f[0], f[1]] for f in failing],
                                                           "mask": [list(m) for m in mask]})
    ev += natural_end(ck, exe, base, inv, sizes)
    return ev, sigs, samples


def natural_end(ck, exe, base, inv, sizes):
    """a run that reaches its end time, restarted from its last dump, must not take another step: the dump stays the same
    (outside the timers and the re-drawn seed) and so do the snapshot files"""
    d = os.path.join(base, "natural_end")
    shutil.rmtree(d, ignore_errors=True)
    os.makedirs(d)
    for f in os.listdir(CONFIGS):
        shutil.copy(os.path.join(CONFIGS, f), d)
    txt = open(os.path.join(CONFIGS, "hydro.param")).read().replace("total time: 0.02 s", "total time: 0.0001 s")
    open(os.path.join(d, "end.param"), "w").write(txt)
    rc1, out1 = run_sim(exe, d, "end.param", 100000)
    p = os.path.join(d, "restart.dump")
    if rc1 != 0 or not os.path.exists(p):
        ck.breaks.append("natural-end run failed (exit %d)" % rc1)
        shutil.rmtree(d, ignore_errors=True)
        return 0
    A = open(p, "rb").read()
    steps1 = len(re.findall(r"Starting hydro step \d+", out1))
    snaps1 = {f: os.path.getsize(os.path.join(d, f)) for f in sorted(os.listdir(d)) if f.endswith(".hdf5")}
    rc2, out2 = run_sim(exe, d, "end.param", 100000, restart=True)
    steps2 = len(re.findall(r"Starting hydro step \d+", out2))
    B = open(p, "rb").read() if os.path.exists(p) else b""
    timers, seed = parse_prefix(inv, sizes, A)
    mask = list(timers) + ([seed] if seed else [])
    dr = outside(diff_ranges(A, B), mask) if len(A) == len(B) else [(0, abs(len(A) - len(B)))]
    ck.coverage["natural_end"] = {"steps_before": steps1, "steps_after_restart": steps2, "dump_bytes": len(A), "bytes_differing_outside_mask": sum(e - s for s, e in dr)}
    if rc2 != 0 or steps2 > 0 or dr:
        ck.violation("C09 fails on the real binary: a hydro run that reached its end time after %d steps, restarted from its last dump, %s (exit %d; %d bytes of the dump differ outside the timers/seed)"
                     % (steps1, ("executes %d more step(s) beyond the end time" % steps2) if steps2 else "does not reproduce its final dump", rc2, sum(e - s for s, e in dr)),
                     {"kind": "natural_end", "steps_before": steps1, "steps_after": steps2}, key={"kind": "restart_after_last_step"})
    shutil.rmtree(d, ignore_errors=True)
    return 1


# ----------------------------------------------------------------------------------------------------------------
def run(ck):
    inv, meta, sizes = regenerate()
    for n in inv["notes"]:
        ck.breaks.append("extractor: " + n)
    for p in meta["problems"]:
        ck.breaks.append("table: " + p)
    if meta["unknown_types"]:
        ck.breaks.append("types the codec model does not know: %s" % meta["unknown_types"])
    ck.notes += meta["info"] + meta["sign_notes"]
    # regenerated obligations: one per class (symmetric + closed), do_simulation, one per factory, one per data member
    n_regen = meta["nclasses"] + 1 + meta["ndispatch"] + meta["nmembers"]
    ok_proof = ck.prove(extra_obligations=n_regen, extra_discharged=0)
    flags, rep, verdicts, rc, log = evaluate_inventory()
    if rc != 0 or flags is None:
        ck.breaks.append("could not evaluate the checker on the regenerated inventory:\n" + log[-1500:])
        rep = []
    else:
        ck.coverage["discharged"] += n_regen - len(rep)
    ck.log("inventory: %d classes, %d members, flags(symmetric, closed, members_ok)=%s, report=%s" % (meta["nclasses"], meta["nmembers"], flags, rep))
    vd = {(c, m): v for c, m, v in verdicts}
    persisted_inv = vd.get(("DensitySubGrid", "_inv_cell_size")) == "persisted"
    if persisted_inv != D3_FIXED:
        ck.notes.append("props/c09.py says D3_FIXED=%s but the inventory of %s shows _inv_cell_size %s" % (D3_FIXED, vf.REPO, vd.get(("DensitySubGrid", "_inv_cell_size"))))
    b = build_all(ck)
    exe = os.path.join(vf.REPOBUILD, "rundir", "CMacIonize")
    cov = ck.coverage
    ev = 0
    sig_codec, names = set(), set()
    if b["codec"] and b["model"]:
        e, sig_codec = codec_tie(ck, b)
        ev += e
    first_d3, mline = None, []
    if b["comp"]:
        e, names, first_d3, mline = component_tie(ck, b, persisted_inv)
        ev += e
    # --- inventory failures -> concrete inputs
    suspects = []
    handled = set()
    for item in rep:
        f = item.split()
        if f[0] == "member":
            cls, mem = f[1].split("::")
            if cls in ("DensitySubGrid", "HydroDensitySubGrid", "DensitySubGridCreator<HydroDensitySubGrid>", "HydroVariables", "IonizationVariables", "TimeLine",
                       "CoordinateVector<double>", "CoordinateVector<long>", "CoordinateVector<bool>", "Box<double>", "ParameterFile", "YAMLDictionary", "LiveOutputManager", "Timer"):
                suspects.append(mem)
        elif f[0] in ("asymmetric", "open", "dispatch"):
            if "RescaledICHydroMask" not in item:
                suspects.append(" ".join(f[1:]))
    # D3 at the unit level (real class, the Coq witness and others)
    if first_d3 is not None:
        handled.add("member DensitySubGrid::_inv_cell_size derived-by-a-different-expression")
        ck.violation("C09 fails on the real HydroDensitySubGrid: %s cells on sides %s: the restart constructor restores _inv_cell_size as 1/_cell_size, not as the constructor's n/side "
                     "(%d of %d subgrid shapes; Coq: C09_inv_cell_size_refuted): %s" % (first_d3["cells"], first_d3["sides"], cov.get("subgrid_cases_restored_differently", 0), cov.get("subgrid_cases", 0), first_d3["line"]),
                     {"kind": "subgrid", "cells": first_d3["cells"], "sides": first_d3["sides"]}, key={"kind": "restart_diverges", "member": "_inv_cell_size", "level": "unit"})
    # RescaledICHydroMask replay
    for l in mline:
        f = dict(x.split("=", 1) for x in l.split()[1:])
        if f["snap_n"] != f["restored_snap_n"] or f["rewrite"] != "same":
            handled.add("asymmetric RescaledICHydroMask")
            if f["snap_n"] != "0":
                ck.violation("C09 fails on the real RescaledICHydroMask: _snap_n is written as uint_fast32_t and read back with read<double>(): dumped %s, restored %s; rewrite %s"
                             % (f["snap_n"], f["restored_snap_n"], f["rewrite"]), {"kind": "mask", "snap_n": int(f["snap_n"])},
                             key={"kind": "component_roundtrip", "class": "RescaledICHydroMask", "member": "_snap_n"})
        if f["mask_velocity"] != f["restored_mask_velocity"]:
            handled.add("member RescaledICHydroMask::_mask_velocity neither-dumped-nor-listed")
            if f["snap_n"] != "0":
                ck.violation("C09 fails on the real RescaledICHydroMask: _mask_velocity (used by apply_mask) is neither dumped nor set by the restart constructor: dumped %s, restored object holds %s (memory pattern)"
                             % (f["mask_velocity"], f["restored_mask_velocity"]), {"kind": "mask", "snap_n": int(f["snap_n"])},
                             key={"kind": "component_roundtrip", "class": "RescaledICHydroMask", "member": "_mask_velocity"})
    tr = 0
    sig_diff, samples = set(), []
    if b["exe"]:
        tr = trace_tie(ck, b, exe)
        ev += tr
        ck.c09_inventory_report = [r for r in rep if r not in handled]
        e, sig_diff, samples = differential(ck, b, exe, inv, sizes, suspects)
        ev += e
    nviol_concrete = len([v for v in ck.violations if not v["no_input"]])
    for item in rep:
        if item in handled:
            continue
        if any(v["key"].get("kind") in ("restart_diverges", "component_roundtrip", "restart_reads_other_types") and not v["no_input"] for v in ck.violations) and \
           any((s in item) for s in suspects):
            continue      # shown by the differential / component replay above
        ck.breaks.append("restart inventory: " + item)
    cov["evaluations"] = ev
    cov["distinct_nontrivial"] = len(sig_codec) + len(names) + len(sig_diff) + meta["nclasses"]
    cov["rule"] = ("evaluations = codec lines compared bit for bit with the extracted model (write and read-back) + component write->read->write runs + subgrid shapes x 3 axes compared with the "
                   "binary64 model + tokens of the traced dump + whole-binary comparisons (one per stop plan and configuration); distinct_nontrivial = distinct type sequences of codec cases "
                   "+ distinct real classes round-tripped + distinct (configuration, stop plan, outcome) of the differential + regenerated classes checked by vm_compute; "
                   "measured: %d codec type sequences, %d classes, %d differential signatures, %d inventoried classes" % (len(sig_codec), len(names), len(sig_diff), meta["nclasses"]))
    cov["inventory"] = {"classes": meta["classes"], "members": meta["nmembers"], "table_rows": meta["table_rows"], "report": rep, "flags": flags,
                        "sizeof": {k: v[1] for k, v in sizes.items()}, "verdict_histogram": {v: sum(1 for x in verdicts if x[2] == v) for v in sorted(set(x[2] for x in verdicts))}}
    cov["samples"] = samples or [{"note": "no differential sample collected"}]
    ck.assumptions += [
        "the oracle (loop trip counts, optional components present, dynamic classes) is the same at dump and at restart: tied dynamically by the reader-hook trace, not proved",
        "transient members of harness/c09/derived_transient.json are reset where the table says (audited by hand)",
        "clang AST of the sources as compiled with -DCMI_VERIF; tools/restart_inventory.py turns stream uses it does not understand into KUnknown (rejected)",
        "strings in the dump contain no NUL (parameter keys/values, typeid names); std::map iterates in key order",
        "one thread; wall-clock timers and the re-seeded random_seed are excluded from the comparison (located through the regenerated inventory)",
        "extraction through ExtrOcamlBasic/ExtrOCamlFloats; OCaml driver trusted for the correspondence only",
    ]
    ck.resolve_breaks_without_input()


def replay(ck, rp):
    if rp.get("replay", {}).get("kind") == "natural_end":
        inv, meta, sizes = regenerate()
        okb, logb = vf.repo_ninja(["CMacIonize"])
        base = os.path.join(ck.scratch, "runs")
        os.makedirs(base, exist_ok=True)
        natural_end(ck, os.path.join(vf.REPOBUILD, "rundir", "CMacIonize"), base, inv, sizes)
        bad = [v for v in ck.violations if v["key"].get("kind") == "restart_after_last_step"]
        print("REPLAY:", bad[0]["what"] if bad else "property holds on this input")
        return 1 if bad else 0
    r = rp["replay"]
    d = ck.scratch
    kind = r.get("kind")
    if kind in ("subgrid", "mask", "component"):
        ok, log = vf.cxx_build(os.path.join(HARN, "component_harness.cpp"), os.path.join(d, "comp"), openmp=True, extra=MPI)
        if kind == "subgrid":
            line = "S %d %d %d %016x %016x %016x" % (tuple(r["cells"]) + tuple(vf.dbl_bits(x) for x in r["sides"]))
        elif kind == "mask":
            line = "M %d" % r["snap_n"]
        else:
            line = r["line"] if r.get("line", "").split()[:1] and r["line"].split()[0] in ("RT", "S", "M") and len(r["line"].split()) <= 7 else "RT 1\nRT 2\nRT 3"
        rc, out = vf.run_lines([os.path.join(d, "comp"), os.path.join(d, "comp")], line + "\n")
        print("\n".join(out))
        if rc != 0:
            print("REPLAY: harness ends with status %d" % rc)
            return 1
        bad = [l for l in out if "DIFF" in l or (l.startswith("M ") and (l.split()[1].split("=")[1] != l.split()[2].split("=")[1] or l.split()[3].split("=")[1] != l.split()[4].split("=")[1]))]
        print("REPLAY:", ("restored state differs from the dumped state: " + bad[0]) if bad else "property holds on this input")
        return 1 if bad else 0
    if kind == "codec":
        ok, log = vf.cxx_build(os.path.join(HARN, "codec_harness.cpp"), os.path.join(d, "codec"), openmp=False)
        rc, out = vf.run_lines([os.path.join(d, "codec"), os.path.join(d, "codec.tmp")], r["line"] + "\n")
        rc, out2 = vf.run_lines([os.path.join(d, "codec"), os.path.join(d, "codec.tmp")], "D %s %s\n" % (out[0].split()[1] if len(out[0].split()) > 1 else "-", " ".join(tokens_types(r["line"]))))
        bad = out2[0].split()[1:] != r["line"].split()[1:]
        print(out2[0])
        print("REPLAY:", "values read back differ" if bad else "property holds on this input")
        return 1 if bad else 0
    inv, meta, sizes = regenerate()
    okb, logb = vf.repo_ninja(["CMacIonize"])
    exe = os.path.join(vf.REPOBUILD, "rundir", "CMacIonize")
    if kind == "trace":
        n0 = len(ck.violations)
        trace_tie(ck, {}, exe)
        bad = len(ck.violations) > n0
        print("REPLAY:", ck.violations[-1]["what"] if bad else "property holds on this input")
        return 1 if bad else 0
    cfg, N, ks = r["config"], r["N"], r.get("k") or []
    base = os.path.join(d, "runs")
    os.makedirs(base, exist_ok=True)
    A, Ap, rc1 = scenario(exe, base, "A", cfg, N, [])
    B, Bp, rc2 = scenario(exe, base, "B", cfg, N, ks)
    timers, seed = parse_prefix(inv, sizes, A or b"")
    mask = list(timers) + ([seed] if seed else [])
    if A is None or B is None or any(rc1) or any(rc2):
        print("REPLAY: runs failed (exit %s / %s)" % (rc1, rc2))
        return 1
    dr = outside(diff_ranges(A, B), mask) if len(A) == len(B) else [(min(len(A), len(B)), max(len(A), len(B)))]
    print("uninterrupted %d steps vs stops %s: %d differing ranges outside the mask %s; first %s" % (N, ks, len(dr), mask, dr[:3]))
    print("REPLAY:", "restarted run diverges at offset %d" % dr[0][0] if dr else "property holds on this input")
    return 1 if dr else 0
