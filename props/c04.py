# C04  hydro step: conservation + physical states.  Proof (Coq) + three ties to the code, every run:
#   (1) the face lists the REAL sweeps of HydroDensitySubGrid.hpp visit (logging stand-in Hydro) == the Z-model's lists, and the
#       real lists pass the proved-sound checker faces_once_check;
#   (2) the binary64 instance of the per-face flux exchange / conserved update / primitive update == the real Hydro and
#       HydroDensitySubGrid methods bit for bit on random cell pairs (limiter and clamps firing, near vacuum);
#   (3) end-to-end oracle: real subgrids + real sweeps driven sequentially on several layouts: totals, positivity, finiteness.
import os, math, json
import vf

LEVEL = "proof"
CLAIM = dict(cat="proof", design="§3 C04, §8 D8/O1",
   text="Coq theorems. (Z, all subgrid counts, all cells-per-subgrid, all 8 periodicity combinations) C04_faces_once: the faces visited by all internal sweeps, "
        "all positive-direction pair sweeps (incl. the periodic wrap pair) and all boundary sweeps are exactly the face set of the global cell grid, each face once "
        "(C04_canonical_faces_* say what that set is; C04_gid_bijective: (subgrid, cell index) -> global cell is a bijection). (Reals, ANY Riemann function, any limiter value) "
        "C04_face_update_antisymmetric: the two cells of a face receive opposite changes in all five components; C04_flux_phase_keeps_delta_totals + C04_periodic_step_conserves: "
        "periodic box, no source terms, no positivity clamp firing => total mass, momentum (3) and energy unchanged by flux phase + update_conserved_variables on EVERY layout; "
        "C04_reflective_wall_is_mirror (via C04_limit_odd) + C04_reflective_step_conserves_mass_energy: with reflecting walls mass and energy are conserved for every Riemann function "
        "that exchanges no mass/energy between mirror states, and C04_hllc_wall_mirror discharges that hypothesis for C05's HLLC model below wall Mach 1.5; "
        "C04_nonnegative_after_update: mass, energy, density, pressure >= 0 after the update (reals). "
        "Tie, every run: (1) the UNCHANGED text of HydroDensitySubGrid.hpp compiled against a logging stand-in Hydro reports every (axis, left cell, right cell, dx, A) of its "
        "gradient and flux sweeps on random layouts (1..5 cells per axis and subgrid, 1..3 subgrids per axis, all periodicity flags, real create_subgrid wiring); these lists equal the "
        "extracted model's lists and pass the extracted checker faces_once_check (soundness proved: C04_faces_once_check_sound); (2) the binary64 instance of the SAME definitions "
        "(Riemann parameter := C05's HLLC model) equals the real Hydro::do_flux_calculation / do_ghost_flux_calculation (3 boundary kinds) / "
        "HydroDensitySubGrid::update_conserved_variables / Hydro::set_primitive_variables bit for bit on random cell pairs; (3) oracle on the real code: per-pair exact antisymmetry, "
        "and real subgrids with the real sweeps driven in phase order on 6 layouts x 4 initial states (smooth, discontinuous, near-vacuum, random) x anisotropic cells: totals drift, "
        "min mass/energy, finiteness, bit-identical repetition. Task-table tie (shared with C07, theorem C07_phases_ordered): on every run the REAL hydro task tables of several layouts are dumped and every pair of tasks in consecutive phases that touch a common subgrid must be connected by a dependency path; otherwise a legal order of the REAL task objects that starts the later task first is executed and reported as the failing history. Near-vacuum prediction pass: Hydro::predict_primitive_variables on cells with subnormal density and vanishing gradients must stay finite (1/rho overflows).",
   note="Step runs include two periodic groups with the velocity limiter on (Hydro:maximum velocity below the speeds of many cells). Trusted: Coq kernel + standard real-number axioms (sig_forall_dec, sig_not_dec, functional_extensionality_dep, classic); Coq.Floats specification axioms for the binary64 clamp lemma; "
        "extraction (ExtrOcamlBasic/ExtrOCamlFloats) + OCaml driver for the correspondences; glibc pow. C05 ties the HLLC model to the real solver. "
        "PARTIAL: (a) C04_nonnegative_after_update_binary64_partial: on binary64 what leaves the clamps is >= 0 unless it is NaN; finiteness for all float inputs is NOT claimed "
        "(overflow is possible by construction, std::max(NaN,0.) is NaN: C04_clamp_passes_nan) -- finiteness is evidence from the end-to-end runs only; "
        "(b) conservation is proved for flux phase + conserved update given zeroed accumulators; that the accumulators are zero and that each phase sees the fields the previous phase "
        "wrote is the phase structure of C10/C07; round-off ('up to floating-point round-off') is measured (<= 1e-12 of sum|.|), not bounded by proof; "
        "(c) the reflecting-wall hypothesis is discharged for HLLC only between Mach -2/(gamma-1) (vacuum opening) and 1.5 at the wall, on the limited face state. "
        "A single subgrid on a periodic axis is its own neighbour: the pair sweep then runs inside one subgrid (modelled, tied, covered by the layouts tested; the scheduling defect D2 there is C07's). "
        "Oddities of Hydro.hpp that are part of the model: the right-cell momentum limiter tests the LEFT cell's momentum (line 514) and the boundary version has dt instead of dt^2 (line 679); "
        "they change the common factor only and cannot break conservation (the theorems hold for any factor). Behavioural finding reported to the coordinator: with line 514 as it is, a supersonic "
        "left cell next to a right cell at rest gets fluxfac = 0 (gamma=5/3, rho=P=1, vL=(3,0,0), vR=0: all five fluxes 0; the mirror image transports mass 3): the scheme is conservative but not mirror symmetric. "
        "Mutants (scratch worktree): fluxfac on one side only and += on both cells -> concrete failing cell pair and drifting totals; fluxfac on the mass flux only and wrong stride/start in the y pair flux sweep "
        "-> correspondence/face-list break, reported without failing input (both keep the totals: the property is insensitive to them, C10 catches the sweep mutants with layouts that disagree).",
   technique="Coq: index arithmetic (lia/nia) for the face bijection, induction over face lists, real-number algebra; bit-exact binary64 correspondence; logging stand-in class through the include guard")

MPI = ["-Wl,--no-as-needed", "-lmpi_cxx", "-lmpi"]
HARN = os.path.join(vf.VERIF, "harness/c04")


def hx(x):
    return "%016x" % vf.dbl_bits(x)


def bd(s):
    return vf.bits_dbl(int(s, 16))


def isnan_bits(s):
    b = int(s, 16)
    return (b & 0x7ff0000000000000) == 0x7ff0000000000000 and (b & 0xfffffffffffff) != 0


def canon(xs):
    return ["nan" if isnan_bits(x) else x for x in xs]


# ---------------------------------------------------------------------------------------------------------------
def build(ck, d, want=("model", "faces", "cells", "step")):
    ok = {}
    if "model" in want:
        ok1, log1 = vf.coq_extract("C04", d)
        ok2, log2 = (False, "") if not ok1 else vf.ocaml_build(d, ["c04_model"], os.path.join(vf.VERIF, "ocaml/c04_driver.ml"), "model", floats=True)
        ok["model"] = ok1 and ok2
        if not ok["model"]:
            ck.breaks.append("model extraction/build failed:\n" + (log1 + log2)[-2000:])
    if "faces" in want:
        ok["faces"], log = vf.cxx_build(os.path.join(HARN, "faces_harness.cpp"), os.path.join(d, "faces"), openmp=True, extra=MPI)
        if not ok["faces"]:
            ck.breaks.append("faces harness (stand-in Hydro + unchanged HydroDensitySubGrid.hpp) does not compile:\n" + log[-2500:])
    if "cells" in want:
        ok["cells"], log = vf.cxx_build(os.path.join(HARN, "cellops_harness.cpp"), os.path.join(d, "cellops"), openmp=False,
                                        extra=["-fno-builtin", "-ffp-contract=off"] + MPI)
        if not ok["cells"]:
            ck.breaks.append("cell-operations harness does not compile against /repo/src/Hydro.hpp:\n" + log[-2500:])
    if "step" in want:
        ok["step"], log = vf.cxx_build(os.path.join(HARN, "step_harness.cpp"), os.path.join(d, "step"), openmp=True, extra=MPI)
        if not ok["step"]:
            ck.breaks.append("step harness does not compile:\n" + log[-2500:])
    return ok


# ---------------------------------------------------------------------------------------------------------------
# (1) face lists
LAYOUT_CORPUS = [
    (3, 2, 2, 1, 1, 1, 0, 0, 0), (3, 2, 2, 1, 1, 1, 1, 1, 1), (1, 1, 1, 1, 1, 1, 1, 1, 1), (1, 1, 1, 1, 1, 1, 0, 0, 0),
    (1, 1, 1, 3, 3, 3, 1, 0, 1), (2, 3, 1, 2, 1, 3, 1, 0, 1), (1, 2, 3, 3, 2, 2, 0, 1, 0), (2, 2, 2, 2, 2, 2, 1, 1, 1),
    (5, 4, 3, 3, 2, 1, 0, 0, 1), (2, 5, 3, 1, 2, 3, 1, 1, 0), (4, 1, 5, 2, 3, 1, 0, 1, 1), (3, 3, 3, 2, 2, 2, 0, 0, 0),
]


def gen_layouts(rng, n):
    ls = list(LAYOUT_CORPUS)
    while len(ls) < n:
        ls.append((1 + rng.below(5), 1 + rng.below(5), 1 + rng.below(5), 1 + rng.below(3), 1 + rng.below(3), 1 + rng.below(3),
                   rng.below(2), rng.below(2), rng.below(2)))
    return ls[:n]


def split_blocks(lines):
    blocks, cur = [], []
    for l in lines:
        if l.strip() == "END":
            blocks.append(cur)
            cur = []
        else:
            cur.append(l)
    return blocks


def faces_run(d, layouts):
    txt = "".join("L %d %d %d %d %d %d %d %d %d\n" % l for l in layouts)
    rc_i, out_i = vf.run_lines([os.path.join(d, "faces")], txt, timeout=900)
    rc_m, out_m = vf.run_lines([os.path.join(d, "model"), "faces"], txt, timeout=900)
    return rc_i, split_blocks(out_i), rc_m, split_blocks(out_m)


def faces_check(d, layouts, blocks, kinds):
    """faces_once_check (extracted, soundness proved) on the visits the REAL sweeps reported. kinds: 'PQ' flux, 'pq' gradient"""
    txt = ""
    for l, b in zip(layouts, blocks):
        vis = [" ".join(x.split()[:-3]) for x in b if x and x[0] in kinds]
        txt += "K %d %d %d %d %d %d %d %d %d ; " % l + " ; ".join(vis) + "\n"
    rc, out = vf.run_lines([os.path.join(d, "model"), "faces"], txt, timeout=900)
    return [o.strip() == "CHECK true" for o in out] if len(out) == len(layouts) else None


def faces_tie(ck, d, layouts):
    """returns (stats, suspicious layouts)"""
    rc_i, bi, rc_m, bm = faces_run(d, layouts)
    stats = {"layouts": len(layouts), "visits_compared": 0, "geometry_codes_bad": 0}
    bad = []
    if rc_i != 0 or len(bi) != len(layouts):
        ck.breaks.append("faces harness failed (rc=%d, %d of %d layouts)" % (rc_i, len(bi), len(layouts)))
        return stats, list(layouts[:len(bi) + 1][-1:])
    if len(bm) != len(layouts):
        ck.breaks.append("model driver (faces) produced %d blocks for %d layouts" % (len(bm), len(layouts)))
        return stats, []
    nm = 0
    for l, a, b in zip(layouts, bi, bm):
        stats["visits_compared"] += len(a)
        stats["geometry_codes_bad"] += sum(1 for x in a if "BADLIM" in x or (x[0] in "PQpq" and "9" in x.split()[-3:]))
        if a != b:
            nm += 1
            bad.append(l)
            if nm <= 3:
                k = vf.first_diff(a, b)
                ck.breaks.append("face lists: real sweeps of HydroDensitySubGrid.hpp differ from the model for layout %s (cells/subgrid, subgrids, periodic): line %d real=%r model=%r (%d real, %d model visits)"
                                 % (l, k, a[k] if k < len(a) else None, b[k] if k < len(b) else None, len(a), len(b)))
    for kinds, name in (("PQ", "flux"), ("pq", "gradient")):
        res = faces_check(d, layouts, bi, kinds)
        if res is None:
            ck.breaks.append("faces_once_check driver failed on the real %s visits" % name)
        else:
            stats["faces_once_check_%s_true" % name] = sum(res)
            for l, r in zip(layouts, res):
                if not r:
                    if l not in bad:
                        bad.append(l)
                    if len([b for b in ck.breaks if "faces_once_check" in b]) < 3:
                        ck.breaks.append("faces_once_check = false on the %s visits reported by the real sweeps for layout %s: they are NOT the face set of the global grid" % (name, l))
    stats["layout_mismatches"] = nm
    return stats, bad


# ---------------------------------------------------------------------------------------------------------------
# (2) cell operations
NF = 46


def gen_cell(rng, gamma, vol, dxs, mode, zero_delta):
    dec = lambda lo, hi: 10.0 ** (lo + (hi - lo) * rng.uniform())
    sym = lambda: 2 * rng.uniform() - 1
    rho, P = dec(-2, 2), dec(-2, 2)
    if mode == "vac":
        rho = rng.choice([0.0, 1e-300, dec(-30, -10), rho, 5e-324, 1e-310, 3e-309])     # incl. subnormal densities: 1/rho overflows
        P = rng.choice([0.0, dec(-30, -10), P])
    a = math.sqrt(gamma * P / rho) if rho > 0 else 1.0
    if not math.isfinite(a):
        a = 1.0
    M = rng.choice([0.0, 0.3, 1.0, 3.0, 10.0])
    v = [M * a * sym() for _ in range(3)]
    prim = [rho] + v + [P]
    mass = rho * vol
    mom = [mass * x for x in v]
    E = P * vol / (gamma - 1) + 0.5 * sum(m * x for m, x in zip(mom, v)) if gamma > 1 else 0.0
    cons = [mass] + mom + [E]
    if mode == "incons":
        cons = [c * dec(-1, 1) for c in cons]
    gs = rng.choice([0.0, 0.1, 1.0, 5.0])
    grad = []
    for j in range(5):
        sc = abs(prim[j]) + (a if 1 <= j <= 3 else 0)
        grad += [gs * sc / dxs[k] * sym() for k in range(3)]
    delta = [0.0] * 5 if zero_delta else [c * sym() for c in cons]
    grav = [0.0] * 3 if rng.below(2) else [sym() for _ in range(3)]
    eterm = 0.0 if rng.below(2) else E * sym() * 0.1
    lim = []
    for j in range(5):
        lim += [prim[j] - abs(prim[j]) * rng.uniform(), prim[j] + abs(prim[j]) * rng.uniform()]
    return prim + cons + delta + grad + grav + [eterm] + lim + [dec(1, 5), rng.uniform()]


def gen_line(rng, n):
    gamma = rng.choice([5 / 3, 1.4, 2.0, 1.001, 1.0 + rng.uniform(), 1.0])
    if gamma == 1.0 and n % 5 != 3:
        gamma = 5 / 3
    maxv = rng.choice([1e99, 1e99, 1e99, 1.0, 0.1])
    dec = lambda lo, hi: 10.0 ** (lo + (hi - lo) * rng.uniform())
    dxs = [dec(-1, 1) for _ in range(3)]
    vol = dxs[0] * dxs[1] * dxs[2]
    mode = rng.choice(["gen", "gen", "vac", "incons"])
    zero = rng.below(10) < 7
    cells = [gen_cell(rng, gamma, vol, dxs, mode, zero) for _ in range(2)]
    if rng.below(8) == 0:       # mirror pair / identical pair
        cells[1] = list(cells[0])
    i = rng.below(3)
    A = vol / dxs[i]
    g = max(gamma, 1.00000001)
    a = max(math.sqrt(g * c[4] / c[0]) if c[0] > 0 else 0 for c in cells) + max(abs(c[1 + i]) for c in cells) + 1e-300
    if not math.isfinite(a):
        a = 1.0
    dt = dxs[i] / a * rng.choice([0.2, 0.2, 1.0, 5.0, 50.0, 1e-3])
    k = n % 5
    F = "F %d 0 1 %s %s %s" % (i, hx(dxs[i]), hx(A), hx(dt))
    if k == 0:
        ops = [F]
    elif k == 1:
        ops = ["B %d %d 0 %s %s %s" % (rng.below(3), i, hx(dxs[i] * rng.choice([1, -1])), hx(A), hx(dt))]
    elif k == 2:
        ops = ["U 0 %s" % hx(dt)]
    elif k == 3:
        ops = ["R 0 %s" % hx(1 / vol)]
    else:
        ops = [F, "B 2 %d 1 %s %s %s" % (i, hx(dxs[i]), hx(A), hx(dt)), "U 0 %s" % hx(dt), "U 1 %s" % hx(dt), "R 0 %s" % hx(1 / vol), "R 1 %s" % hx(1 / vol)]
    head = "2 %s %s" % (hx(gamma), hx(maxv))
    return dict(mode=mode, k=k, zero=zero, gamma=gamma, i=i, A=A, dt=dt, cells=cells,
                line=head + " ; " + " ; ".join(" ".join(hx(x) for x in c) for c in cells) + " ; " + " ; ".join(ops))


def pair_oracle(c, out):
    """C04 clauses on the REAL operations' outputs for one generated line; returns why-string or None"""
    o = out.split()
    if len(o) != 2 * NF:
        return "harness returned %d fields" % len(o)
    cells_in = c["cells"]
    if not all(math.isfinite(x) for cc in cells_in for x in cc):
        return None
    res = [[bd(x) for x in o[k * NF:(k + 1) * NF]] for k in range(2)]
    if c["k"] == 0:
        dL, dR = res[0][10:15], res[1][10:15]
        iL, iR = cells_in[0][10:15], cells_in[1][10:15]
        for j in range(5):
            if dL[j] != dL[j] and dR[j] != dR[j]:
                continue
            chL, chR = dL[j] - iL[j], dR[j] - iR[j]
            if c["zero"]:
                if not (dL[j] == -dR[j]):
                    return "do_flux_calculation on zeroed accumulators: component %d of the left cell changes by %r, of the right cell by %r (not opposite)" % (j, dL[j], dR[j])
            else:
                sc = abs(iL[j]) + abs(iR[j]) + abs(dL[j]) + abs(dR[j])
                if math.isfinite(sc) and abs(chL + chR) > 1e-9 * sc:
                    return "do_flux_calculation: component %d changes by %r (left) and %r (right): not opposite" % (j, chL, chR)
        for k in range(2):      # nothing but the accumulators is written
            for f in list(range(0, 10)) + list(range(15, NF)):
                if vf.dbl_bits(res[k][f]) != vf.dbl_bits(cells_in[k][f]):
                    return "do_flux_calculation wrote field %d of cell %d" % (f, k)
    if c["k"] == 2:
        m, e = res[0][5], res[0][9]
        if (m == m and m < 0) or (e == e and e < 0):
            return "after update_conserved_variables mass=%r energy=%r" % (m, e)
    if c["k"] == 3:
        rho, P = res[0][0], res[0][4]
        if (rho == rho and rho < 0) or (P == P and P < 0):
            return "after set_primitive_variables density=%r pressure=%r" % (rho, P)
    if c["k"] == 1 and c["line"].split(";")[3].split()[1] == "2" and c["mode"] == "gen" and c["gamma"] > 1.0001:
        cc = cells_in[0]
        rho, P = cc[0], cc[4]
        cs = math.sqrt(c["gamma"] * P / rho)
        vn = abs(cc[1 + c["i"]])
        if vn < 0.7 * cs and all(math.isfinite(x) for x in res[0]):
            dm, dE = res[0][10] - cc[10], res[0][14] - cc[14]
            sm = c["A"] * rho * cs + abs(cc[10]) + 1e-300
            vmax = max(cs, math.sqrt(sum(x * x for x in cc[1:4])))
            se = c["A"] * (rho * vmax ** 3 + P * vmax) + abs(cc[14]) + 1e-300
            if abs(dm) > 1e-9 * sm:
                return "reflecting wall at Mach %.2f takes mass: delta=%r (scale %r)" % (vn / cs, dm, sm)
            if abs(dE) > 1e-9 * se:
                return "reflecting wall at Mach %.2f takes energy: delta=%r (scale %r)" % (vn / cs, dE, se)
    return None


def cells_tie(ck, d, n, okm):
    cases = [gen_line(ck.rng, k) for k in range(n)]
    txt = "\n".join(c["line"] for c in cases) + "\n"
    rc_i, out_i = vf.run_lines([os.path.join(d, "cellops")], txt, timeout=900)
    stats = {"lines": n, "mismatches": 0, "tags": {}, "oracle_fail": 0}
    sig = set()
    if rc_i != 0 or len(out_i) != n:
        ck.breaks.append("cell-operations harness failed (rc=%d, %d of %d lines)" % (rc_i, len(out_i), n))
        return stats, sig
    if okm:
        rc_m, out_m = vf.run_lines([os.path.join(d, "model"), "cells"], txt, timeout=900)
        if len(out_m) != n:
            ck.breaks.append("model driver (cells) produced %d lines for %d cases" % (len(out_m), n))
        else:
            for c, oi, om in zip(cases, out_i, out_m):
                fm, _, tg = om.partition("#")
                a, b = canon(oi.split()), canon(fm.split())
                for t in tg.split():
                    stats["tags"][t] = stats["tags"].get(t, 0) + 1
                if a != b:
                    stats["mismatches"] += 1
                    if stats["mismatches"] <= 4:
                        df = [(k, a[k], b[k]) for k in range(min(len(a), len(b))) if a[k] != b[k]][:6]
                        ck.breaks.append("correspondence C04 model <-> real Hydro/HydroDensitySubGrid, ops %r (mode %s): fields (index, real, model) %s\n input: %s"
                                         % (c["line"].split(";")[3:], c["mode"], df, c["line"]))
                elif any(t in ("Fff<1", "UclampM", "UclampE", "Rvlim", "B0ff<1", "B1ff<1", "B2ff<1", "Fff=1", "B2ff=1", "B1ff=1", "B0ff=1") for t in tg.split()):
                    sig.add((tg.strip(), c["mode"], a[10][:5], a[5][:5]))
    bad = 0
    for c, oi in zip(cases, out_i):
        why = pair_oracle(c, oi)
        if why:
            bad += 1
            if bad <= 3:
                ck.violation("C04 fails on the real Hydro for one cell pair: " + why, {"kind": "pair", "case": c, "impl_out": oi},
                             key={"kind": "pair", "op": c["k"]})
    stats["oracle_fail"] = bad
    return stats, sig


def predict_finite(ck, d):
    """'states stay physical ... including near vacuum': the half-step prediction of the primitive variables (real
    Hydro::predict_primitive_variables through the cell-operations harness) of a cell with an extremely small (also subnormal)
    density and vanishing gradients must leave the cell finite: 1/rho overflows there and inf * 0 is NaN"""
    rng = ck.rng
    cases = []
    for k in range(60):
        gamma = [5 / 3, 1.4, 2.0, 1.001][k % 4]
        dxs = [10.0 ** (2 * rng.uniform() - 1) for _ in range(3)]
        vol = dxs[0] * dxs[1] * dxs[2]
        c = gen_cell(rng, gamma, vol, dxs, "vac", True)
        c[0] = [5e-324, 1e-310, 3e-309, 5.5e-309, 1e-300, 0.0][k % 6]
        c[5] = c[0] * vol
        for j in range(15, 30):
            c[j] = 0.0
        cells = [c, list(c)]
        dt = 10.0 ** (-3 + 4 * rng.uniform())
        cases.append((k, "2 %s %s ; " % (hx(gamma), hx(1e99)) + " ; ".join(" ".join(hx(x) for x in cc) for cc in cells) + " ; P 0 %s" % hx(dt), c[0]))
    rc, out = vf.run_lines([os.path.join(d, "cellops")], "\n".join(l for _, l, _ in cases) + "\n", timeout=300)
    if rc != 0 or len(out) != len(cases):
        ck.breaks.append("cell-operations harness failed on the near-vacuum prediction cases (rc=%d, %d of %d lines)" % (rc, len(out), len(cases)))
        return 0
    for (k, line, rho), o in zip(cases, out):
        f = o.split()
        vals = [bd(x) for x in f[:5]]
        if not all(math.isfinite(v) for v in vals):
            ck.violation("C04 fails on the real Hydro::predict_primitive_variables: a cell of density %r with vanishing gradients has the primitive variables %r after the half-step prediction "
                         "(non-finite values then reach the fluxes of all its faces)" % (rho, vals), {"kind": "pair", "case": {"line": line}, "impl_out": o}, key={"kind": "predict_near_vacuum"})
            break
    return len(cases)


# ---------------------------------------------------------------------------------------------------------------
# (3) end-to-end
LAYOUTS_844 = [(1, 1, 1), (2, 1, 1), (2, 2, 1), (4, 2, 2), (8, 4, 4), (1, 4, 2)]


def step_line(cfg):
    return "%d %d %d %d %d %d %d %d %d %d %s %d %s %d %d %s %s %s %s %d %d %s\n" % (
        cfg["N"][0], cfg["N"][1], cfg["N"][2], cfg["lay"][0], cfg["lay"][1], cfg["lay"][2], cfg["per"][0], cfg["per"][1], cfg["per"][2],
        cfg["bk"], hx(cfg["gamma"]), cfg["nsteps"], hx(cfg["cfl"]), cfg["init"], cfg["seed"], hx(cfg["mach"]),
        hx(cfg["h"][0]), hx(cfg["h"][1]), hx(cfg["h"][2]), cfg.get("dump", 0), cfg.get("order", 0), hx(cfg.get("maxv", 1e99)))


def step_run(d, cfgs):
    rc, out = vf.run_lines([os.path.join(d, "step")], "".join(step_line(c) for c in cfgs), timeout=1200)
    blocks = split_blocks(out)
    res = []
    for b in blocks:
        T = [l.split() for l in b if l.startswith("T ")]
        X = [l.split()[1] for l in b if l.startswith("X ")]
        D = [l.split()[2:] for l in b if l.startswith("D ")]
        res.append(dict(T=T, X=X[0] if X else None, D=D, text=b))
    return rc, res


def conservation_oracle(cfg, r, tol=1e-12):
    """C04 on the totals reported by the real code for one run; returns (why or None, info)"""
    T = r["T"]
    if not T or len(T) != cfg["nsteps"] + 1:
        return "run did not complete (%d of %d steps reported)" % (len(T) - 1, cfg["nsteps"]), {}
    tot0 = [bd(x) for x in T[0][3:8]]
    ab0 = [bd(x) for x in T[0][8:13]]
    pscale = max(max(ab0[1:4]), math.sqrt(ab0[0] * ab0[4]) if ab0[0] >= 0 and ab0[4] >= 0 else 0.0, 1e-300)
    scale = [max(ab0[0], 1e-300), pscale, pscale, pscale, max(ab0[4], 1e-300)]
    info = {"drift": [0.0] * 5, "clamps": 0, "wallmach": 0.0}
    periodic = all(cfg["per"])
    clamped = False
    for t in T:
        nonfinite, negative = int(t[15]), int(t[16])
        wm = bd(t[17])
        info["wallmach"] = max(info["wallmach"], wm)
        info["clamps"] += int(t[18])
        clamped = clamped or int(t[18]) > 0
        if nonfinite:
            return "step %s: %d non-finite cell values" % (t[1], nonfinite), info
        if negative:
            return "step %s: %d cells with negative mass, energy, density or pressure (min mass %r, min energy %r)" % (t[1], negative, bd(t[13]), bd(t[14])), info
        if clamped:
            continue        # the statement excludes steps in which the positivity safeguard intervened
        tot = [bd(x) for x in t[3:8]]
        for k in range(5):
            dr = abs(tot[k] - tot0[k]) / scale[k]
            check = periodic or (cfg["bk"] == 2 and k in (0, 4) and info["wallmach"] < 1.2)
            if check:
                info["drift"][k] = max(info["drift"][k], dr)
                if dr > tol:
                    what = ["mass", "x-momentum", "y-momentum", "z-momentum", "energy"][k]
                    return ("total %s changes from %r to %r after step %s (relative to sum|.| = %r: %.3g) in a %s box, layout %s, no clamp fired, wall Mach <= %.2f"
                            % (what, tot0[k], tot[k], t[1], scale[k], dr, "periodic" if periodic else "reflecting", cfg["lay"], info["wallmach"])), info
    return None, info


def gen_step_groups(rng, quick):
    """groups of runs sharing one global state; every group = list of cfg (different layouts)"""
    groups = []
    hs = [(0.125, 0.25, 0.2), (1.0, 1.0, 1.0), (0.3, 0.1, 0.7)]
    base = []
    for init in (0, 1, 2, 3):
        for per, bk in (((1, 1, 1), 2), ((0, 0, 0), 2), ((1, 0, 1), 2)):
            base.append(dict(N=(8, 4, 4), per=per, bk=bk, init=init, gamma=rng.choice([5 / 3, 1.4, 2.0, 1.1]), nsteps=3, cfl=rng.choice([0.1, 0.2, 0.3]),
                             seed=rng.below(1 << 30), mach=rng.choice([0.3, 0.5, 1.0] if all(per) else [0.2, 0.4]), h=rng.choice(hs)))
    # velocity limiter on (Hydro:maximum velocity below the speeds of many cells): the cap acts on the primitive variables only, what the
    # cells hold is still exchanged pairwise
    for init in (1, 3):
        m = rng.choice([0.5, 1.0])
        base.append(dict(N=(8, 4, 4), per=(1, 1, 1), bk=2, init=init, gamma=rng.choice([5 / 3, 1.4]), nsteps=3, cfl=0.2, seed=rng.below(1 << 30), mach=m, h=rng.choice(hs), maxv=0.5 * m))
    # other global sizes / layouts incl. one-cell-wide subgrids and a single cell per axis
    extra = [((6, 6, 2), [(1, 1, 1), (3, 2, 1), (6, 3, 2), (2, 6, 1)]), ((4, 3, 5), [(1, 1, 1), (2, 3, 1), (4, 1, 5)]), ((2, 1, 1), [(1, 1, 1), (2, 1, 1)]),
             ((9, 3, 3), [(1, 1, 1), (3, 3, 1), (9, 1, 3)])]
    for N, lays in extra[:2 if quick else 4]:
        for per in ((1, 1, 1), (0, 1, 0)):
            base.append(dict(N=N, lays=lays, per=per, bk=2, init=rng.choice([0, 1, 2, 3]), gamma=rng.choice([5 / 3, 1.4]), nsteps=2 if quick else 4,
                             cfl=0.2, seed=rng.below(1 << 30), mach=0.4, h=rng.choice(hs)))
    if not quick:
        for k in range(40):
            per = (rng.below(2), rng.below(2), rng.below(2))
            base.append(dict(N=(8, 4, 4), per=per, bk=2, init=rng.below(4), gamma=1.0 + 10 ** (-2 + 2 * rng.uniform()), nsteps=5, cfl=rng.choice([0.05, 0.2, 0.4]),
                             seed=rng.below(1 << 30), mach=rng.choice([0.1, 0.5, 1.0, 2.0] if all(per) else [0.1, 0.4]), h=rng.choice(hs)))
    for b in base:
        lays = b.pop("lays", LAYOUTS_844)
        groups.append([dict(b, lay=l, dump=1) for l in lays])
    return groups


def step_evidence(ck, d, groups, compare_layouts=False, tol=1e-12):
    """runs all groups on the real code; C04 oracle per run (+ repetition); optional C10 oracle across layouts"""
    flat = [c for g in groups for c in g]
    rc, res = step_run(d, flat)
    stats = {"runs": len(flat), "groups": len(groups), "max_drift": [0.0] * 5, "runs_with_clamp": 0, "max_layout_diff": 0.0, "repeat_identical": 0,
             "cells_steps": sum(c["N"][0] * c["N"][1] * c["N"][2] * c["nsteps"] for c in flat)}
    if rc != 0 or len(res) != len(flat):
        ck.breaks.append("step harness failed (rc=%d, %d of %d runs)" % (rc, len(res), len(flat)))
        if len(res) < len(flat):
            c = flat[len(res)]
            ck.violation("the real sweeps crash or do not finish for this configuration", {"kind": "step", "cfg": c}, key={"kind": "step", "what": "crash"})
        return stats
    nviol = 0
    for c, r in zip(flat, res):
        why, info = conservation_oracle(c, r, tol)
        for k in range(5):
            stats["max_drift"][k] = max(stats["max_drift"][k], info.get("drift", [0] * 5)[k])
        stats["runs_with_clamp"] += 1 if info.get("clamps") else 0
        if why:
            nviol += 1
            if nviol <= 3:
                ck.violation("C04 fails on the real code: " + why, {"kind": "step", "cfg": c, "T": r["T"]}, key={"kind": "step", "periodic": all(c["per"])})
    # repetition: same input twice -> identical text
    rep = [g[min(3, len(g) - 1)] for g in groups[:8]]
    rc2, res2 = step_run(d, rep)
    for c, r2 in zip(rep, res2):
        r1 = res[flat.index(c)]
        if r1["text"] == r2["text"]:
            stats["repeat_identical"] += 1
        else:
            ck.violation("two sequential executions of the same step give different cell states", {"kind": "step", "cfg": c}, key={"kind": "step", "what": "repeat"})
    if compare_layouts:
        k0 = 0
        nl = 0
        for g in groups:
            rs = res[k0:k0 + len(g)]
            k0 += len(g)
            if not rs[0]["D"]:
                continue
            ref = [[bd(x) for x in row] for row in rs[0]["D"]]
            fmax = [max(abs(row[k]) for row in ref) or 1e-300 for k in range(10)]
            for c, r in zip(g[1:], rs[1:]):
                worst = (0.0, None)
                for ci, (ra, rb) in enumerate(zip(ref, r["D"])):
                    for k in range(10):
                        y = bd(rb[k])
                        x = ra[k]
                        if x == y or (x != x and y != y):
                            continue
                        dd = abs(x - y) / fmax[k]
                        if not dd <= worst[0]:
                            worst = (dd if dd == dd else float("inf"), (ci, k, x, y))
                stats["max_layout_diff"] = max(stats["max_layout_diff"], worst[0])
                if worst[0] > tol and nl < 3:
                    nl += 1
                    ci, k, x, y = worst[1]
                    ck.violation("C10 fails on the real code: after %d steps cell %d field %d is %r on layout %s and %r on layout %s (difference %.3g of the field's scale)"
                                 % (c["nsteps"], ci, k, x, g[0]["lay"], y, c["lay"], worst[0]),
                                 {"kind": "layouts", "cfg_a": g[0], "cfg_b": c}, key={"kind": "layouts"})
    return stats


# ---------------------------------------------------------------------------------------------------------------
def _deps(ck):
    import hydro_deps
    fs = hydro_deps.phase_order_findings(ck)
    for f in (fs or [])[:2]:
        ck.violation('C04: the hydro task table of the real code does not order the phases: %s of subgrid %d can start before %s (which touches the same subgrid) has run - layout %s, legal order %s on the REAL task objects: the conserved update / flux exchange of that subgrid is applied on stale or partial accumulators, so totals are not conserved' % (f["t2"], f["subgrid"], f["t1"], tuple(f["layout"]), f["order"]),
                     {"hydro_task_table": f}, key={"kind": "task_table_phase_order"})


def run(ck):
    ck.prove()
    _deps(ck)
    d = ck.scratch
    ok = build(ck, d)
    cov = ck.coverage
    sig = set()
    # (1)
    if ok.get("faces") and ok.get("model"):
        layouts = gen_layouts(ck.rng, 40 if ck.quick else 400)
        st, bad = faces_tie(ck, d, layouts)
        cov["faces"] = st
        for l in layouts:
            sig.add(("layout",) + tuple(l))
        if bad and ok.get("step"):
            # search for a failing input of the PROPERTY on the suspicious layouts: run the real sweeps end to end there
            groups = []
            for l in bad[:6]:
                N = (l[0] * l[3], l[1] * l[4], l[2] * l[5])
                for init in (0, 3):
                    groups.append([dict(N=N, lay=l[3:6], per=l[6:9], bk=2, init=init, gamma=5 / 3, nsteps=3, cfl=0.2, seed=11, mach=0.4, h=(0.25, 0.5, 0.125), dump=1)])
            cov["faces_break_search"] = step_evidence(ck, d, groups)
    # (2)
    if ok.get("cells"):
        st, s2 = cells_tie(ck, d, 4000 if ck.quick else 60000, ok.get("model"))
        cov["near_vacuum_prediction_cases"] = predict_finite(ck, d)
        cov["cells"] = st
        sig |= s2
    # (3)
    if ok.get("step"):
        groups = gen_step_groups(ck.rng, ck.quick)
        cov["steps"] = step_evidence(ck, d, groups)
    cov["evaluations"] = cov.get("faces", {}).get("visits_compared", 0) + cov.get("cells", {}).get("lines", 0) + cov.get("steps", {}).get("runs", 0)
    cov["distinct_nontrivial"] = len(sig)
    cov["rule"] = ("inputs from SplitMix64(VERIF_SEED). Face lists: 12 hand-picked layouts (single cell, one-cell-wide subgrids, single subgrid on a periodic axis, 3x3x3 subgrids) then random "
                   "(1..5 cells per axis and subgrid, 1..3 subgrids per axis, 3 periodicity flags); every logged visit of the gradient and flux sweeps and of the three cell-wise phases is compared "
                   "as text with the model, geometry arguments (dx, 1/dx, A, limiter slots, ghost position) are checked against the subgrid, and the real lists are fed to faces_once_check. "
                   "Cell operations: 5 op patterns (pair flux; boundary flux inflow/outflow/reflective on either side; conserved update; primitive update; the six in sequence) x 4 modes "
                   "(consistent, consistent+near-vacuum, inconsistent conserved/primitive, identical pair) x 6 adiabatic indices (incl. 1.0 for the primitive update) x time steps from 1e-3 to 50 "
                   "crossing times x 5 Mach numbers x 4 gradient strengths x velocity cap on/off; all 46 fields of both cells compared bit for bit (NaNs canonicalised). distinct_nontrivial = "
                   "layouts + distinct (branch tags, mode, leading bits of results) among matching lines. End to end: see coverage.steps.")
    ck.assumptions += [
        "theorems are about the real-number instance of the definitions in coq/Cxx/C04_FluxDefs.v and about the Z-model coq/Cxx/C04_Defs.v; the binary64 instance of the SAME definitions and the extracted "
        "Z-model are what is compared with the compiled code",
        "the Riemann solver is a parameter of the model; the binary64 instance uses C05's HLLC model (tied to the real solver by C05)",
        "subgrid neighbour relations are taken from the real DensitySubGridCreator::create_subgrid (C03 proves them); the sweeps are called per subgrid as make_hydro_tasks/execute_task do (C07 proves the task graph)",
        "no gravity, no external energy term, no radiation in the conservation statements (the property text: 'without source terms')",
        "orientation = 1 - 2 signbit(dx) is modelled as dx < 0 (differs only for dx = -0.0 or NaN, never passed by a sweep)",
    ]
    ck.resolve_breaks_without_input()


def replay(ck, rp):
    if "hydro_task_table" in rp.get("replay", {}):
        import hydro_deps
        f = rp["replay"]["hydro_task_table"]
        fs = hydro_deps.phase_order_findings(ck, [tuple(f["layout"])])
        print("REPLAY:", ("the real task table still lets %s start before %s: %r" % (fs[0]["t2"], fs[0]["t1"], fs[0]["observed"])) if fs else "property holds on this input")
        return 1 if fs else 0
    d = ck.scratch
    r = rp["replay"]
    kind = r.get("kind")
    if kind == "pair":
        build(ck, d, want=("cells",))
        rc, out = vf.run_lines([os.path.join(d, "cellops")], r["case"]["line"] + "\n")
        why = pair_oracle(r["case"], out[0]) if out else "harness failed"
        print(out[0] if out else "")
        print("REPLAY:", why or "property holds on this input")
        return 1 if why else 0
    if kind in ("step", "layouts"):
        build(ck, d, want=("step",))
        if kind == "step":
            rc, res = step_run(d, [r["cfg"]])
            why = conservation_oracle(r["cfg"], res[0])[0] if res else "run crashed"
            print("\n".join(" ".join(t) for t in (res[0]["T"] if res else [])))
            print("REPLAY:", why or "property holds on this input")
            return 1 if why else 0
        st = step_evidence(ck, d, [[r["cfg_a"], r["cfg_b"]]], compare_layouts=True)
        print("REPLAY: max layout difference %.3g" % st["max_layout_diff"])
        return 1 if ck.violations else 0
    print("REPLAY: nothing to replay (broken proof / correspondence without a failing input): %s" % json.dumps(r)[:2000])
    return 1
