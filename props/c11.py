# C11  exact Riemann solver: proof (Coq, reals) of the wave relations / Brent bracket logic for a literal model
# + bit-exact correspondence of the binary64 instance of the same definitions with ExactRiemannSolver::solve
# + independent high-precision reference solver (decimal, 40 digits) as property oracle on the real code's outputs
import os, math, json
from decimal import Decimal, getcontext, localcontext
import vf

LEVEL = "proof"
CLAIM = dict(cat="proof", design="§3 C11",
   text="Coq theorems over the real-number instance of a literal model (coq/Cxx/C11_Defs.v) of ExactRiemannSolver: constants, pressure function f and f', guess_P, "
        "the Newton loop, solve_brent, the shock/rarefaction/vacuum samplers and solve(), for ALL densities/pressures > 0, all velocities, every adiabatic index > 1 and every sampling speed: "
        "behind a shock the sampled state satisfies mass, momentum AND energy Rankine-Hugoniot conditions across the shock speed the code computes (given u* = u_K -/+ f_K(P*)), "
        "shocks are supersonic and compressive; across a rarefaction the sampled state at every speed keeps the entropy P/rho^g and the Riemann invariant u +/- 2a/(g-1), "
        "x/t = u -/+ a inside the fan, head/tail one-sided expressions coincide (no jump except at shocks and the contact); vacuum samplers are the same fan expressions, start at the "
        "undisturbed state, end with base 0 and gas speed = front speed, and the rarefaction tail tends to the vacuum front as P* -> 0; f' > 0, f strictly increasing, root unique; "
        "Brent's loop (arbitrary f, arbitrary pow) keeps f(a)f(b) <= 0, stays in the initial bracket and exits with f(b)=0 or |a-b| <= 5e-9(a+b) unless the 1e4 bound is hit, hence a root of a continuous f within that distance; "
        "u* is off each one-sided value by half the residual; solve() dispatches to these samplers. Tie: the binary64 instance of the SAME definitions is compared bit for bit with the compiled solve() (flag, rho, u, P at sampling speeds "
        "within 1 ulp / 1e-9 / 1e-5 of every wave speed) and with the private helpers guess_P, f, fprime, solve_brent on every run; an independent 40-digit reference solver checks the real outputs. "
        "FINDING exhibited by the oracle: sampled exactly at (or one ulp inside) a vacuum front the solver returned NaN density/pressure (fan base rounds negative, std::pow(neg, non-integer)); "
        "fix = std::max(0., base) at the six fan sites (hooks/c11_exact_vacuum_front_nan.patch); the model carries both variants (clamp) and all theorems hold for both. Gas next to vacuum (one side empty, moving gas) is checked against the textbook fan solution on random states.",
   note="Every quick run also solves 63 problems directly after the same problem seen from another frame (bit-identical densities, pressures and velocity difference): results must not depend on the call history. Trusted: Coq kernel + standard real-number axioms (as reported); extraction with ExtrOCamlFloats and glibc pow on both sides for the correspondence. "
        "PARTIAL: accuracy of P* is proved only for the Brent path (C11_star_state_accuracy_partial); when the Newton loop stops on its step test the residual bound needs concavity of f (not proved) - "
        "covered by the reference-solver oracle only (observed max deviation 3e-10 relative). Continuity is stated as coincidence of the one-sided expressions at fan head/tail, not as an epsilon-delta statement. "
        "Real instance uses Rpower (Rpower 0 y = 1): statements at a vanishing base are about the base; the loop-logic theorems hold for any pow, and the pressure function with the C value pow(0,y)=0 is characterised at P=0 (C11_pressure_function_at_zero). "
        "The Newton loop has no iteration bound in the source: the model reports out-of-fuel (never observed). Oddities (not violations): when the root underflows (velocity difference within ~1e-6 of the vacuum limit, or gamma near 1) "
        "Brent runs into its 1e4 iteration bound (about 1% of generated states, ~2e4 pow calls); when the two-rarefaction guess is exact up to round-off with f(guess) > 0, Brent runs ~29 iterations from the bracket [0, guess].",
   technique="Coq proof over reals of a literal solver model + bit-exact binary64 correspondence + decimal reference solver")

GFLOOR = 1.00000001
D = Decimal


def hx(x):
    return "%016x" % vf.dbl_bits(x)


def unhx(s):
    return vf.bits_dbl(int(s, 16))


def nan_canon(x):
    b = int(x, 16)
    return "nan" if (b & 0x7ff0000000000000) == 0x7ff0000000000000 and (b & 0xfffffffffffff) else x


# ----------------------------------------------------------------------------------------------
# generators
GAMMAS = [1.001, 1.4, 5.0 / 3.0, 2.0]
TORO = [  # Toro's five tests
    ((1.0, 0.0, 1.0), (0.125, 0.0, 0.1)),
    ((1.0, -2.0, 0.4), (1.0, 2.0, 0.4)),
    ((1.0, 0.0, 1000.0), (1.0, 0.0, 0.01)),
    ((1.0, 0.0, 0.01), (1.0, 0.0, 100.0)),
    ((5.99924, 19.5975, 460.894), (5.99242, -6.19633, 46.0950)),
]


def corpus_states():
    out = []
    for g in (1.4, 5.0 / 3.0, 2.0, 1.001):
        for L, R in TORO:
            out.append(dict(tag="toro", gamma=g, L=L, R=R))
    # identical states, states at rest, mirror collision, mirror recession just below / at / above the vacuum limit
    out.append(dict(tag="identical", gamma=5.0 / 3.0, L=(1.0, 0.3, 1.0), R=(1.0, 0.3, 1.0)))
    out.append(dict(tag="collision", gamma=1.4, L=(1.0, 3.0, 1.0), R=(1.0, -3.0, 1.0)))
    for f in (0.9, 0.99, 1.0, 1.01, 2.0):
        g = 5.0 / 3.0
        a = math.sqrt(g)
        dv = f * 2.0 / (g - 1.0) * (a + a)
        out.append(dict(tag="vaclimit", gamma=g, L=(1.0, -0.5 * dv, 1.0), R=(1.0, 0.5 * dv, 1.0)))
    # witness of the NaN at the vacuum front (sampling speed = uR - 2aR/(g-1)): rho = P = NaN before the fan bases were guarded
    out.append(dict(tag="vaclimit", gamma=1.2, L=(0.6016483701552287, -0.623607716562567, 0.03380363602518363),
                    R=(77.5084690450635, 2.127718092142287, 0.010501529313424778)))
    # KNOWN FINDING (not repaired): the exact star pressure (~1e-2002 P) underflows binary64 while (P*/P)^((g-1)/2g) = 0.1:
    # the solver's contact is at 27452.6 instead of 24532.3 and vacuum is returned where the exact solution has the right state
    out.append(dict(tag="vaclimit", gamma=1.001, L=(0.0051877609021462445, -25001.275173824313, 3.924627112786608),
                    R=(0.8971357534950009, 25046.114988171797, 0.0730579557164159)))
    # vacuum input (correspondence of the vacuum branch only)
    out.append(dict(tag="vacR", gamma=1.4, L=(1.0, 0.2, 1.0), R=(0.0, 0.0, 0.0)))
    out.append(dict(tag="vacL", gamma=1.4, L=(0.0, 0.0, 0.0), R=(1.0, -0.2, 1.0)))
    return out


def gen_state(rng, i):
    r = rng.below(6)
    gamma = GAMMAS[r] if r < 4 else 1.0 + (1.0 - rng.uniform())     # (1,2]
    g = max(gamma, GFLOOR)
    dec = lambda lo, hi: 10.0 ** (lo + (hi - lo) * rng.uniform())
    rhoL, PL, rhoR, PR = dec(-3, 3), dec(-3, 3), dec(-3, 3), dec(-3, 3)
    mode = i % 10
    tag = "generic"
    if mode == 3:       # large pressure ratio (shock tube)
        PL = PR * 10.0 ** (6 * rng.uniform())
        if rng.below(2):
            PL, PR = PR, PL
        tag = "tube"
    elif mode == 4:     # nearly equal states (PVRS guess branch)
        rhoR = rhoL * (1 + 0.3 * (rng.uniform() - 0.5))
        PR = PL * (1 + 0.6 * (rng.uniform() - 0.5))
        tag = "near"
    elif mode == 7:     # extreme density and pressure contrasts in opposite directions
        rhoL, rhoR = dec(2, 3), dec(-3, -2)
        PL, PR = dec(-3, -2), dec(2, 3)
        tag = "contrast"
    aL = math.sqrt(g * PL / rhoL)
    aR = math.sqrt(g * PR / rhoR)
    vc = (2 * rng.uniform() - 1) * (aL + aR) * rng.choice([0.0, 1.0, 1.0, 5.0, 30.0])
    if mode in (0, 3, 4, 7):
        dv = (2 * rng.uniform() - 1) * (aL + aR) * (0.2 if mode == 4 else 1.0)
    elif mode == 1:     # strong compression: two shocks
        dv = -(aL + aR) * rng.choice([1.0, 3.0, 10.0, 30.0, 100.0]) * (0.5 + rng.uniform())
        tag = "compress"
    elif mode == 2 or mode == 8:     # around the vacuum generation limit
        f = rng.choice([0.9, 0.99, 0.999999, 1.0, 1.000001, 1.01, 2.0])
        dv = f * (2.0 / (g - 1.0) * aL + 2.0 / (g - 1.0) * aR)
        tag = "vaclimit"
        if mode == 8:
            dv = math.nextafter(2.0 / (g - 1.0) * aL + 2.0 / (g - 1.0) * aR, rng.choice([-math.inf, math.inf])) if rng.below(2) else dv
    elif mode == 5:     # two rarefactions, not close to vacuum
        dv = (aL + aR) * rng.uniform() * min(2.0 / (g - 1.0), 4.0) * 0.8
        tag = "recede"
    elif mode == 6:     # states at rest / same velocity
        dv = 0.0
        tag = "rest"
    else:               # mode 9: velocity difference tiny compared with the sound speed
        dv = (aL + aR) * 10.0 ** (-12 * rng.uniform()) * (1 if rng.below(2) else -1)
        tag = "tinydv"
    uL, uR = vc - 0.5 * dv, vc + 0.5 * dv
    return dict(tag=tag, gamma=gamma, L=(rhoL, uL, PL), R=(rhoR, uR, PR))


def state_words(c):
    (rl, ul, pl), (rr, ur, pr) = c["L"], c["R"]
    return " ".join(hx(x) for x in (c["gamma"], rl, ul, pl, rr, ur, pr))


def scale_of(c):
    g = max(c["gamma"], GFLOOR)
    (rl, ul, pl), (rr, ur, pr) = c["L"], c["R"]
    aL = math.sqrt(g * pl / rl) if rl > 0 and pl > 0 else 0.0
    aR = math.sqrt(g * pr / rr) if rr > 0 and pr > 0 else 0.0
    return aL, aR


def sampling_speeds(c, speeds):
    """speeds: the model's own wave speeds; returns the list of dxdt values to sample"""
    aL, aR = scale_of(c)
    sc = aL + aR
    ws = sorted(set(w for w in speeds if math.isfinite(w)))
    xs = [0.0]
    for w in ws:
        xs += [w, math.nextafter(w, -math.inf), math.nextafter(w, math.inf)]
        for rel in (1e-9, 1e-5):
            d = rel * max(abs(w), sc * 1e-3)
            xs += [w - d, w + d]
    if ws:
        xs += [ws[0] - 0.5 * sc - 1e-300, ws[-1] + 0.5 * sc + 1e-300]
        for a, b in zip(ws, ws[1:]):
            xs.append(0.5 * (a + b))
            xs.append(a + 0.1 * (b - a))
    out, seen = [], set()
    for x in xs:
        if x == x and x not in seen and math.isfinite(x):
            seen.add(x)
            out.append(x)
    return out


# ----------------------------------------------------------------------------------------------
# independent reference solver (textbook formulae; pressure root by bisection in 40-digit decimal)
def ref_star(c):
    """returns None for vacuum generation, else a dict with the star state of the exact solution: ps (float, may
    underflow to 0), us, fp = f'(ps), fscale, and the powers (ps/P_K)^((g-1)/2g), (ps/P_K)^(1/g) evaluated in
    40-digit decimal (they are NOT small when ps underflows and gamma is close to 1)"""
    with localcontext() as ctx:
        ctx.prec = 40
        ctx.Emin = -999999999
        ctx.Emax = 999999999
        g = D(max(c["gamma"], GFLOOR))
        (rl, ul, pl), (rr, ur, pr) = [tuple(D(x) for x in s) for s in (c["L"], c["R"])]
        aL = (g * pl / rl).sqrt()
        aR = (g * pr / rr).sqrt()
        du = ur - ul
        if 2 * (aL + aR) / (g - 1) <= du:
            return None
        e = (g - 1) / (2 * g)

        def fK(p, P, rho, a):
            if p > P:
                A = 2 / ((g + 1) * rho)
                B = (g - 1) / (g + 1) * P
                return (p - P) * (A / (p + B)).sqrt()
            return 2 * a / (g - 1) * ((p / P) ** e - 1)

        f = lambda p: fK(p, pl, rl, aL) + fK(p, pr, rr, aR) + du
        hi = max(pl, pr)
        while f(hi) < 0:
            hi = hi * 2
        lo = min(pl, pr)
        while f(lo) >= 0:                 # f(0+) < 0: terminates; the root may be far below the binary64 range
            lo = lo * lo if lo < D("1e-6") else lo / 1000000
        # bisection, geometric while the bracket spans more than a factor 2
        for _ in range(400):
            mid = (lo * hi).sqrt() if hi > 2 * lo else (lo + hi) / 2
            if mid <= lo or mid >= hi:
                break
            if f(mid) < 0:
                lo = mid
            else:
                hi = mid
            if hi - lo <= hi * D("1e-30"):
                break
        ps = (lo + hi) / 2
        fl, fr = fK(ps, pl, rl, aL), fK(ps, pr, rr, aR)
        us = (ul + ur) / 2 + (fr - fl) / 2
        h = ps * D("1e-12")
        fp = (f(ps + h) - f(ps - h)) / (2 * h)
        fscale = abs(fl) + abs(fr) + abs(du) + 2 * (aL + aR) / (g - 1)
        cond = D("4e-16") * fscale / (ps * fp)     # round-off of f in binary64 propagated to the root, relative
        return dict(ps=float(ps), us=float(us), cond=float(min(cond, D("1e300"))),
                    xL=float((ps / pl) ** e), xR=float((ps / pr) ** e), dL=float((ps / pl) ** (1 / g)), dR=float((ps / pr) ** (1 / g)))


def ref_sample(c, ref, xi):
    """exact solution sampled at xi (floats, Toro's sampling procedure); also returns the region name"""
    g = max(c["gamma"], GFLOOR)
    (rl, ul, pl), (rr, ur, pr) = c["L"], c["R"]
    ps, us = ref["ps"], ref["us"]
    aL = math.sqrt(g * pl / rl)
    aR = math.sqrt(g * pr / rr)
    gm, gp = g - 1.0, g + 1.0
    if xi <= us:
        if ps > pl:
            S = ul - aL * math.sqrt(gp / (2 * g) * ps / pl + gm / (2 * g))
            if xi <= S:
                return (rl, ul, pl), "L"
            return (rl * (ps / pl + gm / gp) / (gm / gp * ps / pl + 1), us, ps), "Lstar"
        if xi <= ul - aL:
            return (rl, ul, pl), "L"
        if xi >= us - aL * ref["xL"]:
            return (rl * ref["dL"], us, ps), "Lstar"
        cc = max(2 / gp + gm / (gp * aL) * (ul - xi), 0.0)
        return (rl * cc ** (2 / gm), 2 / gp * (aL + gm / 2 * ul + xi), pl * cc ** (2 * g / gm)), "Lfan"
    if ps > pr:
        S = ur + aR * math.sqrt(gp / (2 * g) * ps / pr + gm / (2 * g))
        if xi >= S:
            return (rr, ur, pr), "R"
        return (rr * (ps / pr + gm / gp) / (gm / gp * ps / pr + 1), us, ps), "Rstar"
    if xi >= ur + aR:
        return (rr, ur, pr), "R"
    if xi <= us + aR * ref["xR"]:
        return (rr * ref["dR"], us, ps), "Rstar"
    cc = max(2 / gp - gm / (gp * aR) * (ur - xi), 0.0)
    return (rr * cc ** (2 / gm), 2 / gp * (-aR + gm / 2 * ur + xi), pr * cc ** (2 * g / gm)), "Rfan"


def ref_sample_vacgen(c, xi):
    g = max(c["gamma"], GFLOOR)
    (rl, ul, pl), (rr, ur, pr) = c["L"], c["R"]
    aL = math.sqrt(g * pl / rl)
    aR = math.sqrt(g * pr / rr)
    gm, gp = g - 1.0, g + 1.0
    SL = ul + 2 * aL / gm
    SR = ur - 2 * aR / gm
    if xi <= ul - aL:
        return (rl, ul, pl), "L"
    if xi < SL:
        cc = max(2 / gp + gm / (gp * aL) * (ul - xi), 0.0)
        return (rl * cc ** (2 / gm), 2 / gp * (aL + gm / 2 * ul + xi), pl * cc ** (2 * g / gm)), "Lfan"
    if xi <= SR:
        return (0.0, 0.0, 0.0), "vacuum"
    if xi < ur + aR:
        cc = max(2 / gp - gm / (gp * aR) * (ur - xi), 0.0)
        return (rr * cc ** (2 / gm), 2 / gp * (-aR + gm / 2 * ur + xi), pr * cc ** (2 * g / gm)), "Rfan"
    return (rr, ur, pr), "R"


def ref_speeds(c, ref):
    g = max(c["gamma"], GFLOOR)
    (rl, ul, pl), (rr, ur, pr) = c["L"], c["R"]
    ps, us = ref["ps"], ref["us"]
    aL = math.sqrt(g * pl / rl)
    aR = math.sqrt(g * pr / rr)
    gm, gp = g - 1.0, g + 1.0
    jumps, kinks = [us], []
    if ps > pl:
        jumps.append(ul - aL * math.sqrt(gp / (2 * g) * ps / pl + gm / (2 * g)))
    else:
        kinks += [ul - aL, us - aL * ref["xL"]]
    if ps > pr:
        jumps.append(ur + aR * math.sqrt(gp / (2 * g) * ps / pr + gm / (2 * g)))
    else:
        kinks += [ur + aR, us + aR * ref["xR"]]
    return jumps, kinks


REL_P = 1e-7       # the accuracy the check asks of the star pressure (the solver states 1e-8)
TOL = 2e-6         # agreement of sampled states with the reference, relative to the scales of the problem


def oracle_state(c, ref, samples):
    """c: state, ref: ref_star(c), samples: list of (xi, flag, rho, u, P) from the REAL solver.
    Returns None or a description of the first property clause that fails."""
    g = max(c["gamma"], GFLOOR)
    (rl, ul, pl), (rr, ur, pr) = c["L"], c["R"]
    aL = math.sqrt(g * pl / rl)
    aR = math.sqrt(g * pr / rr)
    sv = aL + aR
    s_rho, s_P = max(rl, rr), max(pl, pr)
    if ref is None:
        # vacuum generation: fans join the vacuum continuously
        for (xi, flag, r, u, p) in samples:
            (r0, u0, p0), reg = ref_sample_vacgen(c, xi)
            if not all(math.isfinite(v) for v in (r, u, p)) or r < 0 or p < 0:
                return "vacuum generation: sampled state not finite / negative at dxdt=%r: %r" % (xi, (r, u, p))
            # slope allowance: the fan varies over the sound speed; we sample within 1e-5 of the kinks
            amp = TOL * (1 + abs(xi) / sv)
            if abs(r - r0) > amp * s_rho or abs(p - p0) > amp * s_P or (reg != "vacuum" and r0 > 1e-6 * s_rho and abs(u - u0) > amp * (sv * (1 + 2 / (g - 1)) + abs(ul) + abs(ur))):
                return "vacuum generation: sampled state at dxdt=%r (%s) is %r, the exact solution has %r" % (xi, reg, (r, u, p), (r0, u0, p0))
        return None
    ps, us, cond = ref["ps"], ref["us"], ref["cond"]
    jumps, kinks = ref_speeds(c, ref)
    near_jump = lambda xi: any(abs(xi - w) <= 1e-6 * max(abs(w), 1e-3 * sv) for w in jumps)
    near_kink = lambda xi: any(abs(xi - w) <= 1e-6 * max(abs(w), 1e-3 * sv) for w in kinks)
    su = sv * (1 + 2 / (g - 1)) + abs(ul) + abs(ur)
    # star pressure / velocity as returned: taken from the samples in the star region
    if cond < 1e-3:
        for (xi, flag, r, u, p) in samples:
            if ref_sample(c, ref, xi)[1] in ("Lstar", "Rstar") and not near_jump(xi) and not near_kink(xi):
                if abs(p - ps) > 0.05 * ps:
                    break          # not the star state at all: reported by the comparison with the exact solution below
                if abs(p - ps) > (REL_P + 100 * cond) * ps:
                    return ("star pressure %r differs from the reference solution %r by %.3g relative (allowed %.3g): the pressure equation is not satisfied to the stated accuracy"
                            % (p, ps, abs(p - ps) / ps, REL_P + 100 * cond))
                if abs(u - us) > (REL_P + 100 * cond) * su:
                    return "star velocity %r differs from the reference solution %r" % (u, us)
    for (xi, flag, r, u, p) in samples:
        if not all(math.isfinite(v) for v in (r, u, p)) or r < 0 or p < 0:
            return "sampled state not finite / negative at dxdt=%r: %r" % (xi, (r, u, p))
        # next to a shock or the contact either side is right (their position is known to ~1e-8 of the scale); the star
        # region behind a strong shock can be thinner than the tolerance: the states on both sides of every
        # discontinuity within tolerance are acceptable
        cands = [ref_sample(c, ref, xi)[0]]
        for w in jumps:
            if abs(xi - w) <= 1e-6 * max(abs(w), 1e-3 * sv):
                e = 1e-13 * max(abs(w), sv)
                cands += [ref_sample(c, ref, w - e)[0], ref_sample(c, ref, w + e)[0]]
        amp = (TOL + 1000 * min(cond, 1.0)) * (1 + abs(xi) / sv)
        ok = False
        for (r0, u0, p0) in cands:
            # the velocity of (almost) no gas is not compared: next to vacuum the fan is continued where the star region
            # of vanishing density would be
            if abs(r - r0) <= amp * max(s_rho, r0) and abs(p - p0) <= amp * max(s_P, p0) and (abs(u - u0) <= amp * su or max(r, r0) <= 1e-9 * s_rho):
                ok = True
        if not ok:
            reg = ref_sample(c, ref, xi)[1]
            return "sampled state at dxdt=%r (%s) is %r, the exact solution has %r" % (xi, reg, (r, u, p), cands[0])
        # wave relations on the real output itself (not via the reference state)
        reg = ref_sample(c, ref, xi)[1]
        if reg in ("Lfan", "Rfan") and all(abs(xi - w) > 1e-6 * max(abs(w), 1e-3 * sv) for w in kinks) and r > 1e-9 * s_rho:
            a = math.sqrt(g * p / r)
            rho0, u0, p0, a0, sgn = (rl, ul, pl, aL, 1.0) if reg == "Lfan" else (rr, ur, pr, aR, -1.0)
            if abs(math.log(p / p0) - g * math.log(r / rho0)) > 1e-9 * (1 + abs(math.log(p / p0))) * g / (g - 1) * 10:
                return "entropy not constant across the %s at dxdt=%r: P/rho^g = %r vs %r" % (reg, xi, p / r ** g, p0 / rho0 ** g)
            if abs((u + sgn * 2 * a / (g - 1)) - (u0 + sgn * 2 * a0 / (g - 1))) > 1e-9 * (abs(u0) + 2 * a0 / (g - 1) + abs(xi)) * 10:
                return "Riemann invariant not constant across the %s at dxdt=%r" % (reg, xi)
            if abs((u - sgn * a) - xi) > 1e-9 * (abs(u0) + 2 * a0 / (g - 1) + abs(xi)) * 10:
                return "inside the %s u -/+ a differs from dxdt=%r: %r" % (reg, xi, u - sgn * a)
    # Rankine-Hugoniot on the real outputs across each shock
    for side in ("L", "R"):
        rho0, u0, p0, a0 = (rl, ul, pl, aL) if side == "L" else (rr, ur, pr, aR)
        if ps <= p0 * (1 + 1e-6) or cond > 1e-3:
            continue
        S = (ul - aL * math.sqrt((g + 1) / (2 * g) * ps / pl + (g - 1) / (2 * g))) if side == "L" else (ur + aR * math.sqrt((g + 1) / (2 * g) * ps / pr + (g - 1) / (2 * g)))
        behind = [s for s in samples if ref_sample(c, ref, s[0])[1] == side + "star" and not near_jump(s[0])]
        if not behind:
            continue
        (xi, flag, r, u, p) = behind[0]
        m0, m1 = rho0 * (u0 - S), r * (u - S)
        mom0, mom1 = m0 * (u0 - S) + p0, m1 * (u - S) + p
        e0 = (p0 / (g - 1) + 0.5 * rho0 * (u0 - S) ** 2 + p0) * (u0 - S)
        e1 = (p / (g - 1) + 0.5 * r * (u - S) ** 2 + p) * (u - S)
        k = (TOL + 1000 * cond) * (1 + (abs(u0) + abs(S)) / a0) * 10
        if abs(m0 - m1) > k * (abs(m0) + abs(m1) + rho0 * a0) or abs(mom0 - mom1) > k * (abs(mom0) + abs(mom1)) or abs(e0 - e1) > k * (abs(e0) + abs(e1) + p0 * a0):
            return ("Rankine-Hugoniot conditions violated across the %s shock (speed %r): mass %r vs %r, momentum %r vs %r, energy %r vs %r"
                    % (side, S, m0, m1, mom0, mom1, e0, e1))
    return None


def oracle_one_sided_vacuum(c, samples):
    """gas next to vacuum (textbook solution, Toro 4.6.1/4.6.2): undisturbed state up to the fan head u -/+ a, the self-similar fan
    u = 2/(g+1) (+-a + (g-1)/2 u_K + x/t), a = 2/(g+1) (a_K +- (g-1)/2 (u_K - x/t)) up to the vacuum front u_K +- 2 a_K/(g-1), vacuum beyond"""
    g = max(c["gamma"], GFLOOR)
    right_vac = c["R"][0] == 0.0
    rho, u, p = c["L"] if right_vac else c["R"]
    a = math.sqrt(g * p / rho)
    sgn = 1.0 if right_vac else -1.0
    head, front = u - sgn * a, u + sgn * 2.0 * a / (g - 1.0)
    for (x, flag, r, us, ps) in samples:
        if not all(math.isfinite(v) for v in (r, us, ps)) or r < 0 or ps < 0:
            return "gas next to vacuum: sampled state at dxdt=%r is not finite / negative: %r" % (x, (r, us, ps))
        t = sgn * (x - head)          # > 0 inside or beyond the fan
        if abs(x - head) <= 1e-9 * (abs(head) + a) or abs(x - front) <= 1e-9 * (abs(front) + a):
            continue                  # within round-off of a wave: either side is acceptable
        if t < 0:
            r0, u0, p0 = rho, u, p
        elif sgn * (x - front) < 0:
            af = 2.0 / (g + 1.0) * (a + sgn * 0.5 * (g - 1.0) * (u - x))
            u0 = 2.0 / (g + 1.0) * (sgn * a + 0.5 * (g - 1.0) * u + x)
            r0, p0 = rho * (af / a) ** (2.0 / (g - 1.0)), p * (af / a) ** (2.0 * g / (g - 1.0))
        else:
            r0, u0, p0 = 0.0, None, 0.0
        tol = 1e-9
        if abs(r - r0) > tol * rho or abs(ps - p0) > tol * p or (u0 is not None and r0 > 1e-9 * rho and abs(us - u0) > tol * (a + abs(u) + abs(x))):
            return ("gas next to vacuum (%s state %r, vacuum on the %s, gamma %r): sampled state at dxdt=%r is %r, the exact solution has %r"
                    % ("left" if right_vac else "right", (rho, u, p), "right" if right_vac else "left", c["gamma"], x, (r, us, ps), (r0, u0, p0)))
    return None


# ----------------------------------------------------------------------------------------------
PUBLIC_ONLY = [False]


def build(ck, d):
    ok1, log1 = vf.coq_extract("C11", d)
    ok2, log2 = (False, "") if not ok1 else vf.ocaml_build(d, ["c11_model"], os.path.join(vf.VERIF, "ocaml/c11_driver.ml"), "model", floats=True)
    ok3, log3 = vf.cxx_build(os.path.join(vf.VERIF, "harness/c11/exact_harness.cpp"), os.path.join(d, "impl"), openmp=False,
                             extra=["-fno-builtin", "-ffp-contract=off"])
    PUBLIC_ONLY[0] = False
    if not ok3:
        ck.breaks.append("harness does not compile against /repo/src/ExactRiemannSolver.hpp (private helper interface changed?):\n" + log3[-2000:])
        # search for a failing input anyway: a reduced harness that only calls the public solve()
        ok3, log4 = vf.cxx_build(os.path.join(vf.VERIF, "harness/c11/exact_harness.cpp"), os.path.join(d, "impl"), openmp=False,
                                 extra=["-fno-builtin", "-ffp-contract=off", "-DC11_PUBLIC_ONLY"])
        PUBLIC_ONLY[0] = ok3
    if not (ok1 and ok2):
        ck.breaks.append("model extraction/build failed:\n" + (log1 + log2)[-2000:])
    return ok1 and ok2, ok3


def viol_key(c, why):
    cid = ("pstar" if why.startswith("star pressure") else "ustar" if why.startswith("star velocity") else "rh" if why.startswith("Rankine") else
           "entropy" if why.startswith("entropy") else "invariant" if why.startswith("Riemann") else "fan" if why.startswith("inside") else
           "vacuum" if why.startswith("vacuum") else "finite" if "finite" in why else "sample")
    return {"kind": "exact_riemann", "tag": c["tag"], "clause_id": cid}


def pattern_of(wl):
    if wl[0] == "V":
        return "VAC"
    return ("S" if wl[9] == "1" else "R") + ("S" if wl[10] == "1" else "R")


def run(ck):
    ck.prove()
    # PrimFloat operations are kernel primitives, not axioms (vf labels by bare name only)
    tb = ck.coverage.get("trusted_base", [])
    ck.coverage["trusted_base"] = [t.replace("axiom (standard library): PrimFloat.", "primitive of Coq's native binary64 (kernel, not an axiom): PrimFloat.") for t in tb]
    d = ck.scratch
    okm, oki = build(ck, d)
    if not oki:
        ck.resolve_breaks_without_input()
        return
    n = 1100 if ck.quick else 12000
    states = corpus_states()
    ncorpus = len(states)
    for i in range(n):
        states.append(gen_state(ck.rng, i))
    for i in range(12 if ck.quick else 120):     # gas moving towards / away from a vacuum on either side
        g0 = GAMMAS[ck.rng.below(4)]
        rho, p = 10.0 ** (-3 + 6 * ck.rng.uniform()), 10.0 ** (-3 + 6 * ck.rng.uniform())
        a0 = math.sqrt(max(g0, GFLOOR) * p / rho)
        u = a0 * ck.rng.choice([0.0, 0.3, -0.3, 1.0, -1.0, 2.5, -2.5, 10.0, -10.0]) * (0.5 + ck.rng.uniform())
        if i % 2:
            states.append(dict(tag="vacR", gamma=g0, L=(rho, u, p), R=(0.0, 0.0, 0.0)))
        else:
            states.append(dict(tag="vacL", gamma=g0, L=(0.0, 0.0, 0.0), R=(rho, u, p)))
    # the same problem seen from another frame of reference directly after the original (same densities, pressures and velocity
    # difference, bit for bit; other bulk velocity): the solution of a problem must not depend on the problems solved before it
    with_twins, ntw, ncorpus0 = [], 0, ncorpus
    for si, c in enumerate(states):
        if si == ncorpus0:
            ncorpus = len(with_twins)
        with_twins.append(c)
        if c["tag"] in ("vaclimit", "vacL", "vacR") or not (si < 24 or si % 20 == 0):
            continue
        (rl, ul, pl), (rr, ur, pr) = c["L"], c["R"]
        sc = max(abs(ul), abs(ur), math.sqrt(max(c["gamma"], GFLOOR) * max(pl / rl, pr / rr)))
        for V in (2.0 ** math.ceil(math.log2(sc)) * f for f in (4.0, -2.0, 1.0, -0.5, 0.25)):
            if (ur + V) - (ul + V) == ur - ul and (ul + V != ul or ur + V != ur):
                with_twins.append(dict(tag=c["tag"], gamma=c["gamma"], L=(rl, ul + V, pl), R=(rr, ur + V, pr), twin_of_previous_shifted_by=V))
                ntw += 1
                break
    states = with_twins
    ck.coverage["frame_shift_twin_states"] = ntw
    # pass 1: the model's own star state and wave speeds
    wlines = ["W " + state_words(c) for c in states]
    wout = None
    if okm:
        rc, wout = vf.run_lines([os.path.join(d, "model"), "1"], "\n".join(wlines) + "\n", timeout=900)     # star state and wave speeds do not depend on the variant
        if len(wout) != len(wlines):
            ck.breaks.append("model driver produced %d lines for %d states" % (len(wout), len(wlines)))
            wout = None
    lines, owner = [], []
    hist_pat, hist_path, hist_guess, hist_newton, hist_brent = {}, {}, {}, {}, {}
    for si, c in enumerate(states):
        speeds = []
        if wout is not None:
            w = wout[si].split()
            if w[0] == "W":
                speeds = [unhx(x) for x in w[4:9]]
                pat = pattern_of(w)
                code, gbr, nn, nb, hit = w[1], w[11], int(w[12]), int(w[13]), w[14]
                key = {"2": "newton only", "3": "brent", "4": "isinf(fL|fR) -> vacuum", "98": "newton out of fuel", "99": "cmac_error in solve_brent"}.get(code, code)
                hist_path[key] = hist_path.get(key, 0) + 1
                gk = {"1": "PVRS", "2": "two-rarefaction", "3": "two-shock", "4": "two-shock isinf"}.get(gbr, gbr)
                hist_guess[gk] = hist_guess.get(gk, 0) + 1
                hist_newton[nn] = hist_newton.get(nn, 0) + 1
                if code == "3":
                    hist_brent[nb] = hist_brent.get(nb, 0) + 1
                if hit == "1":
                    hist_path["brent hit the 1e4 bound"] = hist_path.get("brent hit the 1e4 bound", 0) + 1
                c["_w"] = (pat, code, gbr, nn, nb)
            else:
                speeds = [unhx(x) for x in w[1:5]]
                pat = "VAC"
                c["_w"] = (pat, "vac", "-", 0, 0)
            hist_pat[pat] = hist_pat.get(pat, 0) + 1
        else:
            # model unavailable: fall back to the reference solver's wave speeds
            rs = ref_star(c) if c["L"][0] > 0 and c["R"][0] > 0 else None
            if rs is not None:
                j, k = ref_speeds(c, rs)
                speeds = j + k
            c["_w"] = ("?", "?", "?", 0, 0)
        xs = sampling_speeds(c, speeds)
        if not ck.quick or si < ncorpus or si % 3 == 0:
            pass
        else:
            xs = xs[:16] + xs[16::3]          # quick tier: thin out the samples of two thirds of the states
        for x in xs:
            lines.append("S " + state_words(c) + " " + hx(x))
            owner.append((si, x))
        # helper probes: brackets around the star pressure
        if not PUBLIC_ONLY[0] and c["L"][0] > 0 and c["R"][0] > 0 and c["L"][2] > 0 and c["R"][2] > 0:
            pm = max(c["L"][2], c["R"][2])
            for lo, hi in ((0.0, pm * 10.0 ** (3 * ck.rng.uniform())), (min(c["L"][2], c["R"][2]) * 10.0 ** (-3 * ck.rng.uniform()), pm * 10.0 ** (2 * ck.rng.uniform()))):
                lines.append("P " + state_words(c) + " " + hx(lo) + " " + hx(hi))
                owner.append((si, None))
    text = "\n".join(lines) + "\n"
    rc, out_i = vf.run_lines([os.path.join(d, "impl")], text, timeout=1800)
    if rc != 0 or len(out_i) != len(lines):
        ck.breaks.append("implementation harness failed (rc=%d, %d of %d lines)" % (rc, len(out_i), len(lines)))
        ck.resolve_breaks_without_input()
        return
    sig = set()
    nprobe = nbrentprobe = 0
    variant = None
    mism = 0

    def compare(out_m):
        """number of lines on which the model output differs from the implementation, and the first few"""
        nonlocal nprobe, nbrentprobe
        bad, first = 0, []
        nprobe = nbrentprobe = 0
        for l, oi, om, (si, x) in zip(lines, out_i, out_m, owner):
            if l[0] == "S":
                fi = [nan_canon(t) if k else t for k, t in enumerate(oi.split())]
                fm = [nan_canon(t) if k else t for k, t in enumerate(om.split("#")[0].split())]
            else:
                nprobe += 1
                a, b = oi.split("|")
                fi = [nan_canon(t) for t in a.split()] + [t if t == "ERR" else nan_canon(t) for t in b.split()[:1]]
                a, b = om.split("|")
                fm = [nan_canon(t) for t in a.split()] + [t if t == "ERR" else nan_canon(t) for t in b.split()[:1]]
                if b.split()[0] != "ERR":
                    nbrentprobe += 1
            if fi != fm:
                bad += 1
                if len(first) < 5:
                    first.append("correspondence C11 model <-> ExactRiemannSolver (%s): input %s\n impl =%s\n model=%s" %
                                 ("solve" if l[0] == "S" else "guess_P/f/fprime/solve_brent", l, oi, om))
        return bad, first

    if okm:
        # the model has two variants of the six fan expressions (clamp = std::max(0., base) or not); the theorems hold for
        # both; the code must be one of them bit for bit
        res = {}
        for v in ("1", "0"):
            rc_m, out_m = vf.run_lines([os.path.join(d, "model"), v], text, timeout=1800)
            if len(out_m) != len(lines):
                res[v] = (len(lines), ["model driver (variant %s) produced %d lines for %d cases" % (v, len(out_m), len(lines))])
            else:
                res[v] = compare(out_m)
            if res[v][0] == 0:
                variant = v
                break
        if variant is None:
            v = min(res, key=lambda k: res[k][0])
            mism = res[v][0]
            ck.breaks += ["[closest model variant: clamp=%s, %d of %d lines differ] " % (v, mism, len(lines)) + b for b in res[v][1]]
    # property oracle on the implementation's outputs
    per_state = {}
    for l, oi, (si, x) in zip(lines, out_i, owner):
        if l[0] == "S":
            t = oi.split()
            per_state.setdefault(si, []).append((x, int(t[0]), unhx(t[1]), unhx(t[2]), unhx(t[3])))
    bad = 0
    nor = 0
    worst = 0.0
    fail_hist = {}
    per_clause = {}
    full_oracle = bool(ck.breaks) or not ck.quick
    for si, c in enumerate(states):
        if c["tag"] in ("vacL", "vacR"):
            why = oracle_one_sided_vacuum(c, per_state.get(si, []))
            nor += 1
            if why:
                bad += 1
                vk = {"kind": "exact_riemann", "tag": c["tag"], "clause_id": "vacuum_one_sided"}
                per_clause["vacuum_one_sided"] = per_clause.get("vacuum_one_sided", 0) + 1
                if per_clause["vacuum_one_sided"] <= 3:
                    ck.violation("C11 fails on the real ExactRiemannSolver::solve: " + why,
                                 {"case": {k: v for k, v in c.items() if not k.startswith("_")}, "input_lines": [l for l, (s2, x) in zip(lines, owner) if s2 == si and l[0] == "S"]}, key=vk)
            continue
        smp = per_state.get(si, [])
        ref = ref_star(c)
        nor += 1
        why = oracle_state(c, ref, smp)
        # region signatures for the coverage count
        for (x, flag, r, u, p) in smp:
            reg = ref_sample(c, ref, x)[1] if ref is not None else ref_sample_vacgen(c, x)[1]
            sig.add((c["_w"][0], reg, c["_w"][1], c["_w"][2], GAMMAS.index(c["gamma"]) if c["gamma"] in GAMMAS else 4))
        if ref is not None and ref["cond"] < 1e-10:
            jm = ref_speeds(c, ref)[0]
            for (x, flag, r, u, p) in smp:
                if ref_sample(c, ref, x)[1] in ("Lstar", "Rstar") and all(abs(x - w) > 1e-6 * max(abs(w), 1e-3 * sum(scale_of(c))) for w in jm):
                    worst = max(worst, abs(p - ref["ps"]) / ref["ps"])
                    break
        vk = viol_key(c, why) if why else None
        if why and ref is not None and ref["ps"] < 1e-300:
            # the exact star pressure is below the binary64 range while (P*/P_K)^((g-1)/2g) is not small (gamma close to 1):
            # the solver gets P* = 0, pow(0, .) = 0, and with it a contact speed and fan tails that are off by x * 2a/(g-1)
            vk["clause_id"] = "pstar_underflow"
            why = ("[exact P* underflows binary64: (P*/P_L)^((g-1)/2g) = %.3g, (P*/P_R)^((g-1)/2g) = %.3g, exact contact speed %r] "
                   % (ref["xL"], ref["xR"], ref["us"])) + why
        if why:
            bad += 1
            kk = vk["clause_id"] + "/" + c["_w"][0]
            fail_hist[kk] = fail_hist.get(kk, 0) + 1
            per_clause[vk["clause_id"]] = per_clause.get(vk["clause_id"], 0) + 1
            if per_clause[vk["clause_id"]] <= 3:        # a few inputs per failing clause
                cc = {k: v for k, v in c.items() if not k.startswith("_")}
                ck.violation("C11 fails on the real ExactRiemannSolver::solve: " + why,
                             {"case": cc, "input_lines": [l for l, (s2, x) in zip(lines, owner) if s2 == si and l[0] == "S"]},
                             key=vk)
    ck.notes.append("property oracle (40-digit reference solver) evaluated on %d states of the real solver's outputs, %d fail; largest relative deviation of the returned star pressure from the reference (well-conditioned states): %.3g"
                    % (nor, bad, worst))
    cov = ck.coverage
    cov["evaluations"] = len(lines)
    cov["distinct_nontrivial"] = len(sig)
    cov["states"] = len(states)
    cov["rule"] = ("states from SplitMix64(VERIF_SEED): corpus (Toro's five tests x 4 adiabatic indices, identical states, collision, recession at 0.9/0.99/1/1.01/2 x the vacuum limit, vacuum input) + 10 modes "
                   "(generic over 6 decades, strong compression, velocity differences at 0.9..2 x and +-1 ulp of the vacuum-generation limit, pressure ratios up to 1e6, nearly equal states, receding, at rest, "
                   "opposite density/pressure contrasts of 1e4..1e6, tiny velocity differences) x gamma in {1.001, 1.4, 5/3, 2, random in (1,2]}; for every state the MODEL's own star state gives the wave speeds "
                   "(shock / fan head / fan tail / contact / vacuum fronts) and solve() is sampled at each speed, +-1 ulp, +-1e-9, +-1e-5 relative, between consecutive waves, outside all waves and at 0; every line is run "
                   "through the compiled solver and the extracted binary64 model and (flag, rho, u, P) are compared bit for bit (P*, u* are observed bit-exactly in the star-region samples); 2 lines per state call the private "
                   "helpers guess_P, f, fprime and solve_brent on random brackets and compare bit for bit. distinct_nontrivial = distinct (wave pattern SS/SR/RS/RR/VAC, region containing dxdt, solver path, guess branch, gamma class) "
                   "signatures seen, regions classified by the independent reference solver")
    cov["wave_pattern_histogram"] = hist_pat
    cov["solver_path_histogram"] = hist_path
    cov["guess_branch_histogram"] = hist_guess
    cov["newton_iterations_histogram"] = {str(k): v for k, v in sorted(hist_newton.items())}
    cov["brent_iterations_histogram"] = {str(k): v for k, v in sorted(hist_brent.items())}
    cov["helper_probe_lines"] = nprobe
    cov["solve_brent_probe_runs"] = nbrentprobe
    cov["case_mismatches"] = mism
    cov["code_matches_model_variant"] = {"1": "clamp=true: fan bases guarded by std::max(0., .)", "0": "clamp=false: unguarded fan bases (NaN at the vacuum front)", None: "none"}[variant]
    cov["oracle_states"] = nor
    cov["oracle_failures"] = bad
    cov["oracle_failure_histogram"] = fail_hist
    cov["max_rel_dev_pstar_vs_reference"] = worst
    cov["samples"] = [{"input": lines[k], "impl": out_i[k]} for k in (0, 1, 2) if k < len(lines)]
    ck.assumptions += [
        "theorems are about the real-number instance (ROps 0 1, Rpower for std::pow) of the definitions in coq/Cxx/C11_Defs.v; the binary64 instance of the SAME definitions is what is compared bit for bit with the compiled solver",
        "std::pow enters as a parameter: glibc pow on both sides (OCaml Float.pow and g++ -fno-builtin -ffp-contract=off)",
        "vacuum handling inside solve(): own definitions written with the fan expressions; for clamp=false proved equal to the model of coq/Cxx/C05_Defs.v (exact_solve_novac) for every scalar instance (C11_vacuum_model_is_c05)",
        "the model has a boolean variant clamp (fan bases guarded by std::max(0., .) or not); all theorems hold for both; the compiled solver must equal one variant bit for bit (coverage.code_matches_model_variant)",
        "accuracy of the star pressure is proved for the Brent path only (C11_star_state_accuracy_partial); the Newton step-test exit is covered by the reference-solver oracle (tolerance 1e-7 relative + round-off allowance)",
        "the C++ Newton loop has no iteration bound; the model gives it 1e5 iterations of fuel and reports exhaustion as code 98 (never observed)",
    ]
    ck.resolve_breaks_without_input()


def replay(ck, rp):
    d = ck.scratch
    okm, oki = build(ck, d)
    r = rp["replay"]
    if "input_lines" not in r:
        print("REPLAY: nothing to run (break without input):", r.get("no_longer_checks"))
        return 1
    rc, out = vf.run_lines([os.path.join(d, "impl")], "\n".join(r["input_lines"]) + "\n")
    c = r["case"]
    c["L"], c["R"] = tuple(c["L"]), tuple(c["R"])
    smp = []
    for l, o in zip(r["input_lines"], out):
        t = o.split()
        smp.append((unhx(l.split()[8]), int(t[0]), unhx(t[1]), unhx(t[2]), unhx(t[3])))
    why = oracle_state(c, ref_star(c), smp)
    print("\n".join(out[:20]))
    print("REPLAY:", why or "property holds on this input")
    return 1 if why else 0
