# C18 helper: independent parser of the shipped atomic data files (data/verner_A.dat, verner_B.dat, verner_C.dat,
# verner_rec_data.txt) -> exact decimal (mantissa, exponent) pairs -> coq/Cxx/C18_Gen.v.
# Shares no code with the C++ reader (VernerCrossSections / VernerRecombinationRates constructors): it works on
# whitespace-separated decimal tokens and exact decimals (decimal.Decimal), never on floats.
import os
from decimal import Decimal
from fractions import Fraction


def dec_of(tok):
    """exact decimal value of a token as (m, e) with value m*10^e, m without trailing zeros"""
    t = tok.replace("D", "E").replace("d", "E")
    d = Decimal(t)
    sign, digits, exp = d.as_tuple()
    m = int("".join(map(str, digits)) or "0")
    if m == 0:
        return (0, 0)
    while m % 10 == 0:
        m //= 10
        exp += 1
    return (-m if sign else m, exp)


def frac(d):
    m, e = d
    return Fraction(m) * (Fraction(10) ** e)


def data_lines(path):
    return [l for l in open(path).read().split("\n") if l.strip() and not l.lstrip().startswith("#")]


def parse_A(path):
    rows = []
    for l in data_lines(path):
        t = l.split()
        if len(t) != 10:
            raise ValueError("verner_A: row with %d columns: %r" % (len(t), l))
        rows.append(dict(Z=int(t[0]), N=int(t[1]), n=int(t[2]), l=int(t[3]), Eth=dec_of(t[4]), E0=dec_of(t[5]), s0=dec_of(t[6]),
                         ya=dec_of(t[7]), P=dec_of(t[8]), yw=dec_of(t[9])))
    return rows


def parse_B(path):
    rows = []
    for l in data_lines(path):
        t = l.split()
        if len(t) != 11:
            raise ValueError("verner_B: row with %d columns: %r" % (len(t), l))
        rows.append(dict(Z=int(t[0]), N=int(t[1]), Eth=dec_of(t[2]), Emax=dec_of(t[3]), E0=dec_of(t[4]), s0=dec_of(t[5]), ya=dec_of(t[6]),
                         P=dec_of(t[7]), yw=dec_of(t[8]), y0=dec_of(t[9]), y1=dec_of(t[10])))
    return rows


def parse_C(path):
    rows = []
    for l in data_lines(path):
        t = l.split()
        if len(t) != 3:
            raise ValueError("verner_C: row with %d columns: %r" % (len(t), l))
        rows.append(dict(N=int(t[0]), Ninn=int(t[1]), Ntot=int(t[2])))
    return rows


def parse_rec(path):
    """sections '# rrec:' (2 blocks), '# rnew:' (4 blocks) of 30 lines x 30 numbers, '# fe:' 3 lines x 13 numbers.
    block c, line j (0-based) = element iz = j+1, token k = number of electrons k+1"""
    sect = {}
    cur = None
    for l in open(path).read().split("\n"):
        s = l.strip()
        if s.startswith("#"):
            name = s.lstrip("#").strip().rstrip(":").strip()
            cur = name if name in ("rrec", "rnew", "fe") else None
            if cur:
                sect[cur] = []
        elif s and cur:
            sect[cur].append([dec_of(t) for t in s.split()])
    out = {}
    for name, nb, nl, nt in (("rrec", 2, 30, 30), ("rnew", 4, 30, 30), ("fe", 3, 1, 13)):
        ls = sect.get(name, [])
        if len(ls) != nb * nl or any(len(x) != nt for x in ls):
            raise ValueError("verner_rec_data: section %s has shape %d x %s, expected %d x %d" % (name, len(ls), sorted(set(map(len, ls))), nb * nl, nt))
        out[name] = [ls[b * nl:(b + 1) * nl] for b in range(nb)] if nl > 1 else ls
    return out


NOTES = []      # shapes of the source the scanner does not know (reported as breaks by props/c18.py; the run continues)


def lyman_clamps(repo):
    """source scan of the two samplers: True if both clamp the temperature to [_temperature[0], _temperature[NUMTEMP-1]]
    before locating it, False if neither does; anything else is not a shape the model knows"""
    import re
    res = []
    for f, pre in (("HydrogenLymanContinuumSpectrum.cpp", "HYDROGEN"), ("HeliumLymanContinuumSpectrum.cpp", "HELIUM")):
        src = open(os.path.join(repo, "src", f)).read()
        body = src[src.index("::get_random_frequency("):]
        body = body[:body.index("Utilities::locate(")]
        body = re.sub(r"//[^\n]*", "", body)
        mx = re.search(r"temperature\s*=\s*std::max\(\s*temperature\s*,\s*_temperature\[0\]\s*\)\s*;", body)
        mn = re.search(r"temperature\s*=\s*std::min\(\s*temperature\s*,\s*_temperature\[\s*%sLYMANCONTINUUMSPECTRUM_NUMTEMP\s*-\s*1\s*\]\s*\)\s*;" % pre, body)
        other = re.search(r"temperature\s*[-+*/]?=", re.sub(r"temperature\s*=\s*std::(max|min)\([^;]*;", "", body))
        if other or (bool(mx) != bool(mn)) or (mx and mn and mx.start() > mn.start()):
            NOTES.append("%s: get_random_frequency modifies the temperature in a way the source scanner does not know; the model keeps the clamp to the table "
                         "range and the sampler correspondence + range oracle decide" % f)
            res.append(True)
        else:
            res.append(bool(mx))
    if res[0] != res[1]:
        NOTES.append("H and He Lyman continuum samplers treat the temperature differently (H clamps: %s, He clamps: %s); the model clamps" % (res[0], res[1]))
        return True
    return res[0]


def cd(d):
    m, e = d
    return "(D %s %s)" % ("(%d)" % m if m < 0 else str(m), "(%d)" % e if e < 0 else str(e))


def coq_text(repo):
    dd = os.path.join(repo, "data")
    A, B, C = parse_A(os.path.join(dd, "verner_A.dat")), parse_B(os.path.join(dd, "verner_B.dat")), parse_C(os.path.join(dd, "verner_C.dat"))
    R = parse_rec(os.path.join(dd, "verner_rec_data.txt"))
    o = ["(* GENERATED by props/c18_tables.py from the data files of the repo under test (data/verner_A.dat, verner_B.dat,",
         "   verner_C.dat, verner_rec_data.txt).  Git-ignored; rewritten by every run of ./check C18.  Every number is the exact",
         "   decimal of the file: D m e = m * 10^e. *)",
         "From Coq Require Import ZArith List.", "From CMI Require Import Cxx.C18_Dec.", "Import ListNotations.", "Local Open Scope Z_scope.", ""]
    o.append("Definition gen_A : list rowA := [")
    o.append(";\n".join("  RA %d %d %d %d %s" % (r["Z"], r["N"], r["n"], r["l"], " ".join(cd(r[k]) for k in ("Eth", "E0", "s0", "ya", "P", "yw"))) for r in A))
    o.append("]%nat.\n")
    o.append("Definition gen_B : list rowB := [")
    o.append(";\n".join("  RB %d %d %s" % (r["Z"], r["N"], " ".join(cd(r[k]) for k in ("Eth", "Emax", "E0", "s0", "ya", "P", "yw", "y0", "y1"))) for r in B))
    o.append("]%nat.\n")
    o.append("Definition gen_C : list rowC := [")
    o.append(";\n".join("  RC %d %d %d" % (r["N"], r["Ninn"], r["Ntot"]) for r in C))
    o.append("]%nat.\n")
    for name in ("rrec", "rnew"):
        o.append("Definition gen_%s : list (list (list dec)) := [" % name)
        o.append(";\n".join(" [" + ";\n".join("  [" + "; ".join(cd(x) for x in line) + "]" for line in blk) + "]" for blk in R[name]))
        o.append("].\n")
    o.append("Definition gen_fe : list (list dec) := [")
    o.append(";\n".join("  [" + "; ".join(cd(x) for x in line) + "]" for line in R["fe"]))
    o.append("].\n")
    o.append("(* does get_random_frequency of the H / He Lyman continuum spectra clamp the temperature to the table first? (source scan) *)")
    o.append("Definition gen_lyman_clamps : bool := %s.\n" % ("true" if lyman_clamps(repo) else "false"))
    return "\n".join(o), dict(A=A, B=B, C=C, R=R)
