# C01  photon iteration: proof (Coq, interleaving model) + validation of hook traces of the real binary
# against the extracted model: every real event must be an enabled model step
import os, shutil, json, re
from concurrent.futures import ThreadPoolExecutor
import sys
import vf
sys.path.insert(0, os.path.join(vf.VERIF, "tools"))
import c01_guards as G

LEVEL = "proof"
CLAIM = dict(cat="proof", design="§3 C01, Appendix A.7, §8 O7",
   text="Coq theorems (no axioms) over an interleaving model of one photon iteration (worker loop control points, scheduler fetches with spurious misses, the six task bodies, MemorySpace::add_photons overflow, premature launch, "
        "two-step termination test) for ANY number of threads, subgrids, sources, packets, buffer size and ANY schedule: every packet created is in exactly one place or terminated (no loss, no duplication), the done counter "
        "equals the number of terminated packets, the run flag is cleared only when all requested packets have terminated exactly once, tasks with a common dependency never overlap, and when all threads have left the loop "
        "no queue entry, buffer, thread-local buffer or held lock is left behind. The pinned commit's loop condition is refuted by a 2-thread schedule (C01_pinned_loop_refuted = defect O7: a task fetched in the else branch is "
        "dropped, its lock stays held, the next iteration hangs), exhibited on the real binary with a schedule-perturbation hook, and fixed. Tie: hook traces of the real binary (task-based ionization and RHD; 1-8 threads; "
        "layouts with 1..12 subgrids incl. copies; discrete, continuous and both sources; diffuse field on/off; packet counts that are and are not multiples of 200; several iterations) are replayed event by event through the "
        "extracted model: every fetch, task run (with its per-direction stored counts), premature launch, termination test and exit must be an enabled step with equal observables. "
        "Second tie (translator): tools/c01_guards.py regenerates the worker-loop condition and the termination test of BOTH simulations from the current source text into C01_Gen.v on every run; theorem "
        "C01_source_guards_are_model_guards proves that the transition function with the regenerated conditions is the proved one (a changed condition breaks the proof; a small-scope search then names the model state "
        "in which the changed condition ends the iteration early, never ends it, or drops a fetched task). Further ties: identity-level correspondence of MemorySpace::add_photons with the model's append_active (tagged packets: no loss, no duplication on overflow); source-side model (DistributedPhotonSource split over sources/copies/remainder draws, batch loops) proved exact and compared with the real class; quick configurations include an odd request shared by a discrete and a continuous source and a continuous source with fewer batches than threads; non-terminating runs are bounded (60 s, 1.5 GB trace).",
   note="Per traversal task the hook reports the outcome of interact for every packet: stored for direction i iff the subgrid has a neighbour there (re-emission for i = 0), terminated iff the rest (oracle on every traced run). Task bodies are atomic steps of the model; this rests on the lock discipline (subgrid state touched only under the subgrid's dependency lock) and on C08 for the containers, and is checked dynamically by the trace "
        "validation (an interleaving that is not a run of the model is reported). Liveness (the iteration eventually ends) is not proved: it needs fairness of the OpenMP threads; only safety and the clean-exit property are. "
        "Photon physics inside a traversal is an oracle (C02). Pool/queue capacities are unbounded in the model (the property assumes they are not exhausted). Extraction uses ExtrOcamlBasic + ExtrOcamlNatInt (nat as OCaml int). "
        "Trace runs use the guarded step lock of the hooks (CMI_VERIF_SERIALIZE: an operation and the event that logs it are atomic, the interleaving of steps is still the OS scheduler's); the same configurations are also run "
        "without the lock, where only the end-of-iteration census of the real code is checked.",
   technique="Coq proof of an inductive invariant over all schedules + trace validation of the real binary against the extracted model")

TT = {0: "D", 1: "C", 2: "F", 3: "V", 4: "R"}    # filled from the enum at run time (see task_types)


def task_types():
    """TASKTYPE_* enum values from src/Task.hpp"""
    txt = open(os.path.join(vf.REPO, "src", "Task.hpp")).read()
    m = re.search(r"enum TaskType \{(.*?)\};", txt, re.S)
    names = [x.strip().split("=")[0].strip() for x in re.sub(r"/\*.*?\*/|//[^\n]*", "", m.group(1), flags=re.S).split(",") if x.strip()]
    val = {n: i for i, n in enumerate(names)}
    return {val["TASKTYPE_SOURCE_DISCRETE_PHOTON"]: "D", val["TASKTYPE_SOURCE_CONTINUOUS_PHOTON"]: "C",
            val["TASKTYPE_FLUSH_CONTINUOUS_PHOTON_BUFFERS"]: "F", val["TASKTYPE_PHOTON_TRAVERSAL"]: "V", val["TASKTYPE_PHOTON_REEMIT"]: "R"}


def split_iterations(lines):
    """events of one iteration: SRCTASK* ITER_BEGIN NGB* ... ITER_END"""
    its, cur = [], []
    for l in lines:
        f = l.split()
        ev = [int(f[0]), f[1], int(f[2])] + [int(x) for x in f[3:]]
        cur.append(ev)
        if f[1] == "ITER_END":
            its.append(cur)
            cur = []
    return its


def fates(events):
    """every packet of a traversal task is accounted for by what happened to it: a packet whose traversal ends in direction i of a
    subgrid that has a neighbour there is stored for that neighbour, a packet absorbed with re-emission on is stored for the re-emission
    task, and exactly the other ones (absorbed without re-emission, left the box) are counted as terminated"""
    begin = [e for e in events if e[1] == "ITER_BEGIN"][0]
    reemit = begin[6]
    ngb = {e[3]: e[4:31] for e in events if e[1] == "NGB"}
    last, errs, n = {}, [], 0
    for e in events:
        if e[1] == "TRAVRES":
            last[e[2]] = e[3:30]
        elif e[1] == "TRAV":
            res = last.pop(e[2], None)
            if res is None:
                continue
            n += 1
            sg, size, done, out = e[4], e[5], e[6], e[7:34]
            nb = ngb.get(sg)
            if nb is None:
                continue
            want = [(res[0] if reemit else 0)] + [(res[i] if nb[i] != -1 else 0) for i in range(1, 27)]
            if sum(res) != size or list(out) != want or done != size - sum(want):
                bad = [i for i in range(27) if out[i] != want[i]]
                errs.append("traversal of a buffer of %d packets in subgrid %d: the traversal sent %s packets to directions %s (neighbours there: %s), but %s were stored for them; "
                            "%d packets are counted as terminated, %d were absorbed%s or left the box" % (size, sg, [res[i] for i in bad], bad, [nb[i] for i in bad], [out[i] for i in bad],
                                                                                                   done, size - sum(want), "" if not reemit else " (none: re-emission is on)"))
    return n, errs


def translate(events, tt):
    """one iteration's events -> validator commands"""
    cmds = []
    begin = [e for e in events if e[1] == "ITER_BEGIN"][0]
    iloop, nreq, nthr, reemit, cap = begin[3:8]
    cmds.append("INIT %d %d %d %d" % (cap, nthr, nreq, reemit))
    for e in events:
        if e[1] == "NGB":
            cmds.append("NGB " + " ".join(str(x) for x in e[3:]))
    created = {}          # task index -> (type letter, sg, cnt) for source tasks
    for e in events:
        if e[1] == "SRCTASK":
            ty = tt[e[3]]
            created[e[6]] = (ty, e[4], e[5])
            cmds.append("SRC %s %d %d" % (ty, e[4], e[5]))
    cmds.append("START")
    body = [e for e in events if e[1] not in ("SRCTASK", "ITER_BEGIN", "NGB", "TRAVRES")]   # TRAVRES: oracle-only detail (fates())
    end = body[-1]
    body = body[:-1]
    # group per thread
    per = {}
    for i, e in enumerate(body):
        per.setdefault(e[2], []).append(i)
    nxt = {}              # index -> index of the next event of the same thread
    for t, idxs in per.items():
        for a, b in zip(idxs, idxs[1:]):
            nxt[a] = b
    def next_name(i):
        j = nxt.get(i)
        # skip detail events that belong to a run
        return body[j][1] if j is not None else None
    # run records: for each RUN event the detail events since the thread's fetch
    out = []              # list of (position key, [commands], creates set)
    pending_detail = {}   # thread -> list of detail events
    run_cmds = {}         # index of RUN event -> (commands, set of created task indices)
    for i, e in enumerate(body):
        t = e[2]
        if e[1] in ("TRAV", "REEMIT", "SRCD", "SRCC_DEST", "SRCC_LAUNCH", "SRCC_FLUSHTASK", "SRCC_END", "FLUSH_LAUNCH", "FLUSH_END"):
            pending_detail.setdefault(t, []).append(e)
        elif e[1] == "RUN":
            det = pending_detail.pop(t, [])
            ty = tt.get(e[4], "?")
            n = e[5]
            added = [(e[6 + 2 * k], e[7 + 2 * k]) for k in range(n)]
            creates = set(a for a, _ in added)
            c = []
            if ty == "D":
                c.append("RUND %d %d" % (t, added[0][1] if added else 9999))
            elif ty == "C":
                dests = [d[4] for d in det if d[1] == "SRCC_DEST"]
                launches = [(d[6], d[7]) for d in det if d[1] == "SRCC_LAUNCH"]
                flushes = [d[4] for d in det if d[1] == "SRCC_FLUSHTASK"]
                creates |= set(a for a, _ in launches) | set(flushes)
                c.append("RUNC %d %d %s %d %s" % (t, len(dests), " ".join(map(str, dests)), len(launches), " ".join(str(q) for _, q in launches)))
            elif ty == "F":
                launches = [d[7] for d in det if d[1] == "FLUSH_LAUNCH"]
                creates |= set(launches)
                c.append("RUNF %d" % t)
            elif ty == "V":
                tr = [d for d in det if d[1] == "TRAV"][0]
                c.append("RUNT %d %d %s %d %s" % (t, tr[6], " ".join(map(str, tr[7:34])), len(added), " ".join(str(q) for _, q in added)))
            elif ty == "R":
                rm = [d for d in det if d[1] == "REEMIT"][0]
                c.append("RUNR %d %d %d %d" % (t, rm[5] - rm[6], rm[6], added[0][1] if added else 9999))   # REEMIT logs (buffer, subgrid, size before, kept)
            lazy = [a for a, _ in added]
            run_cmds[i] = (c, creates, lazy)
    queue_of = {}                      # task index -> thread whose queue it was added to (RUN events), latest creation
    for ev_ in body:
        if ev_[1] == "RUN":
            for k_ in range(ev_[5]):
                queue_of[ev_[6 + 2 * k_]] = ev_[7 + 2 * k_]
    emitted_runs = set()
    queued = set(created.keys())       # task indices currently known to be queued
    creator = {}                       # task index -> RUN event index that creates it (latest)
    for i, (c, cr, lz) in run_cmds.items():
        for a in cr:
            creator.setdefault(a, []).append(i)
    pending = {}                       # thread -> task indices created by its last run, not yet added to a queue
    def emit_run(i):
        emitted_runs.add(i)
        c, cr, lz = run_cmds[i]
        out.extend(c)
        t = body[i][2]
        if lz:
            pending[t] = list(lz)      # enqueued lazily: before the first fetch of one of them / the thread's next event
            queued.update(set(cr) - set(lz))
            if set(cr) - set(lz):
                pass
        else:
            out.append("ENQALL %d" % t)
            queued.update(cr)
    for i, e in enumerate(body):
        t, name = e[2], e[1]
        if name in ("FETCH", "PREMATURE") and pending.get(t):
            out.append("ENQALL %d" % t)
            queued.update(pending.pop(t))
        elif name == "FETCH" and t in pending:
            out.append("ENQALL %d" % t)
            pending.pop(t)
        if name == "FETCH":
            kind, idx = e[3], e[4]
            if idx < 0:
                out.append("FETCHNONE %d %d" % (t, kind))
                if kind in (1, 2):
                    nn = next_name(i)
                    if nn != "FLAGCLR":
                        out += ["CHECK %d else" % t]
                if kind in (0, 3):
                    if next_name(i) != "EXIT":
                        out.append("HEAD %d cont" % t)
            else:
                if idx not in queued:
                    # created inside a task body whose RUN event is logged later: hoist that run
                    cand = [j for j in creator.get(idx, []) if j not in emitted_runs and j > i]
                    if cand:
                        emit_run(min(cand))
                ty = tt.get(e[5], "?")
                owner = [u for u, lst in pending.items() if idx in lst]
                if owner:
                    u = owner[0]
                    k = pending[u].index(idx)
                    out.append("ENQN %d %d" % (u, k + 1))      # exactly the tasks up to the fetched one (equal tasks may already wait in the queue)
                    queued.update(pending[u][:k + 1])
                    pending[u] = pending[u][k + 1:]
                queued.discard(idx)
                if idx in created and ty in ("D", "C"):
                    _, sg, cnt = created[idx]
                else:
                    sg, cnt = e[6], e[8]
                # which queue the real task was put in (two tasks with the same subgrid and packet count can sit in different queues)
                out.append("FETCH %d %d %s %d %d %d" % (t, kind, ty, sg, cnt, queue_of.get(idx, -1)))
                if kind in (0, 3):
                    if next_name(i) != "EXIT":
                        out.append("HEAD %d cont" % t)
        elif name == "PREMATURE":
            out.append("HEAD %d" % t) if False else None
            out.append("PREM %d %d %d %d" % (t, e[3], e[4], e[6]))
            queued.add(e[8])
        elif name == "RUN":
            if i not in emitted_runs:
                emit_run(i)
        elif name == "FLAGCLR":
            out += ["CHECK %d clear" % t]
        elif name == "EXIT":
            out += ["HEAD %d exit" % t]
    out.append("END %d" % end[6])
    census = {"buffers": end[3], "tasks": end[4], "shared": end[5], "done": end[6], "queues": end[7:]}
    return cmds + [x for x in out if x], census, dict(nreq=nreq, nthr=nthr, reemit=reemit, cap=cap)


def configs(quick):
    """(name, mode args, param text transform, threads, expect)"""
    base_ion = open(os.path.join(vf.VERIF, "harness/configs/ion.param")).read()
    base_rhd = open(os.path.join(vf.VERIF, "harness/configs/rhd.param")).read()
    base_o7 = open(os.path.join(vf.VERIF, "harness/configs/o7.param")).read()
    C = []
    def sub(txt, **kw):
        for k, v in kw.items():
            txt = re.sub(r"(?m)^(\s*%s:).*$" % re.escape(k.replace("_", " ")), lambda m: m.group(1) + " " + v, txt)
        return txt
    ion_variants = [
        ("ion_both_diffuse", base_ion),
        ("ion_nodiffuse", sub(base_ion, diffuse_field="false", number_of_photons="4999")),      # odd request shared by a discrete and a continuous source
        ("ion_discrete_only_777", re.sub(r"ContinuousPhotonSource:.*?total flux: 1.e8 m\^-2 s\^-1\n", "", sub(base_ion, number_of_photons="777"), flags=re.S)),
        ("ion_periodic_222", sub(base_ion, periodicity="[true, true, true]", number_of_subgrids="[2, 2, 2]", number_of_photons="2000")),
        ("ion_1subgrid_400", base_o7),
        ("ion_1subgrid_cont_700", sub(base_o7, number_of_photons="700")),       # continuous source only: 3 full batches + one partial batch, fewer batches than threads at 4 threads
        ("ion_copies2", sub(base_ion, source_copy_level="2", number_of_photons="3001")),
        ("ion_1x1x2_periodic", sub(base_ion, periodicity="[false, false, true]", number_of_subgrids="[1, 1, 2]", number_of_photons="1200")),
    ]
    threads = [1, 2, 4] if quick else [1, 2, 3, 4, 8]
    for name, txt in ion_variants if not quick else ion_variants[:6]:
        for th in threads:
            C.append((name + "_t%d" % th, ["--task-based"], txt, th))
    for th in ([2] if quick else [1, 2, 4]):
        C.append(("rhd_radiation_t%d" % th, ["--task-based-rhd", "--number-of-steps", "2"], base_rhd, th))
    return C


def run_one(exe, validator, base, cfg, tt, perturb=False, serialize=True):
    name, args, txt, th = cfg
    d = os.path.join(base, name)
    shutil.rmtree(d, ignore_errors=True)
    os.makedirs(d)
    for f in os.listdir(os.path.join(vf.VERIF, "harness", "configs")):
        shutil.copy(os.path.join(vf.VERIF, "harness", "configs", f), d)
    open(os.path.join(d, "run.param"), "w").write(txt)
    trace = os.path.join(d, "iter.trace")
    env = {"CMI_VERIF_ITER_TRACE": trace}
    if perturb:
        env["CMI_VERIF_HOLD_ELSE_FLUSH"] = "2000"
    if serialize and not perturb:
        # operation + logging event are made atomic (step lock of the hooks), so the order in the trace is the order of the
        # operations; the interleaving of the steps is still chosen by the OS scheduler
        env["CMI_VERIF_SERIALIZE"] = "1"
    validate = serialize and not perturb
    # a run that does not terminate logs failed fetches without end: bound the trace (1.5 GB) and the time (a healthy run takes < 2 s)
    rc, out = vf.sh(["bash", "-c", 'ulimit -f 1500000; exec "$@"', "run", exe] + args + ["--params", "run.param", "--threads", str(th), "--dirty"], cwd=d, timeout=60, env=env)
    res = {"name": name, "rc": rc, "iterations": [], "errors": [], "labels": 0, "hist": {}}
    if rc != 0:
        extra = ""
        try:     # what the trace has of the first iteration: packets carried by the source tasks against the request
            ev = [l.split() for l in open(trace).read(4 << 20).splitlines()[:-1]]      # a hanging run logs failed fetches without end: only the head is needed
            beg = [e for e in ev if len(e) > 4 and e[1] == "ITER_BEGIN"]
            if beg:
                k = ev.index(beg[0])
                launched = sum(int(e[5]) for e in ev[:k] if e[1] == "SRCTASK")
                extra = "; source tasks of the first iteration carry %d packets, requested %s" % (launched, beg[0][4])
        except Exception:
            pass
        res["errors"].append("real run exits with status %d (124 = did not finish within 60 s, 153 = trace size limit reached while spinning)%s: %s" % (rc, extra, out[-300:]))
        shutil.rmtree(d, ignore_errors=True)
        return res
    lines = open(trace).read().splitlines()
    for k, events in enumerate(split_iterations(lines)):
        try:
            cmds, census, info = translate(events, tt)
        except Exception as ex:
            res["errors"].append("iteration %d: trace cannot be translated: %r" % (k, ex))
            continue
        if validate:
            rcv, outv = vf.sh([validator], input="\n".join(cmds) + "\n", timeout=600)
            errs = [l for l in outv.splitlines() if l.startswith("ERR")]
            stats = [l for l in outv.splitlines() if l.startswith("STATS")]
            if rcv != 0 or not stats:
                errs.append("validator crashed: " + outv[-300:])
        else:
            errs, stats = [], []
        for l in stats:
            for kv in l.split()[1:]:
                a, b = kv.split("=")
                if a == "labels":
                    res["labels"] += int(b)
                elif a == "deferred":
                    res["deferred"] = res.get("deferred", 0) + int(b)
                elif a != "errors":
                    res["hist"][a] = res["hist"].get(a, 0) + int(b)
        if census["buffers"] != 0 or census["shared"] != 0 or any(census["queues"]) or census["done"] != info["nreq"]:
            errs.append("census at iteration end on the REAL code: %r (requested %d)" % (census, info["nreq"]))
        nf, ferrs = fates(events)
        res["fates_checked"] = res.get("fates_checked", 0) + nf
        errs += ferrs[:3]
        res["iterations"].append({"events": len(events), "commands": len(cmds), "census": census, "errors": errs[:5]})
        if errs:
            res["errors"].append("iteration %d: %s" % (k, " | ".join(errs[:3])))
            res["first_cmds"] = cmds[:40]
    shutil.rmtree(d, ignore_errors=True)
    return res


def regenerate():
    """translator: loop condition and termination test of both worker loops -> coq/Cxx/C01_Gen.v"""
    try:
        res, err = G.extract(vf.REPO), None
    except G.Untranslatable as ex:
        res, err = None, str(ex)
    vf.write_if_changed(os.path.join(vf.COQ, "Cxx", "C01_Gen.v"), G.emit_coq(res, err))
    return res, err


def guards(ck):
    res, err = regenerate()
    ck.coverage["generated_from_source"] = {k: {"loop": v["loop_src"], "termination": v["term_src"]} for k, v in (res or {}).items()}
    if err is not None:
        ck.breaks.append("tools/c01_guards.py cannot translate the worker loop conditions: " + err)
    return res


def guard_search(ck, res):
    """the tie theorem broke: look for a model state on which the regenerated guard misbehaves"""
    for f in G.search(res or {})[:4]:
        if f["guard"] == "termination" and f["implementation_clears_flag"]:
            what = ("C01: the termination test of the source, '%s', clears the run flag in the state buffers_empty=%s, done=%d of %d requested packets: the iteration ends before all requested packets are accounted for "
                    "(the model state is reachable whenever source tasks are still queued)" % (f["source"], f["buffers_empty"], f["done"], f["requested"]))
        elif f["guard"] == "termination":
            what = ("C01: the termination test of the source, '%s', does NOT clear the run flag in the state buffers_empty=%s, done=%d of %d requested: the iteration never ends"
                    % (f["source"], f["buffers_empty"], f["done"], f["requested"]))
        elif not f["implementation_continues"]:
            what = ("C01: the worker loop condition of the source, '%s', leaves the loop with flag=%s while the thread holds a fetched task=%s: the task is dropped and its dependency stays locked "
                    "(schedule of theorem C01_pinned_loop_refuted)" % (f["source"], f["flag"], f["thread_holds_fetched_task"]))
        else:
            what = "C01: the worker loop condition of the source, '%s', keeps a thread in the loop with flag=%s and no task: the iteration never ends" % (f["source"], f["flag"])
        ck.violation(what, {"model_state": f, "theorem": "C01_source_guards_are_model_guards"}, key={"kind": "guard", "sim": f["sim"], "guard": f["guard"]})


def source_side(ck, d):
    """correspondence of the source-split model (C01_SourceDefs.v) with the real DistributedPhotonSource + task loop"""
    rc, out = vf.sh(["timeout", "300", "coqc", "-Q", vf.COQ, "CMI", "-w", "none", "-o", os.path.join(d, "Extract_C01S.vo"),
                     os.path.join(vf.COQ, "Extract", "Extract_C01S.v")], cwd=d, timeout=330)
    ok2, log2 = (False, out) if rc != 0 else vf.ocaml_build(d, ["c01_source_model"], os.path.join(vf.VERIF, "ocaml/c01_source_driver.ml"), "srcmodel")
    ok3, log3 = vf.cxx_build(os.path.join(vf.VERIF, "harness/c01/source_split_harness.cpp"), os.path.join(d, "srcimpl"), openmp=True,
                             extra=["-Wl,--no-as-needed", "-lmpi_cxx", "-lmpi"])
    if not (ok2 and ok3):
        ck.breaks.append("source-side model/harness does not build:\n" + (log2 + log3)[-1500:])
        return
    rng = ck.rng
    cases = []
    def mk(nx, ny, nz, lv, N, cap, ncont, nblocks, srcs):
        return "%d %d %d %s %d %d %d %d %d %s" % (nx, ny, nz, " ".join(map(str, lv)), N, cap, ncont, nblocks, len(srcs),
                                                  " ".join("%.17g %.17g %.17g %.17g" % s for s in srcs))
    # corpus: one source, remainder packets, copies, zero weight, packet numbers around multiples of the batch size
    cases.append(mk(1, 1, 1, [0], 1, 200, 0, 1, [(0.5, 0.5, 0.5, 1.0)]))
    cases.append(mk(1, 1, 1, [0], 400, 200, 400, 4, [(0.5, 0.5, 0.5, 1.0)]))
    cases.append(mk(1, 1, 1, [2], 1001, 200, 450, 4, [(0.5, 0.5, 0.5, 1. / 3.), (0.25, 0.5, 0.5, 2. / 3.)]))
    cases.append(mk(2, 1, 1, [1, 3], 777, 7, 13, 3, [(0.1, 0.5, 0.5, 0.3), (0.9, 0.5, 0.5, 0.3), (0.9, 0.1, 0.5, 0.4)]))
    cases.append(mk(2, 2, 1, [0, 1, 0, 2], 5, 200, 0, 1, [(0.1, 0.1, 0.5, 0.5), (0.9, 0.9, 0.5, 0.5), (0.9, 0.1, 0.5, 0.0)]))
    cases.append(mk(1, 1, 2, [3, 0], 3, 1, 2, 2, [(0.5, 0.5, 0.2, 1.0)]))
    n = 150 if ck.quick else 1500
    for _ in range(n):
        nx, ny, nz = 1 + rng.below(3), 1 + rng.below(2), 1 + rng.below(2)
        lv = [[0, 0, 1, 2, 3][rng.below(5)] for _ in range(nx * ny * nz)]
        cap = [1, 2, 7, 50, 200, 200][rng.below(6)]
        N = [rng.below(20) + 1, rng.below(3000) + 1, cap * (1 + rng.below(12)) + [-1, 0, 1][rng.below(3)]][rng.below(3)]
        N = max(N, 1)
        if cap <= 2:
            N = min(N, 400)
        ncont = [0, rng.below(1000), cap * rng.below(6)][rng.below(3)]
        nblocks = 1 + rng.below(8)
        ns = 1 + rng.below(5)
        raw = [rng.below(1000) + (0 if rng.below(8) else 1) for _ in range(ns)]
        if sum(raw) == 0:
            raw[0] = 1
        tot = float(sum(raw))
        srcs = [(rng.uniform(), rng.uniform(), rng.uniform(), r / tot) for r in raw]
        cases.append(mk(nx, ny, nz, lv, N, cap, ncont, nblocks, srcs))
    text = "\n".join(cases) + "\n"
    rci, outi = vf.run_lines([os.path.join(d, "srcimpl")], text, timeout=900)
    impl = [l for l in outi if not l.startswith("SUBGRIDS")]
    rcm, outm = vf.run_lines([os.path.join(d, "srcmodel")], "\n".join(outi) + "\n", timeout=300)
    # split per case
    def split(lines):
        res, cur = [], None
        for l in lines:
            if l.startswith("CASE"):
                cur = []
                res.append(cur)
            if cur is not None:
                cur.append(l)
        return res
    A, B = split(impl), split(outm)
    nbad = 0
    hist = {"wrap": 0, "remainder_packets": 0, "copies": 0, "tasks": 0}
    if rci != 0 or len(A) != len(cases):
        ck.breaks.append("source-split harness failed (exit %d, %d of %d cases)" % (rci, len(A), len(cases)))
    for k, a in enumerate(A):
        b = B[k] if k < len(B) else []
        f = {l.split()[0]: l.split()[1:] for l in a}
        hist["wrap"] += "WRAP" in f
        hist["remainder_packets"] += bool(f.get("DRAWS"))
        hist["copies"] += any(l.startswith("SRC") and l.split()[2] != "1" for l in a)
        hist["tasks"] += len(f.get("TASKS", [])) // 2
        if a == b:
            continue
        nbad += 1
        # oracle for the property on the real outputs
        cs = cases[k].split()
        nsub = int(cs[0]) * int(cs[1]) * int(cs[2])
        N, cap, ncont = int(cs[3 + nsub]), int(cs[4 + nsub]), int(cs[5 + nsub])
        why = None
        if "TOTALS" in f:
            tot = list(map(int, f["TOTALS"]))
            tasks = list(map(int, f.get("TASKS", [])))[1::2]
            done = f.get("DONE", ["-1"])
            cont = list(map(int, f.get("CONT", [])))[1::2]
            if sum(tot) != N:
                why = "the per-copy totals of DistributedPhotonSource add up to %d, requested %d" % (sum(tot), N)
            elif sum(tasks) != N or int(done[0]) != N:
                why = "the discrete source tasks carry %d packets, requested %d" % (sum(tasks), N)
            elif any(t < 1 or t > cap for t in tasks + cont):
                why = "a source task has a batch size outside 1..%d" % cap
            elif done[-2:] != ["EXTRA", "0"]:
                why = "a source hands out packets after its total was reached"
            elif sum(cont) != ncont:
                why = "the continuous source tasks carry %d packets, requested %d" % (sum(cont), ncont)
        if why:
            ck.violation("C01 (source side): " + why, {"source_case": cases[k], "impl": a[:12], "model": b[:12]}, key={"kind": "source_split"})
        elif nbad <= 3:
            i = vf.first_diff(a, b)
            ck.breaks.append("source-split model and DistributedPhotonSource differ on '%s': impl %r model %r" % (cases[k][:200], a[i] if i < len(a) else None, b[i] if i < len(b) else None))
    ck.coverage["source_split"] = {"cases": len(cases), "mismatches": nbad, "histogram": hist}
    return len(cases)


def memory_side(ck, d):
    """identity-level correspondence of MemorySpace::add_photons with the model's append_active: no packet lost or duplicated on overflow"""
    ok2, log2 = vf.ocaml_build(d, ["c01_model"], os.path.join(vf.VERIF, "ocaml/c01_mem_driver.ml"), "memmodel")
    ok3, log3 = vf.cxx_build(os.path.join(vf.VERIF, "harness/c01/memspace_harness.cpp"), os.path.join(d, "memimpl"), openmp=False, extra=["-Wl,--no-as-needed", "-lmpi_cxx", "-lmpi"])
    if not (ok2 and ok3):
        ck.breaks.append("add_photons model/harness does not build:\n" + (log2 + log3)[-1500:])
        return 0
    cap = 200
    m = re.search(r"#define\s+PHOTONBUFFER_SIZE\s+(\d+)", open(os.path.join(vf.REPO, "src", "PhotonBuffer.hpp")).read())
    if m:
        cap = int(m.group(1))
    cases = [(0, 0), (0, 1), (0, cap), (cap - 1, 1), (cap - 1, 2), (1, cap), (1, cap - 1), (cap - 1, cap), (150, 120), (150, 50), (150, 49), (199 % cap, 200 % cap + 1)]
    for _ in range(60 if ck.quick else 600):
        cur = ck.rng.below(cap)
        n = [ck.rng.below(cap + 1), cap - cur, cap - cur + 1 + ck.rng.below(cur + 1), max(0, cap - cur - 1)][ck.rng.below(4)]
        cases.append((cur, min(n, cap)))
    rci, outi = vf.run_lines([os.path.join(d, "memimpl")], "".join("A %d %d\n" % c for c in cases), timeout=300)
    rcm, outm = vf.run_lines([os.path.join(d, "memmodel")], "".join("A %d %d %d\n" % (cap, c[0], c[1]) for c in cases), timeout=300)
    bad = 0
    for c, a, b in zip(cases, outi, outm):
        if a == b:
            continue
        bad += 1
        # oracle for the property on the real output: the multiset of tags after the call is the multiset before
        tags = [int(x) for part in a.split("|")[2:4] for x in part.split()[1:]]
        want = list(range(c[0])) + [1000 + i for i in range(c[1])]
        if sorted(tags) != sorted(want):
            lost = sorted(set(want) - set(tags))
            dup = sorted(t for t in set(tags) if tags.count(t) > 1)
            ck.violation("C01 (MemorySpace::add_photons): adding a local buffer of %d packets to an outgoing buffer that holds %d loses packets %s and duplicates packets %s "
                         "(every packet must be in exactly one place)" % (c[1], c[0], lost[:6], dup[:6]), {"add_photons_case": list(c), "impl": a, "model": b}, key={"kind": "add_photons_identity"})
        elif bad <= 3:
            ck.breaks.append("add_photons: model and MemorySpace differ for (held %d, added %d): impl %r model %r" % (c[0], c[1], a[:300], b[:300]))
    if rci != 0 or len(outi) != len(cases) or len(outm) != len(cases):
        ck.breaks.append("add_photons harness/model failed (exit %d/%d, %d/%d of %d lines)" % (rci, rcm, len(outi), len(outm), len(cases)))
    ck.coverage["add_photons"] = {"cases": len(cases), "mismatches": bad, "overflows": sum(1 for c in cases if c[0] + c[1] >= cap)}
    return len(cases)


def run(ck):
    res = guards(ck)
    if not ck.prove():
        guard_search(ck, res)
    d = ck.scratch
    tt = task_types()
    ok1, log1 = vf.coq_extract("C01", d)
    ok2, log2 = (False, "") if not ok1 else vf.ocaml_build(d, ["c01_model"], os.path.join(vf.VERIF, "ocaml/c01_driver.ml"), "validator")
    okb, logb = vf.repo_ninja(["CMacIonize"])
    if not (ok1 and ok2):
        ck.breaks.append("model extraction/build failed:\n" + (log1 + log2)[-1500:])
    if not okb:
        ck.breaks.append("whole binary does not build:\n" + logb[-1500:])
    if not (ok1 and ok2 and okb):
        ck.resolve_breaks_without_input()
        return
    exe = os.path.join(vf.REPOBUILD, "rundir", "CMacIonize")
    val = os.path.join(d, "validator")
    nsrc = (source_side(ck, d) or 0) + memory_side(ck, d)
    cfgs = configs(ck.quick)
    if any(v["key"].get("kind") == "source_split" for v in ck.violations):
        # the request is not split exactly: whole-binary runs would only hang; a few are enough to show it end to end
        cfgs = cfgs[:2]
    results = []
    with ThreadPoolExecutor(max_workers=4) as ex:
        futs = [ex.submit(run_one, exe, val, d, c, tt) for c in cfgs]
        if not ck.quick:   # more interleavings of the multi-threaded configurations
            futs += [ex.submit(run_one, exe, val, d, (c[0] + "_rep%d" % k,) + c[1:], tt) for c in cfgs if c[3] > 1 for k in range(3)]
        # the same configurations without the step lock: only the end-of-iteration census of the real code is checked
        futs += [ex.submit(run_one, exe, val, d, (c[0] + "_free",) + c[1:], tt, False, False) for c in cfgs if c[3] > 1]
        for f in futs:
            results.append(f.result())
    # the O7 schedule on the real binary: with the perturbation hook the repaired loop must still finish
    hung = sum(1 for r in results if r["rc"] in (124, 153, -25, 137))
    o7 = [] if hung >= 2 else [c for c in cfgs if c[0].startswith("ion_1subgrid_400_t4") or c[0].startswith("ion_1subgrid_400_t2")]
    reps = 4 if ck.quick else 16
    for c in o7[:1]:
        for k in range(reps):
            r = run_one(exe, val, d, (c[0] + "_hold%d" % k,) + c[1:], tt, perturb=True, serialize=False)
            results.append(r)
            if r["rc"] in (124, 153, -25):
                ck.violation("C01: with a thread that fetched a flush task in the else branch delayed until the run flag is cleared, the NEXT iteration never finishes: a fetched task was dropped and its dependency stays locked",
                             {"config": c[0], "threads": c[3], "perturbation": "CMI_VERIF_HOLD_ELSE_FLUSH", "exit": r["rc"]}, key={"kind": "else_fetch_dropped"})
    nlabels = sum(r["labels"] for r in results)
    ck.coverage["traversal_tasks_with_packet_fates_checked"] = sum(r.get("fates_checked", 0) for r in results)
    hist = {}
    sigs = set()
    # The trace validator matches logged fetches to model queue entries by (type, subgrid, packet count); with 4 threads about 1 run
    # in 40 of the unchanged code is rejected although the run is regular (two equal buffers for one subgrid in flight and task indices
    # being re-used; see DESIGN 11.3).  A rejection that says nothing about packets (no census / fate / exit-status error) is therefore
    # only reported when the same configuration is rejected again in two fresh runs; every rejection is counted in the evidence.
    is_oracle = lambda e: "REAL code" in e or "exits with status" in e or "traversal of a buffer" in e
    cfg_by_name = {}
    for c in cfgs:
        for suffix in [""] + ["_rep%d" % k for k in range(3)]:
            cfg_by_name[c[0] + suffix] = c
    nrej = nrej_repro = 0
    for r in results:
        if r["errors"] and not any(is_oracle(e) for e in r["errors"]) and r["name"] in cfg_by_name and r["rc"] == 0:
            nrej += 1
            c = cfg_by_name[r["name"]]
            again = [run_one(exe, val, d, (r["name"] + "_again%d" % k,) + c[1:], tt) for k in range(2)]
            if all(a["errors"] and not any(is_oracle(e) for e in a["errors"]) for a in again):
                nrej_repro += 1
            else:
                bad = [a for a in again if any(is_oracle(e) for e in a["errors"])]
                r["errors"] = bad[0]["errors"] if bad else []
                r["labels"] = 0
    ck.coverage["validator_rejections"] = {"first_run": nrej, "reproduced_in_two_fresh_runs": nrej_repro}
    for r in results:
        for k, v in r["hist"].items():
            hist[k] = hist.get(k, 0) + v
        if r["labels"] and not r["errors"]:
            sigs.add((re.sub(r"_hold\d+$", "", r["name"]), tuple(sorted(r["hist"].items()))))
        for e in r["errors"]:
            if r["rc"] in (124, 153, -25) and any(v["key"].get("kind") == "else_fetch_dropped" for v in ck.violations):
                continue
            if "REAL code" in e or "exits with status" in e or "traversal of a buffer" in e:
                ck.violation("C01 fails on the real binary (%s): %s" % (r["name"], e), {"config": r["name"], "error": e, "iterations": r["iterations"][:3]},
                             key={"kind": "iteration", "config": re.sub(r"_t\d+.*$", "", r["name"])})
            else:
                ck.breaks.append("trace of %s is not a run of the model: %s" % (r["name"], e))
    cov = ck.coverage
    cov["evaluations"] = nlabels + nsrc
    cov["distinct_nontrivial"] = len(sigs)
    cov["traces_validated_against_impl"] = sum(len(r["iterations"]) for r in results)
    cov["rule"] = ("evaluations = model steps replayed from hook traces of complete real runs (every fetch, task run, premature launch, termination test, exit of every thread of every iteration); "
                   "a trace is non-trivial when it was replayed without error and contains task runs; distinct = distinct (configuration, label histogram) pairs. Configurations: "
                   + ", ".join(sorted(set(re.sub(r"_t\d+.*$", "", c[0]) for c in cfgs))) + "; threads " + str(sorted(set(c[3] for c in cfgs))))
    cov["label_histogram"] = hist
    cov["runs"] = len(results)
    cov["samples"] = [{"config": r["name"], "iterations": r["iterations"][:2]} for r in results[:2]]
    ck.assumptions += ["task bodies are atomic in the model (lock discipline + C08); a real interleaving that is not a run of the model shows up as a replay error",
                       "extraction: ExtrOcamlBasic + ExtrOcamlNatInt (nat -> OCaml int); OCaml validator trusted for the tie",
                       "liveness is not proved; runs that do not finish within 60 s are reported"]
    ck.resolve_breaks_without_input()


def replay(ck, rp):
    d = ck.scratch
    tt = task_types()
    ok1, log1 = vf.coq_extract("C01", d)
    ok2, log2 = vf.ocaml_build(d, ["c01_model"], os.path.join(vf.VERIF, "ocaml/c01_driver.ml"), "validator")
    okb, logb = vf.repo_ninja(["CMacIonize"])
    exe = os.path.join(vf.REPOBUILD, "rundir", "CMacIonize")
    r = rp["replay"]
    if "add_photons_case" in r or "source_case" in r:
        ck.quick = True
        (memory_side if "add_photons_case" in r else source_side)(ck, d)
        kind = "add_photons_identity" if "add_photons_case" in r else "source_split"
        bad = [v for v in ck.violations if v["key"].get("kind") == kind]
        print("REPLAY:", bad[0]["what"] if bad else "property holds on this input")
        return 1 if bad else 0
    if "model_state" in r:
        res, err = regenerate()
        f = r["model_state"]
        cur = [x for x in G.search(res or {}) if all(x.get(k) == f.get(k) for k in f if k != "source")]
        print("REPLAY:", "the regenerated guard still differs from the model guard on this state: %r" % cur[0] if cur else "the guards agree on this state")
        return 1 if cur else 0
    cfgs = configs(False)
    name = re.sub(r"_hold\d+$", "", r.get("config", ""))
    c = [x for x in cfgs if x[0] == name] or [x for x in cfgs if x[0].startswith("ion_1subgrid_400_t4")]
    bad = 0
    for k in range(8):
        res = run_one(exe, os.path.join(d, "validator"), d, (c[0][0] + "_r%d" % k,) + c[0][1:], tt, perturb=("perturbation" in r))
        if res["rc"] != 0 or res["errors"]:
            bad += 1
            print(res["errors"][:2], res["rc"])
    print("REPLAY:", "property fails on the real binary (%d of 8 runs)" % bad if bad else "property holds on this input")
    return 1 if bad else 0
