# C17  exact geometric predicates: proof (Coq) + correspondence of the executable model with src/ExactGeometricTests.hpp
import os, json, math, itertools
from fractions import Fraction
import vf

LEVEL = "proof"
CLAIM = dict(cat="proof", design="§3 C17, Appendix A.6",
   text="Coq theorems for ALL point coordinates in [1,2): the exact orientation and in-sphere predicates return Z.sgn of the integer determinant of the 52-bit mantissas, which has the sign of the real (homogeneous) determinant; "
        "every intermediate stays below 2^162 resp. 2^272 so the fixed-width Boost integers are exact; any permutation of the 4/5 points multiplies the result by its parity (all 24/120 permutations); and FULL filter soundness "
        "(Flocq): whenever the binary64 filter with the error bound written in the header decides, its answer is the exact sign, it never answers 0, hence the adaptive predicates return the exact real sign. "
        "Tie: the real functions (with Boost.Multiprecision) and the extracted model are compared on random, exactly degenerate (lattice) and 1..1000-ulp perturbed inputs (exact sign, adaptive sign, whether the filter decided, "
        "filter answer), plus an independent big-integer oracle on every real output. Rescaling tie: the real NewVoronoiGrid is built (C15 harness) on boxes whose sides are / are not exactly representable fractions and every internal coordinate handed to the predicates (generators, wall copies, all-encompassing tetrahedron) must lie in [1,2).",
   note="Call sites: every orient3d/insphere call made by the Voronoi sources during real constructions is interposed (macro over the included sources) and its arguments must lie in [1,2). Trusted: Coq kernel, standard real/classical axioms and the PrimFloat/Uint63 specification axioms reported by Print Assumptions (through Flocq/Interval); extraction + OCaml driver for the correspondence. "
        "Assumes the ISO build the project uses (no -ffast-math/FMA contraction: the proved expression is the one in the header, operation by operation); inputs in [1,2) are a caller contract.",
   technique="Coq proof (integer determinants by ring/bounds, Flocq running-error analysis for the filter) + differential correspondence")
ONE = 0x3FF << 52
MANT = 1 << 52
MASK = MANT - 1


# ----------------------------------------------------------------------------
# independent oracle: sign of the exact determinant of the coordinates (rationals decoded from the bit patterns,
# generic Laplace expansion of the standard matrices; no mantissa trick, no particular expansion order)
def coord(bits):
    """exact value of the double with this bit pattern as an integer multiple of 2^-52 (only used for [1,2))"""
    f = Fraction(vf.bits_dbl(bits)) * MANT
    assert f.denominator == 1
    return f.numerator


def det(m):
    n = len(m)
    if n == 1:
        return m[0][0]
    if n == 2:
        return m[0][0] * m[1][1] - m[0][1] * m[1][0]
    s = 0
    for j in range(n):
        if m[0][j] == 0:
            continue
        minor = [row[:j] + row[j + 1:] for row in m[1:]]
        s += (-1) ** j * m[0][j] * det(minor)
    return s


def sgn(x):
    return (x > 0) - (x < 0)


def orient_oracle(w):
    """w: 12 bit patterns. sign of det [a-d; b-d; c-d]  (= det of the 4x4 matrix with rows (p,1)); the header's
    example (0,0,0),(0,0,1),(0,1,0),(1,0,0) -> +1 fixes the convention"""
    p = [[coord(w[3 * i + k]) for k in range(3)] for i in range(4)]
    return sgn(det([[p[i][k] - p[3][k] for k in range(3)] for i in range(3)]))


def insphere_oracle(w):
    """w: 15 bit patterns. sign of det [p-e, |p-e|^2] for p = a,b,c,d (Shewchuk's insphere matrix, which is the
    expression the header evaluates)"""
    p = [[coord(w[3 * i + k]) for k in range(3)] for i in range(5)]
    rows = []
    for i in range(4):
        dlt = [p[i][k] - p[4][k] for k in range(3)]
        rows.append(dlt + [sum(t * t for t in dlt)])
    return sgn(det(rows))


assert sgn(det([[0 - 1, 0, 0], [0 - 1, 0, 1], [0 - 1, 1, 0]])) == 1     # the example in the header's documentation


def perm_parity(p):
    inv = sum(1 for i in range(len(p)) for j in range(i + 1, len(p)) if p[i] > p[j])
    return -1 if inv & 1 else 1


# ----------------------------------------------------------------------------
# generators (mantissas; every coordinate is ONE | mantissa)
def clampm(m):
    return min(max(m, 0), MASK)


def rnd_mant(rng):
    r = rng.below(16)
    if r == 0:
        return rng.choice([0, 1, MASK, MASK - 1, 1 << 51, (1 << 51) - 1, (1 << 51) + 1])
    return rng.next() & MASK


def lattice_plane(rng):
    """four exactly coplanar points on a lattice of step 2^(52-L) (coordinates 1 + k 2^-L)"""
    L = rng.choice([10, 10, 16, 24, 32, 40, 52])
    n = 1 << L
    span = max(2, n >> 4)
    while True:
        o = [n // 4 + rng.below(n // 2) for _ in range(3)]
        u = [rng.below(2 * span // 7 + 1) - span // 7 for _ in range(3)]
        v = [rng.below(2 * span // 7 + 1) - span // 7 for _ in range(3)]
        pts = []
        for _ in range(4):
            i, j = rng.below(7) - 3, rng.below(7) - 3
            pts.append([o[k] + i * u[k] + j * v[k] for k in range(3)])
        if all(0 <= c < n for p in pts for c in p):
            sh = 52 - L
            return [[c << sh for c in p] for p in pts]


def vertical_plane(rng):
    """four exactly coplanar lattice points in a plane that contains a coordinate direction (u in a coordinate plane, v along the
    third axis): every 2x2 minor of the expansion along that axis cancels exactly, so the filter must rely on the magnitude of
    the PRODUCTS, not of the differences (case split of the error-bound lemma: |a*b - c*d| << |a*b| + |c*d|)"""
    L = rng.choice([10, 16, 24, 32, 40, 52])
    n = 1 << L
    span = max(2, n >> 4)
    ax = rng.below(3)
    while True:
        o = [n // 4 + rng.below(n // 2) for _ in range(3)]
        u = [rng.below(2 * span // 7 + 1) - span // 7 for _ in range(3)]
        u[ax] = 0
        v = [0, 0, 0]
        v[ax] = rng.below(2 * span // 7 + 1) - span // 7
        pts = []
        for _ in range(4):
            i, j = rng.below(7) - 3, rng.below(7) - 3
            pts.append([o[k] + i * u[k] + j * v[k] for k in range(3)])
        if all(0 <= c < n for p in pts for c in p):
            sh = 52 - L
            return [[c << sh for c in p] for p in pts]


SPHERE_VECS = {
    9: [(3, 0, 0), (1, 2, 2)],
    49: [(7, 0, 0), (2, 3, 6)],
    81: [(9, 0, 0), (1, 4, 8), (4, 4, 7), (3, 6, 6)],
    121: [(11, 0, 0), (2, 6, 9), (6, 6, 7)],
    169: [(13, 0, 0), (3, 4, 12), (5, 12, 0)],
    3: [(1, 1, 1)],
    14: [(1, 2, 3)],
    26: [(0, 1, 5), (1, 3, 4)],
}


def lattice_sphere(rng):
    """five exactly cospherical lattice points: signed permutations of integer vectors of equal norm around a lattice centre"""
    L = rng.choice([10, 10, 16, 24, 32, 40, 52])
    n = 1 << L
    key = rng.choice(sorted(SPHERE_VECS))
    vecs = SPHERE_VECS[key]
    rmax = max(max(v) for v in vecs)
    t = 1 + rng.below(max(1, (n // 4) // rmax))
    while True:
        o = [n // 4 + rng.below(n // 2) for _ in range(3)]
        pts = set()
        tries = 0
        while len(pts) < 5 and tries < 200:
            tries += 1
            v = list(rng.choice(vecs))
            pm = rng.choice(list(itertools.permutations(range(3))))
            v = [v[pm[k]] * (1 - 2 * rng.below(2)) for k in range(3)]
            pts.add(tuple(o[k] + t * v[k] for k in range(3)))
        pts = sorted(pts)
        if len(pts) == 5 and all(0 <= c < n for p in pts for c in p):
            # shuffle deterministically
            order = list(range(5))
            for i in range(4, 0, -1):
                j = rng.below(i + 1)
                order[i], order[j] = order[j], order[i]
            sh = 52 - L
            return [[c << sh for c in pts[i]] for i in order]


def perturb(rng, pts):
    """move 1..all coordinates by 1..1000 ulp (1 ulp = 1 in the mantissa for every double in [1,2))"""
    pts = [list(p) for p in pts]
    how = rng.below(3)
    cells = [(i, k) for i in range(len(pts)) for k in range(3)]
    if how == 0:
        sel = [rng.choice(cells)]
    elif how == 1:
        sel = [rng.choice(cells) for _ in range(3)]
    else:
        sel = cells
    for (i, k) in sel:
        amt = rng.choice([1, 1, 2, 3, 10, 100, 1000, 1 + rng.below(1000)])
        pts[i][k] = clampm(pts[i][k] + (amt if rng.below(2) else -amt))
    return pts


def mant_of_float(x):
    x = min(max(x, 1.0), math.nextafter(2.0, 0.0))
    return vf.dbl_bits(x) & MASK


def near_plane(rng):
    """three random points and a fourth that is an affine combination rounded to binary64 (coplanar up to rounding)"""
    p = [[1.0 + rng.uniform() for _ in range(3)] for _ in range(3)]
    while True:
        s, t = rng.uniform() * 1.4 - 0.2, rng.uniform() * 1.4 - 0.2
        d = [p[0][k] + s * (p[1][k] - p[0][k]) + t * (p[2][k] - p[0][k]) for k in range(3)]
        if all(1.0 <= c < 2.0 for c in d):
            break
    pts = p + [d]
    return [[mant_of_float(c) for c in q] for q in pts]


def near_sphere(rng):
    """five points on a sphere up to the rounding of the coordinates"""
    c = [1.3 + 0.4 * rng.uniform() for _ in range(3)]
    r = 0.02 + 0.25 * rng.uniform()
    pts = []
    while len(pts) < 5:
        v = [rng.uniform() * 2 - 1 for _ in range(3)]
        nv = math.sqrt(sum(t * t for t in v))
        if nv < 0.1 or nv > 1:
            continue
        pts.append([c[k] + r * v[k] / nv for k in range(3)])
    return [[mant_of_float(t) for t in q] for q in pts]


def special(rng, npts):
    """duplicates, collinear, extreme mantissas"""
    r = rng.below(5)
    if r == 0:
        p = [rnd_mant(rng) for _ in range(3)]
        return [list(p) for _ in range(npts)]
    if r == 1:
        pts = [[rnd_mant(rng) for _ in range(3)] for _ in range(npts)]
        pts[rng.below(npts)] = list(pts[rng.below(npts)])
        return pts
    if r == 2:
        return [[rng.choice([0, MASK]) for _ in range(3)] for _ in range(npts)]
    if r == 3:
        o = [1 << 50] * 3
        u = [rng.below(1 << 40), rng.below(1 << 40), rng.below(1 << 40)]
        return [[o[k] + i * u[k] for k in range(3)] for i in range(npts)]
    return [[rng.choice([0, 1, MASK, MASK - 1, rng.next() & MASK]) for _ in range(3)] for _ in range(npts)]


def threshold(rng, pts):
    """correspondence of the error bound itself: move one coordinate of a degenerate configuration by 10^3..10^9 ulp so that
    |result| sweeps across errbound = 1e-10 * magnitude (outside the 1..1000 ulp of the property's quantifier on purpose)"""
    pts = [list(p) for p in pts]
    i, k = rng.below(len(pts)), rng.below(3)
    amt = int(10.0 ** (3.0 + 6.0 * rng.uniform()))
    pts[i][k] = clampm(pts[i][k] + (amt if rng.below(2) else -amt))
    return pts


OMODES = ["random", "lattice-coplanar", "coplanar+ulps", "rounded-coplanar", "special", "filter-threshold", "axis-plane+ulps"]
IMODES = ["random", "lattice-cospherical", "cospherical+ulps", "rounded-cospherical", "special", "coplanar-base", "filter-threshold"]


def gen_orient(rng, mode):
    if mode == 0:
        return [[rnd_mant(rng) for _ in range(3)] for _ in range(4)]
    if mode == 1:
        return lattice_plane(rng)
    if mode == 2:
        return perturb(rng, lattice_plane(rng))
    if mode == 3:
        return near_plane(rng)
    if mode == 5:
        return threshold(rng, near_plane(rng) if rng.below(2) else lattice_plane(rng))
    if mode == 6:
        v = vertical_plane(rng)
        return v if rng.below(4) == 0 else perturb(rng, v)
    return special(rng, 4)


def gen_insphere(rng, mode):
    if mode == 0:
        return [[rnd_mant(rng) for _ in range(3)] for _ in range(5)]
    if mode == 1:
        return lattice_sphere(rng)
    if mode == 2:
        return perturb(rng, lattice_sphere(rng))
    if mode == 3:
        return near_sphere(rng)
    if mode == 4:
        return special(rng, 5)
    if mode == 6:
        return threshold(rng, near_sphere(rng) if rng.below(2) else lattice_sphere(rng))
    return lattice_plane(rng) + [[rnd_mant(rng) for _ in range(3)]]


def line_of(tag, pts):
    return tag + " " + " ".join("%016x" % (ONE | m) for p in pts for m in p)


def P(*ks, sh=42):
    return [[k << sh for k in p] for p in ks]


CORPUS = [
    # the example of the header's documentation, on the lattice 1 + k 2^-52 and 1 + k 2^-10
    ("O", P((0, 0, 0), (0, 0, 1), (0, 1, 0), (1, 0, 0), sh=0)),
    ("O", P((0, 0, 0), (0, 0, 1), (0, 1, 0), (1, 0, 0))),
    ("O", P((0, 0, 0), (0, 1, 0), (0, 0, 1), (1, 0, 0))),
    # exactly coplanar, all coordinates different
    ("O", P((100, 200, 300), (110, 220, 330), (105, 190, 310), (115, 210, 340))),
    # largest possible magnitude: corners of the cube
    ("O", [[0, 0, 0], [MASK, 0, 0], [0, MASK, 0], [0, 0, MASK]]),
    ("O", [[MASK, MASK, MASK], [0, MASK, MASK], [MASK, 0, MASK], [MASK, MASK, 0]]),
    # unit tetrahedron (negative orientation) and points inside / on / outside its circumsphere
    ("I", P((500, 500, 500), (501, 500, 500), (500, 501, 500), (500, 500, 501), (500, 500, 500))),
    ("I", P((500, 500, 500), (502, 500, 500), (500, 502, 500), (500, 500, 502), (501, 501, 501))),
    ("I", P((500, 500, 500), (502, 500, 500), (500, 502, 500), (500, 500, 502), (502, 502, 502))),
    ("I", P((500, 500, 500), (502, 500, 500), (500, 502, 500), (500, 500, 502), (503, 502, 502))),
    ("I", P((500, 500, 500), (500, 502, 500), (502, 500, 500), (500, 500, 502), (501, 501, 501))),
    # largest magnitude for the in-sphere determinant
    ("I", [[0, 0, 0], [MASK, 0, 0], [0, MASK, 0], [0, 0, MASK], [MASK, MASK, MASK]]),
    ("I", [[MASK, MASK, 0], [MASK, 0, MASK], [0, MASK, MASK], [0, 0, 0], [MASK, MASK, MASK]]),
]


def words(line):
    return [int(x, 16) for x in line.split()[1:]]


def oracle_line(line):
    f = line.split()
    if f[0] == "O":
        return orient_oracle(words(line))
    if f[0] == "I":
        return insphere_oracle(words(line))
    return None


def check_real_line(line, out):
    """property C17 on one line of output of the real code; returns None or the failing clause"""
    f = line.split()
    o = out.split()
    if f[0] == "M":
        b = int(f[1], 16)
        if len(o) != 2 or int(o[1]) != (b & MASK):
            return "get_mantissa: returned %s for bits %016x, the 52 bit mantissa is %d" % (o[1:] and o[1], b, b & MASK)
        return None
    if len(o) != 5 or o[0] != f[0]:
        return "harness produced no result (%r)" % out
    ex, ad, dec, fv = int(o[1]), int(o[2]), int(o[3]), int(o[4])
    want = oracle_line(line)
    name = "orient3d" if f[0] == "O" else "insphere"
    if dec == 1 and fv != want:
        return "filter: %s_adaptive's floating point filter decided %d but the exact sign is %d" % (name, fv, want)
    if ex != want:
        return "exact: %s_exact returned %d but the sign of the exact determinant is %d" % (name, ex, want)
    if ad != want:
        return "adaptive: %s_adaptive returned %d but the sign of the exact determinant is %d" % (name, ad, want)
    return None


def build(ck):
    d = ck.scratch
    ok1, log1 = vf.coq_extract("C17", d)
    ok2, log2 = (False, "") if not ok1 else vf.ocaml_build(d, ["c17_model"], os.path.join(vf.VERIF, "ocaml/c17_driver.ml"), "model", floats=True)
    ok3, log3 = vf.cxx_build(os.path.join(vf.VERIF, "harness/c17/exact_harness.cpp"), os.path.join(d, "impl"), openmp=False)
    return ok1 and ok2, log1 + log2, ok3, log3


def rescaling_precondition(ck):
    """third mechanism of the property: the Voronoi grid rescales every coordinate it hands to the predicates into [1,2) (where the 52-bit
    mantissa IS the coordinate).  The real NewVoronoiGrid is built on boxes whose sides are and are not representable fractions and the
    internal representation (generators, wall copies, all-encompassing tetrahedron) is read back through the C15 harness."""
    import c15
    d = os.path.join(ck.scratch, "rescale")
    os.makedirs(d, exist_ok=True)
    ok3, log3 = vf.cxx_build(c15.HARNESS, os.path.join(d, "impl"), libs=False, openmp=True)
    if not ok3:
        ck.breaks.append("rescaling harness (harness/c15/voronoi_harness.cpp) does not compile against /repo/src:\n" + log3[-1500:])
        return 0
    rng = ck.rng
    boxes = [((0., 0., 0.), (s, s, s)) for s in (1., 1.2, 1.3, 2., 2.5, 3., 5., 7., 10., 20., 100., 0.1, 1e-5, 3.086e17)]
    boxes += [((-1.3, 2.7, 1000.), (1.2, 2.5, 5.)), ((1e-3, 2e-3, -5e-4), (1e-5, 3e-5, 2e-5))]
    for _ in range(20 if ck.quick else 200):
        a, sd = c15.gen_box(rng, c15.BOX_KINDS[rng.below(len(c15.BOX_KINDS))])
        boxes.append((tuple(a), tuple(sd)))
    probs = [dict(cls="rescale", box="-", anchor=a, sides=sd, pts=[c15.inbox(a, sd, (0.3, 0.4, 0.6)), c15.inbox(a, sd, (0.7, 0.2, 0.5)), c15.inbox(a, sd, (1.0, 1.0, 1.0)), c15.inbox(a, sd, (0.0, 0.0, 0.0))], qs=[], label="") for a, sd in boxes]
    rc, res = c15.run_harness(os.path.join(d, "impl"), probs, lambda p: ["N1"], env={"C15_ALARM": "20"})
    n = ncalls = 0
    for p, r in zip(probs, res):
        N = r.get("N1")
        if not N or N.get("P") is None:
            continue
        n += 1
        if N["P"][0] != 1:
            corners = [c15.bd(x) for x in N["T"]]
            off = [c for c in corners if not (1.0 <= c < 2.0)]
            ck.violation("C17 (rescaling into [1,2)): NewVoronoiGrid hands the exact predicates a coordinate outside [1,2) for the box anchor %r sides %r: %r among the internal coordinates of the "
                         "all-encompassing tetrahedron %r - the 52-bit mantissa read by ExactGeometricTests is then not the coordinate (2.0 reads as 1.0), so orient3d/insphere answer for a different point"
                         % (p["anchor"], p["sides"], off[:4], corners), {"rescale_box": {"anchor": list(p["anchor"]), "sides": list(p["sides"])}}, key={"kind": "rescaling_out_of_range"})
            break
        Q = N.get("Q")
        if Q is not None:
            ncalls += Q[0]
            if Q[1] > 0:
                ck.violation("C17 (rescaling into [1,2)): while NewVoronoiGrid builds the grid of 4 generators in the box anchor %r sides %r, %d coordinates handed to orient3d/insphere (%d calls) lie outside [1,2), "
                             "e.g. %r - a call site passes unscaled coordinates; the 52-bit mantissa read by ExactGeometricTests is then not the coordinate, so an undecided (degenerate) case gets the sign of a different point"
                             % (p["anchor"], p["sides"], Q[1], Q[0], Q[2]), {"rescale_box": {"anchor": list(p["anchor"]), "sides": list(p["sides"])}}, key={"kind": "rescaling_out_of_range"})
                break
    ck.coverage["rescaling_predicate_calls_observed"] = ncalls
    ck.coverage["rescaling_boxes_checked"] = n
    return n


def run(ck):
    ok_proof = ck.prove(timeout=1400)
    rescaling_precondition(ck)
    d = ck.scratch
    okm, logm, ok3, log3 = build(ck)
    ck.log("built: model=%s harness=%s" % (okm, ok3))
    if not ok3:
        ck.breaks.append("harness does not compile against /repo/src/ExactGeometricTests.hpp:\n" + log3[-2000:])
    if not okm:
        ck.breaks.append("model extraction/build failed:\n" + logm[-2000:])
    rng = ck.rng
    n_o = 2400 if ck.quick else 24000
    n_i = 2100 if ck.quick else 17500
    n_po = 3 if ck.quick else 12        # per mode: cases run under all 24 permutations
    n_pi = 2 if ck.quick else 6         # per mode: cases run under all 120 permutations
    lines, meta = [], []               # meta: (kind, mode, group id or None, parity)
    for tag, pts in CORPUS:
        lines.append(line_of(tag, pts))
        meta.append((tag, "corpus", None, 1))
    # mantissa extraction: boundary patterns + random ones in [1,2)
    for m in [0, 1, MASK, MASK - 1, 1 << 51, (1 << 51) - 1, (1 << 51) | 1, 0x5555555555555 & MASK, 0xAAAAAAAAAAAAA & MASK] + [rng.next() & MASK for _ in range(200)]:
        lines.append("M %016x" % (ONE | m))
        meta.append(("M", "mantissa", None, 1))
    gid = 0
    for i in range(n_o):
        mode = i % len(OMODES)
        pts = gen_orient(rng, mode)
        lines.append(line_of("O", pts))
        meta.append(("O", OMODES[mode], None, 1))
    for i in range(n_i):
        mode = i % len(IMODES)
        pts = gen_insphere(rng, mode)
        lines.append(line_of("I", pts))
        meta.append(("I", IMODES[mode], None, 1))
    for mode in range(len(OMODES)):
        for _ in range(n_po):
            pts = gen_orient(rng, mode)
            gid += 1
            for p in itertools.permutations(range(4)):
                lines.append(line_of("O", [pts[j] for j in p]))
                meta.append(("O", OMODES[mode], gid, perm_parity(p)))
    for mode in range(len(IMODES)):
        for _ in range(n_pi):
            pts = gen_insphere(rng, mode)
            gid += 1
            for p in itertools.permutations(range(5)):
                lines.append(line_of("I", [pts[j] for j in p]))
                meta.append(("I", IMODES[mode], gid, perm_parity(p)))
    text = "\n".join(lines) + "\n"
    cov = ck.coverage
    out_i = out_m = None
    ck.log("generated %d input lines" % len(lines))
    if ok3:
        rc_i, out_i = vf.run_lines([os.path.join(d, "impl")], text, timeout=900)
        if rc_i != 0 or len(out_i) != len(lines):
            ck.breaks.append("implementation harness exited with %d after %d of %d lines" % (rc_i, len(out_i), len(lines)))
    if okm:
        rc_m, out_m_raw = vf.run_lines([os.path.join(d, "model")], text, timeout=900)
        out_m = [l.split(" #")[0] for l in out_m_raw]
        tags = [l.split(" #")[1] if " #" in l else "" for l in out_m_raw]
        if rc_m != 0 or len(out_m) != len(lines):
            ck.breaks.append("model driver exited with %d after %d of %d lines" % (rc_m, len(out_m), len(lines)))
        # executable side conditions of the model: fixed width = ideal (no overflow), inputs in range
        novf = sum(1 for k, t in enumerate(tags) if "ideal=" in t and t.split("ideal=")[1].split()[0] != out_m[k].split()[1])
        if novf:
            ck.breaks.append("fixed width integer determinant differs from the ideal one on %d inputs (overflow)" % novf)
        nout = sum(1 for t in tags if "inrange=false" in t)
        if nout:
            ck.breaks.append("generator produced %d inputs outside [1,2)" % nout)
    ck.log("implementation and model have run")
    reported = set()

    def report(k, why):
        if k in reported or len(reported) >= 3:
            return
        reported.add(k)
        ck.violation("C17 fails on the real ExactGeometricTests: %s; input %s -> %s" % (why, lines[k], out_i[k] if k < len(out_i) else None),
                     {"line": lines[k], "impl_out": out_i[k] if k < len(out_i) else None, "failing_clause": why,
                      "oracle_sign": oracle_line(lines[k])},
                     key={"kind": "predicate", "clause": why.split(":")[0]})

    mism = 0
    if out_i is not None and out_m is not None:
        n = min(len(out_i), len(out_m), len(lines))
        hist = {}
        nontriv = set()
        per_mode = {}
        for k in range(n):
            if out_i[k] != out_m[k]:
                mism += 1
                if mism <= 5:
                    why = check_real_line(lines[k], out_i[k])
                    desc = "model and ExactGeometricTests.hpp disagree on %s: impl=%r model=%r" % (lines[k], out_i[k], out_m[k])
                    if why:
                        report(k, why)
                    else:
                        ck.breaks.append("correspondence C17 model <-> ExactGeometricTests.hpp: " + desc)
            kind, mode, g, par = meta[k]
            if kind in "OI":
                o = out_m[k].split()
                cls = "zero (exact needed)" if o[1] == "0" else ("filter decided" if o[3] == "1" else "exact needed, non-zero")
                hk = ("orient3d: " if kind == "O" else "insphere: ") + cls
                hist[hk] = hist.get(hk, 0) + 1
                pm = per_mode.setdefault(("orient3d/" if kind == "O" else "insphere/") + mode, [0, 0, 0])
                pm[0 if o[3] == "1" else (2 if o[1] == "0" else 1)] += 1
                if o[3] == "0":
                    nontriv.add(lines[k])
        cov["evaluations"] = sum(1 for k in range(n) if meta[k][0] in "OI")
        cov["distinct_nontrivial"] = len(nontriv)
        cov["rule"] = ("inputs = points with all coordinates in [1,2) as bit patterns from SplitMix64(VERIF_SEED): orient3d modes %s; insphere modes %s "
                       "(lattices 1+k*2^-L, L in 10..52; '+ulps' moves 1, 3 or all coordinates by 1..1000 ulp; 'rounded' = degenerate up to coordinate rounding; 'filter-threshold' moves one coordinate of a degenerate configuration by 1e3..1e9 ulp so that |result| sweeps across errbound); "
                       "%d/%d cases per mode additionally under all 24/120 argument permutations. evaluations = predicate inputs on which the four outputs "
                       "(exact sign, adaptive sign, filter decided, filter answer) of the real functions and of the extracted model are compared; "
                       "an input is non-trivial when the filter could not decide (determinant exactly 0 or inside the error bound); distinct = distinct such input lines"
                       % (OMODES, IMODES, n_po, n_pi))
        cov["class_histogram"] = hist
        cov["per_mode [filter decided, exact needed non-zero, zero]"] = per_mode
        cov["mantissa_inputs"] = sum(1 for m_ in meta if m_[0] == "M")
        cov["line_mismatches"] = mism
        cov["samples"] = [{"in": lines[k], "impl_out": out_i[k]} for k in (0, len(CORPUS) + 300, len(CORPUS) + 301)]
    # the property itself on every output of the real code (independent big integer oracle): always, not only on a break
    if out_i is not None:
        bad = 0
        n = min(len(out_i), len(lines))
        first = {}
        for k in range(n):
            why = check_real_line(lines[k], out_i[k])
            if why:
                bad += 1
                report(k, why)
            kind, mode, g, par = meta[k]
            if g is not None and why is None:
                o = out_i[k].split()
                if g not in first:
                    first[g] = (int(o[1]), int(o[2]))      # identity permutation comes first
                else:
                    e0, a0 = first[g]
                    if int(o[1]) != par * e0 or int(o[2]) != par * a0:
                        bad += 1
                        report(k, "permutation: result %s under a permutation of parity %d, identity order gave exact=%d adaptive=%d" % (out_i[k], par, e0, a0))
        cov["oracle_checked_outputs"] = n
        ck.log("oracle: %d outputs of the real code checked, %d failures" % (n, bad))
        cov["oracle_failures"] = bad
        cov["permutation_groups"] = len(first)
        if bad and not ck.violations:
            ck.breaks.append("oracle failures without a reportable line")
    ck.assumptions += [
        "hand model of ExactGeometricTests.hpp (coq/Cxx/C17_Defs.v) tied to the header by this run: four outputs per input compared, 'filter decided' observed on the real "
        "filter code through a second compilation of the header whose exact fall back throws",
        "binary64 arithmetic of the model is Coq's PrimFloat (FloatAxioms link it to SpecFloat/Flocq's binary_float); it is extracted through ExtrOCamlFloats to OCaml's float; "
        "the harness is compiled as the repository is (-std=c++11, hence -ffp-contract=off, SSE2 doubles): a build with -ffast-math (ACTIVATE_FAST_MATH) or FMA contraction "
        "evaluates a different expression; C17_filter_sound leaves a factor ~4e4 between the proved rounding error and 1e-10, but that is not proved for such builds",
        "an unchecked fixed width cpp_int drops the bits above its width; only used to make an overflow visible (C17_no_overflow_* shows it never happens for mantissas < 2^52)",
        "inputs outside [1,2) are outside the property (get_mantissa ignores sign and exponent; nothing in the header checks the range); the callers normalise coordinates first",
        "all of (i)-(v) are proved for all inputs in range; nothing is left partial (C17_filter_sound is the full theorem of DESIGN A.6 instantiated for both filters)",
    ]
    ck.resolve_breaks_without_input()


def replay(ck, rp):
    if "rescale_box" in rp.get("replay", {}):
        ck.quick = True
        rescaling_precondition(ck)
        bad = [v for v in ck.violations if v["key"].get("kind") == "rescaling_out_of_range"]
        print("REPLAY:", bad[0]["what"] if bad else "property holds on this input")
        return 1 if bad else 0
    okm, logm, ok3, log3 = build(ck)
    line = rp["replay"]["line"]
    rc, out = vf.run_lines([os.path.join(ck.scratch, "impl")], line + "\n")
    why = check_real_line(line, out[0] if out else "")
    print("\n".join(out))
    print("oracle sign:", oracle_line(line))
    print("REPLAY:", why or "property holds on this input")
    return 1 if why else 0
