# C06  ionization and thermal balance return a physical state:
#      proof (Coq, reals + binary64 facts) + bit-exact correspondence of the extracted binary64 model with the
#      real IonizationStateCalculator / TemperatureCalculator functions + property oracle on the real outputs.
import os, math, json, struct
from fractions import Fraction
import decimal
import vf

LEVEL = "proof"
# which variant of the three repaired sites the code under test is expected to be (d6_pinned, d6t_pinned, d9_pinned):
# "1" = pinned commit, "0" = repaired code (hooks/c06_fix_d6.patch, hooks/c06_fix_d6t.patch, hooks/c06_fix_d9.patch).
# Flipped by the coordinator when the fix commits land.
PINNED = ("0", "1", "0")
if os.environ.get("C06_PINNED"):        # only for testing the fix patches in a scratch worktree: C06_PINNED=0,0,0
    PINNED = tuple(os.environ["C06_PINNED"].split(","))

CLAIM = dict(cat="proof", design="§3 C06, §8 D6/D9",
   text="One Coq model (generic over the scalar type; instantiated with R for theorems and with PrimFloat binary64 for execution) of "
        "compute_ionization_state_hydrogen, the coupled H/He fixed-point loop (fuelled, abort explicit), compute_ionization_states_metals, the "
        "per-cell calculate_ionization_state and the control logic of TemperatureCalculator::calculate_temperature (cooling/heating balance = "
        "arbitrary oracle). Over R: the hydrogen-only neutral fraction solves n*alpha*(1-x)^2 = J*x, lies in (0,1), is strictly decreasing in J "
        "and increasing in n*alpha inside each branch (a 5e-11 seam between the branches is exhibited), series-branch defect <= 2x, range "
        "[1e-14,1]; every coolant fraction is in [0,1] and the tracked stages of an element sum to <= 1 when ne > 0 and the recombination rates "
        "are > 0; one H/He iteration maps (0,1]x(-inf,1] into (0,1)x(0,1] when C_H > 0; for EVERY balance oracle the returned temperature is "
        "500 K or in [T_min,30000] after <= maxit iterations. Binary64 (all doubles, NaN included): hydrogen result is a number >= 1e-14, "
        "returned temperature is a number <= 30000. Refuted on the pinned variants with vm_compute witnesses replayed on the real code: NaN "
        "coolant fractions for 0 < jH < 1e-20 (D6) and loss of all digits by cancellation in the hydrogen-only root (D9); both repaired in "
        "/repo (model variant chosen by PINNED), the repaired variants are proved equal over R / finite on the witness. The extracted binary64 "
        "instance is compared bit for bit with the real functions (compiled with -fno-builtin -ffp-contract=off) on generated inputs on every "
        "run, and an independent property oracle (range, stage sums, temperature bounds, no abort, exact-rational balance root, monotone "
        "ladders) is evaluated on every output of the real code.",
   note="Trusted: Coq kernel + standard-library real-number/classical axioms and the PrimFloat axioms (reported per theorem), extraction "
        "(ExtrOcamlBasic/ExtrOCamlFloats) and OCaml/glibc libm for the correspondence only. Partial: theorems over R idealise rounding; the "
        "bound <= 1 of the hydrogen function is proved over R only; C_H > 0 is a hypothesis of the H/He step theorem; `never aborts within 20 "
        "iterations' and `fractions stay in [0,1]' for the coupled loop are EXPLORATION (regular sweep of the real function over the stated "
        "domain: 492k points thorough, no abort, <= 12 iterations, largest excursion he0-1 = 2.6e-9; for helium abundance >= 0.8 with hard "
        "spectra the loop returns h0 > 1 or NaN - outside the generators' domain AHe <= 0.6). Range tolerance 1e-8. cmac_assert is compiled "
        "out and not modelled. Rates, cross sections and the cooling function are oracles (C18). Note (not a violation, inside the bounds): "
        "with 0 < jH < 1e-20 calculate_temperature returns 30000 K for a fully neutral cell (hooks/c06_fix_d6t.patch, not applied).",
   technique="generic-scalar Coq model (R + PrimFloat instances), nra/field proofs, FloatAxioms case analysis, vm_compute refutation witnesses, extracted-model differential correspondence with an oracle subprocess, exact-rational reference")

HX = "%016x"


def hx(x):
    return HX % vf.dbl_bits(float(x))


def un(s):
    return vf.bits_dbl(int(s, 16))


def canon(line):
    """all NaNs are one value (sign/payload differ between SSE and OCaml's Float64); everything else stays a bit pattern"""
    out = []
    for t in line.split():
        if len(t) == 16:
            try:
                b = int(t, 16)
                if (b >> 52) & 0x7ff == 0x7ff and b & ((1 << 52) - 1):
                    t = "NaN"
            except ValueError:
                pass
        out.append(t)
    return " ".join(out)


NU0 = 3.289e15
NU_H = 3.288e15       # DensitySubGrid.hpp: heating term uses these two thresholds
NU_HE = 5.948e15
FREQS = [NU0 * (1.0 + 3.0 * k / 23.0) for k in range(24)]       # 13.6 .. 54.4 eV
ALPHA_H = lambda T: 4.18e-19 * (T / 1e4) ** -0.7                 # only used to aim generators; inputs are arbitrary anyway
ALPHA_HE = lambda T: 4.3e-19 * (T / 1e4) ** -0.7
IONS = ["H_n", "He_n", "C_p1", "C_p2", "N_n", "N_p1", "N_p2", "O_n", "O_p1", "Ne_n", "Ne_p1", "S_p1", "S_p2", "S_p3"]
GROUPS = {"C": (2, 3), "N": (4, 5, 6), "O": (7, 8), "Ne": (9, 10), "S": (11, 12, 13)}


def logu(rng, lo, hi):
    return 10.0 ** (math.log10(lo) + rng.uniform() * (math.log10(hi) - math.log10(lo)))


# ---------------------------------------------------------------------------------------------------------
# generators
def spectrum(rng, xs, kind=None):
    """a non-negative spectrum on the 24 frequency bins -> (mean[14], heatH, heatHe) for unit path length,
    exactly how update_intensity_counters accumulates them: sum w*sigma_ion(nu), sum w*sigma_H(nu)*(nu-nu_H)"""
    kind = rng.below(6) if kind is None else kind
    w = [0.0] * 24
    if kind == 0:      # soft: no helium-ionizing photons (nu < 1.81 nu0 = bins 0..6)
        for _ in range(1 + rng.below(4)):
            w[rng.below(7)] += rng.uniform()
    elif kind == 1:    # single line anywhere
        w[rng.below(24)] = 1.0
    elif kind == 2:    # hard: only above the helium edge
        for _ in range(1 + rng.below(4)):
            w[7 + rng.below(17)] += rng.uniform()
    elif kind == 3:    # black-body like
        t = 0.3 + 3.0 * rng.uniform()
        w = [(1.0 + 3.0 * k / 23.0) ** 2 * math.exp(-(1.0 + 3.0 * k / 23.0) / t) for k in range(24)]
    elif kind == 4:    # random positive
        w = [rng.uniform() ** 3 for _ in range(24)]
    else:              # hardest bin only (maximal jHe/jH)
        w[23] = 1.0
    mean = [sum(w[k] * xs[k][i] for k in range(24)) for i in range(14)]
    hH = sum(w[k] * xs[k][0] * (FREQS[k] - NU_H) for k in range(24))
    hHe = sum(w[k] * xs[k][1] * (FREQS[k] - NU_HE) for k in range(24))
    return mean, hH, hHe, kind


def flux_for_jH(rng, mean, sel=None):
    """scale factor such that jH lands in one of the aimed regions"""
    sel = rng.below(10) if sel is None else sel
    if sel == 0:
        tgt = 0.0
    elif sel == 1:
        tgt = rng.choice([5e-324, 1e-310, 1e-300])
    elif sel == 2:
        tgt = logu(rng, 1e-30, 1e-20)                       # weak-field shortcut region
    elif sel == 3:
        tgt = 1e-20 * (1.0 + (rng.uniform() - 0.5) * 1e-3)  # edge of the shortcut
    else:
        tgt = logu(rng, 1e-20, 1e3)                         # 23 decades
    if mean[0] <= 0.0:
        return 0.0 if tgt == 0.0 else tgt / max(mean[1], 1e-300)
    return tgt / mean[0]


def gen_H(rng, n):
    L = []
    a0 = 4.18e-19
    for jH in (0.0, 5e-324, 1e-310, 1e-30, 1e-20, 1e-10, 1.0, 1e8, math.inf, math.nan, -1.0):
        for nH in (0.0, 1e4, 1e8, 1e12, math.inf, math.nan):
            for aH in (a0, 0.0, 1.0, math.nan):
                L.append((aH, jH, nH))
    # the series threshold 2/aa = 1e-10, i.e. C = jH/(nH aH) = 4e10, and the floors
    for C in (4e10, 4e14, 1e14, 1e8, 1e9, 1e10, 3.9e10, 4.1e10, 1e5, 1e6, 1e7):
        for d in range(-3, 4):
            x = C
            for _ in range(abs(d)):
                x = math.nextafter(x, math.inf if d > 0 else 0.0)
            L.append((1.0, x, 1.0))
            L.append((a0, x * a0 * 1e6, 1e6))
    # ladders: fixed (alphaH, nH), increasing jH over 19 decades of C = jH/(nH alphaH): monotonicity is checked on these
    for (aH, nH) in ((1.0, 1.0), (4.18e-19, 1e4), (4.18e-19, 1e8), (2.0e-19, 1e12), (ALPHA_H(logu(rng, 500, 30000)), logu(rng, 1e4, 1e12))):
        for k in range(96):
            L.append((aH, 10.0 ** (-3 + 0.2 * k) * nH * aH, nH))
    while len(L) < n:
        m = rng.below(5)
        nH = logu(rng, 1e4, 1e12)
        aH = ALPHA_H(logu(rng, 500, 30000))
        if m == 0:
            C = logu(rng, 1e-12, 1e16)
        elif m == 1:
            C = 4e10 * (1.0 + (rng.uniform() - 0.5) * 1e-6)
        elif m == 2:
            C = logu(rng, 1e5, 4e10)            # cancellation band
        elif m == 3:
            C = logu(rng, 1e13, 1e15)           # series floor
        else:
            C = logu(rng, 1e-3, 1e5)
        L.append((aH, C * nH * aH, nH))
    return L


def gen_E(rng, n):
    L = []
    for jH in (0.0, 1e-30, 9.999e-21, 1e-20, 1.0001e-20, 1e-15, 1e-10, 1e-5, 1.0, 1e3):
        for r in (0.0, 1e-3, 0.3, 7.0, 30.0):
            for nH in (1e4, 1e8, 1e12):
                for T in (500.0, 8000.0, 30000.0):
                    L.append((ALPHA_H(T), ALPHA_HE(T), jH, jH * r, nH, 0.1, T))
    for A in (0.0, 1e-8, 0.6):
        L.append((ALPHA_H(8e3), ALPHA_HE(8e3), 1e-8, 3e-9, 1e8, A, 8000.0))
    L.append((ALPHA_H(8e3), ALPHA_HE(8e3), 1e-8, 3e-9, 0.0, 0.1, 8000.0))      # nH = 0
    L.append((0.0, 0.0, 1e-8, 3e-9, 1e8, 0.1, 8000.0))                        # zero rates
    while len(L) < n:
        T = logu(rng, 500, 30000) if rng.below(8) else rng.choice([100.0, 1e5, 1e7, 1.1e10])
        nH = logu(rng, 1e4, 1e12)
        m = rng.below(6)
        jH = (1e-20 * (1 + (rng.uniform() - 0.5) * 1e-6)) if m == 0 else logu(rng, 1e-20, 1e3)
        rr = rng.below(5)
        r = 0.0 if rr == 0 else (logu(rng, 1e-8, 1.0) if rr == 1 else logu(rng, 0.05, 40.0))
        A = rng.choice([0.1, 0.1, 0.1, 0.05, 0.3, 1e-6, 0.5])
        L.append((ALPHA_H(T) * (0.5 + rng.uniform()), ALPHA_HE(T) * (0.5 + rng.uniform()), jH, jH * r, nH, A, T))
    return L


def gen_E_sweep(quick):
    """EXPLORATION of `never aborts / stays in [0,1]': a regular grid over the stated domain (23 decades of flux from the
    shortcut edge 1e-20, densities 1e4..1e12, temperatures 500..30000 K, helium abundance 0..0.6, jHe/jH 0..40)"""
    Ts = [500.0, 8000.0, 30000.0] if quick else [500.0, 1000.0, 2000.0, 4000.0, 8000.0, 12000.0, 20000.0, 30000.0]
    ns = [10.0 ** (4 + (2.0 if quick else 0.5) * k) for k in range(5 if quick else 17)]
    As = [1e-6, 0.1, 0.3, 0.6] if quick else [1e-6, 0.01, 0.05, 0.1, 0.2, 0.3, 0.6]
    rs = [0.0, 1e-3, 0.3, 10.0, 40.0] if quick else [0.0, 1e-6, 1e-3, 0.03, 0.3, 1.0, 3.0, 10.0, 20.0, 30.0, 40.0]
    L = []
    for T in Ts:
        for n in ns:
            for A in As:
                for r in rs:
                    for k in range(0, 47, 2 if quick else 1):
                        jH = 1e-20 * 10.0 ** (0.5 * k)
                        L.append((ALPHA_H(T), ALPHA_HE(T), jH, jH * r, n, A, T))
    return L


def gen_M(rng, n):
    L = []
    while len(L) < n:
        T = logu(rng, 500, 30000)
        nt = logu(rng, 1e4, 1e12)
        m = rng.below(8)
        h0 = rng.choice([1.0, 0.5, 1e-3, 1e-8, 1e-14, 0.0]) if m == 0 else rng.uniform() ** (1 + rng.below(6))
        he0 = rng.uniform() ** (1 + rng.below(6))
        ne = nt * ((1 - h0) + 0.1 * (1 - he0))
        if m == 1:
            ne = rng.choice([0.0, 5e-324, 1e-300, 1e-30])
        sc = logu(rng, 1e-25, 1e3)
        j = [0.0 if rng.below(7) == 0 else sc * logu(rng, 1e-3, 1e1) for _ in range(12)]
        L.append((T, j, ne, nt * h0, nt * he0 * 0.1, nt * (1 - h0)))
    return L


def gen_C(rng, n, xs):
    L = []
    # D6 corpus: the probe values of DESIGN §8
    for jH in (1e-30, 1e-22, 5e-21):
        mean = [jH, 0.3 * jH] + [0.1 * jH] * 12
        L.append((1.0, 1.0, mean, jH * 1e-18, jH * 1e-18, 1e8, 8000.0, 0.1))
    i = 0
    while len(L) < n:
        mean, hH, hHe, kind = spectrum(rng, xs)
        fl = flux_for_jH(rng, mean, sel=(i % 10))
        i += 1
        jfac = rng.choice([1.0, 1.0, logu(rng, 1e-10, 1e10)])
        mean = [fl * v / jfac for v in mean]
        nH = rng.choice([0.0, logu(rng, 1e4, 1e12), logu(rng, 1e4, 1e12), logu(rng, 1e4, 1e12)])
        T = logu(rng, 500, 30000)
        A = rng.choice([0.1, 0.1, 0.1, 0.0, 0.05, 0.3])
        L.append((jfac, jfac * 6.626e-34, mean, fl * hH / jfac, fl * hHe / jfac, nH, T, A))
    return L


def gen_T(rng, n, xs, quick):
    L = []
    i = 0
    while len(L) < n:
        mean, hH, hHe, kind = spectrum(rng, xs)
        fl = flux_for_jH(rng, mean, sel=(i % 10))
        i += 1
        mean = [fl * v for v in mean]
        nH = rng.choice([0.0] + [logu(rng, 1e4, 1e12)] * 7)
        Tinit = rng.choice([logu(rng, 500, 30000), 8000.0, 4000.0, 4000.0000000001, 100.0])
        ab = rng.below(4)
        A = [0.1, 2.2e-4, 4e-5, 3.3e-4, 5e-5, 9e-6]
        if ab == 0:
            A = [0.1, 0.0, 0.0, 0.0, 0.0, 0.0]          # no coolants: hot
        elif ab == 1:
            A = [rng.choice([0.0, 0.1, 0.3])] + [a * logu(rng, 1e-2, 10) for a in A[1:]]
        eps = rng.choice([1e-3, 1e-3, 1e-2, 1e-6, 1.5])
        maxit = rng.choice([0, 1, 3, 10, 25, 60] if quick else [0, 1, 10, 50, 100])
        cr = rng.below(5)
        crfac = 0.0 if cr < 3 else logu(rng, 1e-3, 1e2)
        crfcell = rng.choice([-1.0, 1.0, 0.0, logu(rng, 1e-2, 1e2)])
        crlim = rng.choice([0.75, 0.1, 1.0])
        crscale = rng.choice([0.0, 4e19])
        tmin = rng.choice([4000.0, 4000.0, 4000.0, 1000.0, 10000.0])
        pah = rng.choice([0.0, 1.0])
        z = rng.choice([0.0, 1e19, -3e19])
        L.append((eps, float(maxit), pah, crfac, crlim, crscale, tmin, A, 1.0, 6.626e-34, mean, fl * hH, fl * hHe, nH, Tinit, crfcell, z))
    return L


def line_H(c): return "H " + " ".join(hx(v) for v in c)
def line_E(c): return "E " + " ".join(hx(v) for v in c)
def line_M(c): return "M " + " ".join(hx(v) for v in [c[0]] + list(c[1]) + list(c[2:]))
def line_C(c): return "C " + " ".join(hx(v) for v in [c[0], c[1]] + list(c[2]) + list(c[3:]))
def line_T(c): return "T " + " ".join(hx(v) for v in list(c[:7]) + list(c[7]) + [c[8], c[9]] + list(c[10]) + list(c[11:]))


# ---------------------------------------------------------------------------------------------------------
# property oracle (independent of the model): decides C06 on one output line of the REAL code
TOL = 1e-8        # measured worst excess of the real code on the domain: he0 - 1 = 2.6e-9 (cancellation in the helium root, jH = 1e-20, n >= 3e11)
decimal.getcontext().prec = 80


def frac_ok(v):
    return math.isfinite(v) and -0.0 <= v <= 1.0 + TOL


def check_fracs(fr):
    """fr = 14 ionic fractions; returns None or text"""
    for i, v in enumerate(fr):
        if not frac_ok(v):
            return "ionic fraction %s = %r is not a finite number in [0,1]" % (IONS[i], v)
    for el, idx in GROUPS.items():
        s = sum(fr[i] for i in idx)
        if not s <= 1.0 + TOL:
            return "tracked stages of %s sum to %r > 1" % (el, s)
    return None


def h_exact(aH, jH, nH):
    """exact-rational reference: the root in (0,1) of n a (1-x)^2 = J x, 60 digits"""
    C = Fraction(jH) / (Fraction(nH) * Fraction(aH))
    if C < Fraction(1, 10 ** 32):
        return 1.0                      # 1 - sqrt(C) rounds to 1
    u = 1 + C / 2
    ud = decimal.Decimal(u.numerator) / decimal.Decimal(u.denominator)
    return float(1 / (ud + (ud * ud - 1).sqrt()))


H_RTOL = 1e-7      # relative deviation from the exact root that we still call "solves the balance equation" (observed on the repaired tree: 5e-11,
                   # the series branch bb < 1e-10 has a relative truncation error of that order; the clamp at 1e-14 is applied to the reference too)
H_DEV = [0.0]      # largest relative deviation seen in this run (goes into the evidence)


def h_min_flux():
    """compute_ionization_state_hydrogen is only reached from calculate_ionization_state; with the D6 repair that caller
    requires jH >= 1e-20, so weaker positive fluxes are outside the function's reachable domain"""
    return 0.0 if PINNED[0] == "1" else 1e-20


def oracle_H(c, out):
    aH, jH, nH = c
    r = un(out.split()[1])
    if not (math.isfinite(r) and 0.0 <= r <= 1.0 + TOL):
        if all(math.isfinite(v) and v >= 0 for v in c):
            return "range", "hydrogen neutral fraction %r not in [0,1] for alphaH=%r jH=%r nH=%r" % (r, aH, jH, nH)
        return None
    if all(math.isfinite(v) and v > 0 for v in c) and jH >= h_min_flux() and nH * aH > 1e-300:
        ref = h_exact(aH, jH, nH)
        refc = max(ref, 1e-14)
        H_DEV[0] = max(H_DEV[0], abs(r - refc) / refc)
        if abs(r - refc) > H_RTOL * refc:
            kind = "denormal" if jH < 1e-300 else "balance"
            return kind, ("hydrogen-only neutral fraction %r deviates from the root %r of n*alpha*(1-x)^2 = J*x by a factor %.3g "
                          "(alphaH=%r jH=%r nH=%r, J/(n alpha)=%.3g)%s" % (r, ref, r / ref, aH, jH, nH, jH / (nH * aH),
                           ": 0.5*jH underflows to 0, aa = 0, bb = inf, the result NaN is turned into the floor by std::max" if kind == "denormal" else ""))
    return None


def oracle_E(c, out):
    f = out.split()
    if f[1] == "ABORT":
        return "abort", "compute_ionization_states_hydrogen_helium aborted (too many iterations)"
    h0, he0 = un(f[1]), un(f[2])
    if not (frac_ok(h0) and frac_ok(he0)):
        return "range", "H/He neutral fractions h0=%r he0=%r not finite in [0,1]" % (h0, he0)
    return None


def oracle_M(c, out):
    f = out.split()
    if f[1] == "ABORT":
        return "abort", "abort in compute_ionization_states_metals"
    if not (c[2] > 1e-275):
        return None            # ne > 0 is the (explicit) hypothesis of the coolant theorem; binary64: ne*alpha must not underflow
    fr = [0.0, 0.0] + [un(x) for x in f[1:13]]
    w = check_fracs(fr)
    return ("range", w) if w else None


def oracle_C(c, out):
    f = out.split()
    if f[1] == "ABORT":
        return "abort", "calculate_ionization_state aborted"
    fr = [un(x) for x in f[1:15]]
    w = check_fracs(fr)
    if w:
        jH = c[0] * c[2][0]
        if 0.0 < jH < 1e-20 and any(math.isnan(v) for v in fr):
            return "weak_field_nan", "0 < jH = %r < 1e-20 (AHe = %r): neutral fractions are exactly 1, ne = 0 and %s" % (jH, c[7], w)
        return "range", w
    return None


def oracle_T(c, out):
    f = out.split()
    if f[1] == "ABORT":
        return "abort", "calculate_temperature aborted"
    T = un(f[1])
    tmin = c[6]
    if not (math.isfinite(T) and (T == 500.0 or (min(tmin, 30000.0) <= T <= 30000.0) or (c[1] == 0.0 or c[0] >= 1.0))):
        return "temperature", "temperature %r is not 500 K and not in [%r, 30000]" % (T, tmin)
    if not math.isfinite(T) or T > 30000.0 or T < 0:
        return "temperature", "temperature %r outside the documented bounds" % T
    fr = [un(x) for x in f[2:16]]
    w = check_fracs(fr)
    return ("range", w) if w else None


ORACLES = {"H": oracle_H, "E": oracle_E, "M": oracle_M, "C": oracle_C, "T": oracle_T}
LINERS = {"H": line_H, "E": line_E, "M": line_M, "C": line_C, "T": line_T}


# ---------------------------------------------------------------------------------------------------------
def build(ck):
    d = ck.scratch
    ok1, log1 = vf.coq_extract("C06", d)
    ok2, log2 = (False, "") if not ok1 else vf.ocaml_build(d, ["c06_model"], os.path.join(vf.VERIF, "ocaml/c06_driver.ml"), "model", floats=True)
    ok3, log3 = vf.cxx_build(os.path.join(vf.VERIF, "harness/c06/ionization_harness.cpp"), os.path.join(d, "impl"),
                             extra=["-fno-builtin", "-ffp-contract=off", "-Wl,--no-as-needed", "-lmpi_cxx", "-lmpi"], libs=False)
    if not ok3:
        ck.breaks.append("harness does not compile against IonizationStateCalculator.cpp / TemperatureCalculator.cpp:\n" + log3[-2000:])
    if not (ok1 and ok2):
        ck.breaks.append("model extraction/build failed:\n" + (log1 + log2)[-2000:])
    return ok1 and ok2, ok3


def cross_sections(d):
    rc, out = vf.run_lines([os.path.join(d, "impl")], "".join("X %s\n" % hx(nu) for nu in FREQS))
    xs = [[un(x) for x in l.split()[1:]] for l in out]
    if rc != 0 or len(xs) != 24 or any(len(r) != 14 for r in xs):
        raise RuntimeError("cross section query failed")
    return xs


def run_impl(d, lines, timeout=1500):
    """run the real code; if the process dies (an error path we could not catch) bisect to the killing line"""
    rc, out = vf.run_lines([os.path.join(d, "impl")], "\n".join(lines) + "\n", timeout=timeout)
    return rc, out


def run(ck):
    ok_proof = ck.prove()
    d = ck.scratch
    okm, oki = build(ck)
    cov = ck.coverage
    if not oki:
        ck.resolve_breaks_without_input()
        return
    xs = cross_sections(d)
    q = ck.quick
    rng = ck.rng
    cases = []
    cases += [("H", c) for c in gen_H(rng.fork("H"), 6000 if q else 60000)]
    cases += [("E", c) for c in gen_E(rng.fork("E"), 4000 if q else 60000)]
    sweep = gen_E_sweep(q)
    sweep_lo = len(cases)
    cases += [("E", c) for c in sweep]
    cases += [("M", c) for c in gen_M(rng.fork("M"), 1500 if q else 20000)]
    cases += [("C", c) for c in gen_C(rng.fork("C"), 3000 if q else 40000, xs)]
    cases += [("T", c) for c in gen_T(rng.fork("T"), 250 if q else 3000, xs, q)]
    lines = [LINERS[k](c) for k, c in cases]
    rc_i, out_i = run_impl(d, lines)
    if rc_i != 0 or len(out_i) != len(lines):
        ck.breaks.append("implementation harness exited with %d after %d of %d lines" % (rc_i, len(out_i), len(lines)))
    ck.log("impl: %d lines" % len(out_i))
    out_m, tags = [], []
    if okm:
        rc_m, raw = vf.run_lines([os.path.join(d, "model")] + list(PINNED) + [os.path.join(d, "impl")], "\n".join(lines) + "\n", timeout=1500)
        out_m = [l.split(" #")[0] for l in raw]
        tags = [l.split(" #")[1].strip() if " #" in l else "" for l in raw]
        if rc_m != 0 or len(out_m) != len(lines):
            ck.breaks.append("model driver exited with %d after %d of %d lines" % (rc_m, len(out_m), len(lines)))
        ck.log("model: %d lines" % len(out_m))
    # --- property oracle on every output of the real code (cheap, so not only on break) ------------------
    fails = {}
    worst_h = (0.0, None)
    for idx, ((k, c), o) in enumerate(zip(cases, out_i)):
        w = ORACLES[k](c, o)
        if w:
            fails.setdefault((k, w[0]), []).append((idx, w[1]))
    # monotonicity of the hydrogen-only function on the ladders (same alphaH, nH; jH increasing)
    lad = {}
    for idx, ((k, c), o) in enumerate(zip(cases, out_i)):
        if k == "H" and all(math.isfinite(v) and v > 0 for v in c) and c[1] >= max(h_min_flux(), 1e-300):
            lad.setdefault((c[0], c[2]), []).append((c[1], un(o.split()[1]), idx))
    nmono = 0
    for (aH, nH), pts in lad.items():
        if len(pts) < 10:
            continue
        pts.sort()
        for (j1, x1, i1), (j2, x2, i2) in zip(pts, pts[1:]):
            nmono += 1
            if j1 < j2 and x2 > x1 * (1.0 + 1e-9):
                fails.setdefault(("H", "monotone"), []).append((i2, "hydrogen-only neutral fraction is not monotone in the radiation field: alphaH=%r nH=%r: "
                                                               "jH=%r -> %r but jH=%r -> %r (J/(n alpha) = %.3g)" % (aH, nH, j1, x1, j2, x2, j2 / (nH * aH)), i1))
    cov["h_only_monotone_pairs_checked"] = nmono
    cov["h_only_max_relative_deviation_from_exact_root"] = H_DEV[0]
    # exploration statistics of the H/He sweep (real code)
    sw_out = out_i[sweep_lo:sweep_lo + len(sweep)]
    exc = 0.0
    nab = 0
    for o in sw_out:
        f = o.split()
        if f[1] == "ABORT":
            nab += 1
        else:
            for x in f[1:3]:
                v = un(x)
                if math.isfinite(v):
                    exc = max(exc, v - 1.0, -v)
    # face of D6 on the temperature path (inside the documented bounds, hence no violation): neutral cell at the 30000 K cap
    nw = nw30 = 0
    for idx, ((k, c), o) in enumerate(zip(cases, out_i)):
        if k == "T" and 0.0 < c[8] * c[10][0] < 1e-20 and c[13] > 0.0 and o.split()[1] != "ABORT":
            nw += 1
            nw30 += 1 if un(o.split()[1]) == 30000.0 else 0
    cov["weak_field_cells_in_temperature_cases"] = {"0<jH<1e-20": nw, "returned_30000K_fully_neutral": nw30}
    cov["exploration_hhe_sweep"] = {"points": len(sw_out), "aborts": nab, "largest_excursion_outside_[0,1]": exc,
                                    "domain": "jH 1e-20..1e3 (47 half-decades), jHe/jH 0..40, nH 1e4..1e12, T 500..30000 K, AHe 1e-6..0.6"}
    # --- correspondence ----------------------------------------------------------------------------------
    mism = {}
    hist = {}
    sigs = set()
    nit_hist = {}
    n_cmp = 0
    for idx, (k, c) in enumerate(cases):
        if idx >= len(out_i) or idx >= len(out_m):
            break
        n_cmp += 1
        t = tags[idx]
        br = ""
        for tok in t.split():
            if tok.startswith("br="):
                br = tok[3:]
        ni = ""
        for tok in t.split():
            if tok.startswith("niter="):
                ni = tok[6:]
        if k == "E" and ni:
            nit_hist[int(ni)] = nit_hist.get(int(ni), 0) + 1
        hk = k + ":" + (br or "-")
        hist[hk] = hist.get(hk, 0) + 1
        if br and br not in ("dark", "vacuum", "early"):
            sigs.add(out_m[idx] + "|" + br + "|" + ni)
        if canon(out_i[idx]) != canon(out_m[idx]):
            mism.setdefault(k, []).append(idx)
    for k, idxs in mism.items():
        i0 = idxs[0]
        ck.breaks.append("correspondence C06 model <-> real code, %d of the %s cases differ; first: input=%s impl=%r model=%r tag=%r"
                         % (len(idxs), k, lines[i0], out_i[i0], out_m[i0], tags[i0]))
    # --- report violations ---------------------------------------------------------------------------------
    # a failing input on which the model AGREES with the real code is a defect of the code that the model reproduces
    # (stable key, model_agrees=True); one on which they differ is the concrete input for a broken correspondence.
    mis_all = set(i for v in mism.values() for i in v)
    explained = False
    groups = {}
    for (k, kind), lst in fails.items():
        for e in lst:
            agrees = all(i < len(out_m) and i not in mis_all for i in (e[0],) + tuple(e[2:3])) if okm else None
            groups.setdefault((k, kind, agrees), []).append(e)
    for (k, kind, agrees), lst in sorted(groups.items(), key=lambda kv: (kv[0][0], kv[0][1], str(kv[0][2]))):
        if kind in ("balance", "denormal"):      # show the most ordinary failing input: smallest J/(n alpha)
            lst = sorted(lst, key=lambda e: cases[e[0]][1][1] / (cases[e[0]][1][2] * cases[e[0]][1][0]))
        idx, text = lst[0][0], lst[0][1]
        if agrees is False:
            explained = True
        key = {"kind": {"weak_field_nan": "weak_field_nan", "balance": "h_only_cancellation", "monotone": "h_only_cancellation",
                        "denormal": "h_only_denormal_flux"}.get(kind, k + "_" + kind),
               "model_agrees": agrees}
        rp = {"line": lines[idx], "impl_out": out_i[idx], "model_out": out_m[idx] if idx < len(out_m) else None,
              "failing_clause": text, "count_in_run": len(lst)}
        if kind == "monotone":
            rp["previous_line"] = lines[lst[0][2]]
        if kind in ("balance", "denormal"):
            aH, jH, nH = cases[idx][1]
            rp.update({"alphaH": aH, "jH": jH, "nH": nH, "exact_root": h_exact(aH, jH, nH), "returned": un(out_i[idx].split()[1])})
            wi, wt = max([e[:2] for e in lst], key=lambda e: abs(math.log(max(un(out_i[e[0]].split()[1]), 1e-300) / max(h_exact(*cases[e[0]][1]), 1e-14))))
            rp["worst_in_run"] = {"line": lines[wi], "what": wt}
        if kind == "weak_field_nan":
            c = cases[idx][1]
            rp.update({"jfac": c[0], "mean_intensity": c[2], "number_density": c[5], "temperature": c[6], "AHe": c[7]})
        ck.violation("C06 fails on the real code (%d inputs of this run, first shown%s): %s"
                     % (len(lst), "" if agrees else "; the model does NOT reproduce this value", text), rp, key=key)
    if ck.breaks and not explained:
        ck.violation("broken without a failing input: " + " || ".join(b[:1500] for b in ck.breaks), {"no_longer_checks": ck.breaks},
                     key={"kind": "break"}, no_input=True)
    cov["evaluations"] = n_cmp
    cov["distinct_nontrivial"] = len(sigs)
    cov["rule"] = ("one evaluation = one call of a real function (H: compute_ionization_state_hydrogen, E: compute_ionization_states_hydrogen_helium, "
                   "M: compute_ionization_states_metals, C: calculate_ionization_state on a cell, T: calculate_temperature on a cell) compared bit for bit "
                   "(all returned doubles as 64-bit patterns, ABORT as such) with the extracted model; inputs from SplitMix64(VERIF_SEED): corpus of branch "
                   "boundaries (jH in 0/denormal/1e-30..1e-20/edge 1e-20(1+-5e-4)/23 decades, nH in 0/1e4..1e12, T 500..30000 and extremes, 2/aa=1e-10 +-3 ulp, "
                   "floors, NaN/inf) + estimator sets produced from non-negative spectra on 24 frequency bins with the real Verner cross sections (6 spectrum "
                   "kinds incl. no He-ionizing photons); non-trivial = not one of the constant-answer branches (dark/vacuum/early); distinct = distinct "
                   "(output bits, branch tag, iteration count)")
    cov["branch_histogram"] = dict(sorted(hist.items()))
    cov["hhe_iteration_histogram"] = {str(k): v for k, v in sorted(nit_hist.items())}
    cov["cases"] = {k: sum(1 for kk, _ in cases if kk == k) for k in "HEMCT"}
    cov["case_mismatches"] = {k: len(v) for k, v in mism.items()}
    cov["oracle_failures_on_real_code"] = {"%s/%s" % kk: len(v) for kk, v in fails.items()}
    cov["samples"] = [{"in": lines[i], "impl": out_i[i], "tag": tags[i] if i < len(tags) else ""} for i in (0, len(lines) // 2, len(lines) - 1) if i < len(out_i)]
    ck.assumptions += [
        "binary64 arithmetic of the model is Coq's PrimFloat extracted through ExtrOCamlFloats; pow/exp/log are OCaml Float.pow/exp/log = the glibc libm the "
        "C++ calls when compiled with -fno-builtin -ffp-contract=off (the two .cpp files are compiled into the harness with these flags)",
        "cmac_assert is compiled out (HAVE_ASSERTIONS off) and not modelled; abort() is observed through SIGABRT",
        "recombination/charge-transfer rates, cross sections and compute_cooling_and_heating_balance are oracles answered by the real classes (C18 covers the tables)",
        "theorems over R idealise rounding; the binary64 deviation of the hydrogen-only function is measured against an exact rational root (tolerance %g)" % H_RTOL,
        "never-aborts (H/He loop <= 20 iterations) is explored by sweep, not proved",
    ]


def replay(ck, rp):
    d = ck.scratch
    okm, oki = build(ck)
    line = rp["replay"]["line"]
    rc, out = vf.run_lines([os.path.join(d, "impl")], line + "\n")
    print("\n".join(out))
    k = line.split()[0]
    f = [un(x) for x in line.split()[1:]]
    if k == "H":
        c = tuple(f)
    elif k == "E":
        c = tuple(f)
    elif k == "M":
        c = (f[0], f[1:13], f[13], f[14], f[15], f[16])
    elif k == "C":
        c = (f[0], f[1], f[2:16], f[16], f[17], f[18], f[19], f[20])
    else:
        c = tuple(f[:7]) + (f[7:13], f[13], f[14], f[15:29]) + tuple(f[29:])
    w = ORACLES[k](c, out[0]) if out else ("crash", "harness died")
    prev = rp["replay"].get("previous_line")
    if prev and out and not w:
        rc2, out2 = vf.run_lines([os.path.join(d, "impl")], prev + "\n")
        x1, x2 = un(out2[0].split()[1]), un(out[0].split()[1])
        j1, j2 = un(prev.split()[2]), un(line.split()[2])
        print(out2[0])
        if j1 < j2 and x2 > x1 * (1.0 + 1e-9):
            w = ("monotone", "not monotone: jH=%r -> %r but jH=%r -> %r" % (j1, x1, j2, x2))
    print("REPLAY:", w[1] if w else "property holds on this input")
    return 1 if w else 0
