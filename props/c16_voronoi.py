# C16, Voronoi grids: VoronoiDensityGrid (LegacyEngine) -- cell location, volumes and the photon traversal.
# Called from props/c16.py.  The real class is built from an explicit generator list (both grid types, with and without Lloyd
# relaxation, open and periodic boxes); the oracle is the half-space definition of a Voronoi cell (the definition the
# theorems of C15 are about: x belongs to cell i iff |x - g_i| <= |x - g_j| for every j), evaluated on the generator
# positions the grid itself reports AFTER its construction:
#   * get_cell_index(p) is a nearest generator of p;
#   * the volumes sum to the box volume;
#   * a photon's deposits per cell equal the chords of its ray through the cells (exact clipping of the ray against the
#     bisector planes), they sum to the distance travelled, the optical depth used equals that distance (opacity 1 everywhere),
#     and it is reported as absorbed exactly when its optical depth runs out before the ray leaves the box.
# There is no Coq model of the traversal loop of VoronoiDensityGrid::interact (it nudges the photon by 1e-12 box diagonals per
# cell and searches faces in floating point): this part is a correspondence against the definition, not a theorem.
import os, math
import vf

HARNESS = os.path.join(vf.VERIF, "harness/c16/voronoi_grid_harness.cpp")
H = lambda x: "%016x" % vf.dbl_bits(x)
D = lambda s: vf.bits_dbl(int(s, 16))


def build(ck):
    ok, out = vf.repo_ninja(["LegacyEngine", "SharedEngine"])
    if not ok:
        return None, "the legacy library does not build: " + out[-800:]
    L = os.path.join(vf.REPOBUILD, "lib")
    exe = os.path.join(ck.scratch, "voronoi_grid")
    cmd = ["g++"] + vf.cxx_flags(True, "-O1") + [HARNESS, "-o", exe, os.path.join(L, "libLegacyEngine.a"), os.path.join(L, "libSharedEngine.a"),
                                                "-lhdf5_serial", "-lmpi_cxx", "-lmpi", "-lcrypto"]
    rc, out = vf.sh(cmd, timeout=900)
    if rc != 0:
        return None, "Voronoi grid harness does not compile/link: " + out[-1500:]
    return exe, ""


def gen_case(rng, k, quick):
    typ = ["Old", "New"][k % 2]
    nl = [0, 1, 0, 2, 0, 3][(k // 2) % 6]
    per = (0, 0, 0)
    anchor = [(0., 0., 0.), (-0.5, -0.5, -0.5), (1.5, -2.0, 0.25)][k % 3]
    sides = [(1., 1., 1.), (1., 2., 0.5), (3., 1., 1.)][(k // 3) % 3]
    n = [30, 60, 12, 100, 45, 200][k % 6] if not quick else [30, 60, 12, 45][k % 4]
    gens = [tuple(anchor[a] + sides[a] * (0.02 + 0.96 * rng.uniform()) for a in range(3)) for _ in range(n)]
    return dict(type=typ, nlloyd=nl, per=per, anchor=anchor, sides=sides, gens=gens)


def case_lines(c, queries, photons):
    l = ["VG %s %d %d %d %d %s %s %d %s" % (c["type"], c["nlloyd"], c["per"][0], c["per"][1], c["per"][2], " ".join(H(x) for x in c["anchor"]),
                                              " ".join(H(x) for x in c["sides"]), len(c["gens"]), " ".join(H(x) for g in c["gens"] for x in g))]
    l += ["VL %s" % " ".join(H(x) for x in q) for q in queries]
    l += ["VP %s %s %s" % (" ".join(H(x) for x in o), " ".join(H(x) for x in d), H(t)) for (o, d, t) in photons]
    return l


def d2(a, b):
    return (a[0] - b[0]) ** 2 + (a[1] - b[1]) ** 2 + (a[2] - b[2]) ** 2


def exit_distance(c, o, d):
    t = math.inf
    for a in range(3):
        if d[a] > 0:
            t = min(t, (c["anchor"][a] + c["sides"][a] - o[a]) / d[a])
        elif d[a] < 0:
            t = min(t, (c["anchor"][a] - o[a]) / d[a])
    return t


def chords(G, o, d, T):
    """length of the part of the segment o + t d, 0 <= t <= T, inside every Voronoi cell of the generators G (half-space clipping)"""
    res = {}
    n = len(G)
    # candidates: only cells whose chord can be non-empty; clip against all others
    for i in range(n):
        gi = G[i]
        lo, hi = 0.0, T
        gi2 = gi[0] * gi[0] + gi[1] * gi[1] + gi[2] * gi[2]
        for j in range(n):
            if j == i:
                continue
            gj = G[j]
            nx, ny, nz = gj[0] - gi[0], gj[1] - gi[1], gj[2] - gi[2]
            # (gj - gi).x <= (|gj|^2 - |gi|^2)/2
            rhs = 0.5 * (gj[0] * gj[0] + gj[1] * gj[1] + gj[2] * gj[2] - gi2) - (nx * o[0] + ny * o[1] + nz * o[2])
            a = nx * d[0] + ny * d[1] + nz * d[2]
            if a > 0:
                hi = min(hi, rhs / a)
            elif a < 0:
                lo = max(lo, rhs / a)
            elif rhs < 0:
                hi = -1.0
            if hi <= lo:
                break
        if hi > lo:
            res[i] = hi - lo
    return res


def run_voronoi(ck):
    cov = ck.coverage
    exe, why = build(ck)
    if exe is None:
        ck.breaks.append(why)
        return 0
    rng = ck.rng
    ncase = 8 if ck.quick else 36
    nq = 150 if ck.quick else 600
    nph = 60 if ck.quick else 300
    stats = {"grids": 0, "cells": 0, "locate_queries": 0, "photons": 0, "absorbed": 0, "escaped": 0, "max_volume_sum_error": 0.0, "max_chord_error": 0.0, "by_kind": {}}
    nviol = {}

    def viol(kind, what, c, extra):
        nviol[kind] = nviol.get(kind, 0) + 1
        if nviol[kind] <= 2:
            ck.violation("C16 fails on the real VoronoiDensityGrid (%s grid, %d Lloyd iterations, %d generators, box %r + %r): %s" % (c["type"], c["nlloyd"], len(c["gens"]), c["anchor"], c["sides"], what),
                         dict(part="voronoi", case=c, **extra), key={"kind": "voronoi_grid", "clause": kind})

    for k in range(ncase):
        c = gen_case(rng, k, ck.quick)
        scale = max(c["sides"])
        diag = math.sqrt(sum(s * s for s in c["sides"]))
        queries = [tuple(c["anchor"][a] + c["sides"][a] * rng.uniform() for a in range(3)) for _ in range(nq)]
        photons = []
        for _ in range(nph):
            o = tuple(c["anchor"][a] + c["sides"][a] * (0.05 + 0.9 * rng.uniform()) for a in range(3))
            while True:
                v = [2 * rng.uniform() - 1 for _ in range(3)]
                nrm = math.sqrt(sum(x * x for x in v))
                if 0.1 < nrm <= 1:
                    break
            d = tuple(x / nrm for x in v)
            tau = [0.3 * diag * rng.uniform(), 10 * diag, 0.02 * diag * rng.uniform()][rng.below(3)]
            photons.append((o, d, tau))
        lines = case_lines(c, queries, photons)
        rc, out = vf.run_lines([exe], "\n".join(lines) + "\n", timeout=600)
        kindname = "%s/lloyd%d" % (c["type"], c["nlloyd"])
        if not out or not out[0].startswith("VG "):
            ck.breaks.append("Voronoi grid harness gave no grid for case %d (%s): rc=%d %r" % (k, kindname, rc, out[:2]))
            continue
        ncell = int(out[0].split()[1])
        G, V = [None] * ncell, [0.0] * ncell
        for l in out[1:1 + ncell]:
            f = l.split()
            G[int(f[1])] = (D(f[2]), D(f[3]), D(f[4]))
            V[int(f[1])] = D(f[5])
        rest = out[1 + ncell:]
        if rc != 0 or len(rest) != len(queries) + len(photons) or any(l.startswith("!") for l in rest):
            bad = [l for l in rest if l.startswith("!")]
            viol("crash", "the run ends after %d of %d operations (exit %d%s)" % (len(rest), len(queries) + len(photons), rc, ", " + bad[0] if bad else ""), c, {"ops": lines[:1 + len(rest) + 1][-3:]})
            continue
        stats["grids"] += 1
        stats["cells"] += ncell
        stats["by_kind"][kindname] = stats["by_kind"].get(kindname, 0) + 1
        # volumes
        vs = sum(V)
        bv = c["sides"][0] * c["sides"][1] * c["sides"][2]
        stats["max_volume_sum_error"] = max(stats["max_volume_sum_error"], abs(vs - bv) / bv)
        if ncell != len(c["gens"]):
            viol("cells", "the grid has %d cells for %d generators" % (ncell, len(c["gens"])), c, {})
        if abs(vs - bv) > 1e-9 * bv or min(V) <= 0:
            viol("volume", "cell volumes sum to %r, the box volume is %r (smallest cell volume %r)" % (vs, bv, min(V)), c, {})
        # location
        for q, l in zip(queries, rest[:len(queries)]):
            stats["locate_queries"] += 1
            i = int(l.split()[1])
            dmin = min(d2(q, g) for g in G)
            if not 0 <= i < ncell or d2(q, G[i]) > dmin + 1e-12 * scale * scale:
                j = min(range(ncell), key=lambda m: d2(q, G[m]))
                viol("locate", "get_cell_index(%r) = %d, a cell whose generator %r is at distance %r; generator %d at %r is closer (%r): the position is not inside the cell it is located in"
                     % (q, i, G[i] if 0 <= i < ncell else None, math.sqrt(d2(q, G[i])) if 0 <= i < ncell else None, j, G[j], math.sqrt(dmin)), c, {"query": q})
                break
        # traversal
        for (o, d, tau), l in zip(photons, rest[len(queries):]):
            stats["photons"] += 1
            f = l.split()
            end = (D(f[2]), D(f[3]), D(f[4]))
            kk = int(f[5])
            dep = {int(f[6 + 2 * m]): D(f[7 + 2 * m]) for m in range(kk)}
            texit = exit_distance(c, o, d)
            T = min(tau, texit)
            absorbed = tau < texit
            tol = 1e-9 * diag * (2 + len(dep))          # the class nudges the photon by 1e-12 diagonals per cell
            exp = chords(G, o, d, T)
            why = None
            travelled = math.sqrt(d2(end, o))
            if abs(tau - texit) > 10 * tol:
                if absorbed and f[1] == "END":
                    why = "the photon is reported as escaped although its optical depth %r runs out after %r, before the ray leaves the box at %r" % (tau, tau, texit)
                elif not absorbed and f[1] != "END":
                    why = "the photon is reported as absorbed in cell %s although the ray leaves the box at %r with optical depth %r left" % (f[1], texit, tau - texit)
            if why is None and abs(sum(dep.values()) - T) > tol:
                why = "deposited path lengths sum to %r, the photon travels %r (optical depth %r, box exit at %r)" % (sum(dep.values()), T, tau, texit)
            if why is None and absorbed and abs(travelled - T) > tol:
                why = "the photon ends %r from its origin, its optical depth %r with opacity 1 corresponds to %r" % (travelled, tau, T)
            if why is None:
                for i in set(dep) | set(exp):
                    e = abs(dep.get(i, 0.0) - exp.get(i, 0.0))
                    stats["max_chord_error"] = max(stats["max_chord_error"], e / diag)
                    if e > tol:
                        why = ("cell %d (generator %r) receives a path length of %r, the ray's chord through that cell is %r (path lengths are deposited in cells the ray does not cross there)"
                               % (i, G[i], dep.get(i, 0.0), exp.get(i, 0.0)))
                        break
            if why is None and absorbed and f[1] != "END":
                ci = int(f[1])
                if d2(end, G[ci]) > min(d2(end, g) for g in G) + 1e-9 * scale * scale:
                    why = "the photon is absorbed at %r, which is not inside the cell %d it is reported in" % (end, ci)
            stats["absorbed" if f[1] != "END" else "escaped"] += 1
            if why:
                viol("traversal", "photon from %r along %r with optical depth %r: %s" % (o, d, tau, why), c, {"photon": [o, d, tau]})
                break
    cov["voronoi_density_grid"] = stats
    return stats["locate_queries"] + stats["photons"]


def replay_voronoi(ck, r):
    exe, why = build(ck)
    if exe is None:
        print(why)
        return 2
    c = r["case"]
    c["gens"] = [tuple(g) for g in c["gens"]]
    # re-run the whole case generator-independent: same grid, the recorded query / photon if any, plus fresh ones
    n0 = len(ck.violations)
    qs = [tuple(r["query"])] if "query" in r else []
    ph = [(tuple(r["photon"][0]), tuple(r["photon"][1]), r["photon"][2])] if "photon" in r else []
    lines = case_lines(c, qs, ph)
    rc, out = vf.run_lines([exe], "\n".join(lines) + "\n", timeout=600)
    print("\n".join(l[:200] for l in out[-3:]))
    # decide with the same oracle
    ncell = int(out[0].split()[1]) if out and out[0].startswith("VG ") else 0
    G = [None] * ncell
    V = [0.0] * ncell
    for l in out[1:1 + ncell]:
        f = l.split()
        G[int(f[1])] = (D(f[2]), D(f[3]), D(f[4]))
        V[int(f[1])] = D(f[5])
    rest = out[1 + ncell:]
    why = None
    bv = c["sides"][0] * c["sides"][1] * c["sides"][2]
    if rc != 0 or len(rest) != len(qs) + len(ph):
        why = "the run ends early (exit %d)" % rc
    elif abs(sum(V) - bv) > 1e-9 * bv:
        why = "cell volumes sum to %r, box volume %r" % (sum(V), bv)
    elif qs:
        i = int(rest[0].split()[1])
        if d2(qs[0], G[i]) > min(d2(qs[0], g) for g in G) + 1e-12 * max(c["sides"]) ** 2:
            why = "get_cell_index returns cell %d, whose generator is not the nearest" % i
    if why is None and ph:
        o, d, tau = ph[0]
        f = rest[-1].split()
        dep = {int(f[6 + 2 * m]): D(f[7 + 2 * m]) for m in range(int(f[5]))}
        diag = math.sqrt(sum(s * s for s in c["sides"]))
        T = min(tau, exit_distance(c, o, d))
        exp = chords(G, o, d, T)
        tol = 1e-9 * diag * (2 + len(dep))
        for i in set(dep) | set(exp):
            if abs(dep.get(i, 0.0) - exp.get(i, 0.0)) > tol:
                why = "cell %d receives %r, chord %r" % (i, dep.get(i, 0.0), exp.get(i, 0.0))
                break
        if why is None and ((tau < exit_distance(c, o, d) - 10 * tol and f[1] == "END") or (tau > exit_distance(c, o, d) + 10 * tol and f[1] != "END")):
            why = "absorbed/escaped verdict wrong (%s)" % f[1]
    print("REPLAY:", ("C16 fails on the real VoronoiDensityGrid: " + why) if why else "property holds on this input")
    return 1 if why else 0
