# C02  a packet crossing a subgrid deposits exactly its geometric path:
#      proof (Coq, over R) + bit-for-bit correspondence of the extracted binary64 model with the
#      real DensitySubGrid::interact (src/DensitySubGrid.hpp)
import os, math, json
from fractions import Fraction as Fr
import vf

LEVEL = "proof"
CLAIM = dict(cat="proof", design="§3 C02",
   text="Coq theorems over the real-number instance of a literal model of DensitySubGrid::interact (entry repositioning, start index, the march with its three wall distances, surplus correction, index update on ALL axes "
        "attaining the minimum, exit mask), for EVERY block shape, cell count >= 1, start in the block, direction, entry code, non-negative opacities and positive target: march invariant (position = start + S d, "
        "position in the closed current cell, lengths >= 0), path_sum (sum of lengths x |d| = |end - start|), tau_sum (optical depth used = sum kappa x length; equals the target exactly when absorbed), "
        "estimators_exact (every visited cell grows by w sigma L, x excess energy for heating; other cells unchanged), stops_iff_reached, fuel_suffices (nx+ny+nz+1 iterations), exit_is_geometric / first_exit "
        "(the out-of-range axes are exactly the planes the straight line reaches first, final position on them, returned code = table entry). Tie: the binary64 instance of the SAME definitions is compared bit for "
        "bit with the real interact (exit code, final position, remaining depth, every touched cell) on packets generated at the proof's case splits (faces/edges/corners for all 27 entry classes, 0-2 zero direction "
        "components, targets at cell-boundary partial sums, zero-density cells). The property oracle also checks cell membership: every credited cell is crossed by the straight line for the credited length (slab intersection).",
   note="Trusted: Coq kernel + standard real-number axioms; ExtrOCamlFloats extraction and the OCaml driver (correspondence only). Partial: exit geometry needs the premise that a coordinate not fixed by the entry class "
        "starts strictly below the block's upper plane (half-open block; C02_exit_upper_boundary_refuted shows the closed statement is false for the code: a start ON the upper plane is handed to the neighbour with "
        "nothing credited - benign in the full program, noted in DESIGN.md); binary64 effects one ulp below a wall are documented, not proved absent.",
   technique="Coq proof over reals of a literal ray-march model + bit-exact binary64 correspondence")

# TravelDirection enum (src/TravelDirections.hpp); decode = position of the entry/exit feature per axis:
# -1 lower plane, +1 upper plane, 0 not fixed.  Used by the generators and the oracle only.
NAMES = ["INSIDE", "CORNER_PPP", "CORNER_PPN", "CORNER_PNP", "CORNER_PNN", "CORNER_NPP", "CORNER_NPN", "CORNER_NNP", "CORNER_NNN",
         "EDGE_X_PP", "EDGE_X_PN", "EDGE_X_NP", "EDGE_X_NN", "EDGE_Y_PP", "EDGE_Y_PN", "EDGE_Y_NP", "EDGE_Y_NN",
         "EDGE_Z_PP", "EDGE_Z_PN", "EDGE_Z_NP", "EDGE_Z_NN", "FACE_X_P", "FACE_X_N", "FACE_Y_P", "FACE_Y_N", "FACE_Z_P", "FACE_Z_N"]


def decode(code):
    nm = NAMES[code]
    s = {"P": 1, "N": -1}
    if nm == "INSIDE":
        return (0, 0, 0)
    kind, rest = nm.split("_", 1)
    if kind == "CORNER":
        return tuple(s[c] for c in rest)
    ax, pn = rest.split("_")
    a = "XYZ".index(ax)
    if kind == "FACE":
        r = [0, 0, 0]
        r[a] = s[pn]
        return tuple(r)
    others = [k for k in range(3) if k != a]
    r = [0, 0, 0]
    r[others[0]] = s[pn[0]]
    r[others[1]] = s[pn[1]]
    return tuple(r)


DEC = [decode(c) for c in range(27)]
ENC = {DEC[c]: c for c in range(27)}
H = lambda x: "%016x" % vf.dbl_bits(x)
D = lambda s: vf.bits_dbl(int(s, 16))
HUGE = 1e300


# ----------------------------------------------------------------------------
# generators
def gen_block(rng, idx):
    """returns dict(anchor, sides, n, cells[(n,xH,xHe)], j0)"""
    special = [(1, 1, 1), (7, 5, 3), (1, 5, 1), (2, 2, 2), (3, 3, 3), (7, 1, 1), (1, 1, 3), (4, 4, 3)]
    if idx < len(special):
        n = special[idx]
    else:
        n = (1 + rng.below(7), 1 + rng.below(5), 1 + rng.below(3))
    mode = idx % 6
    if mode == 0:      # cubic power-of-two cells, anchor 0: every wall distance is exact, ties at every corner
        c = 2.0 ** (rng.below(7) - 3)
        anchor = [0.0, 0.0, 0.0]
        sides = [c * n[0], c * n[1], c * n[2]]
    elif mode == 1:    # cubic cells of non-representable size, anchor 0
        c = rng.choice([1.0 / 3.0, 0.1, 0.7, 1.0 / 7.0, 3.3e16])
        anchor = [0.0, 0.0, 0.0]
        sides = [c * n[0], c * n[1], c * n[2]]
    elif mode == 2:    # the unit-test box
        anchor = [-1.543e17] * 3
        sides = [3.086e17] * 3
    elif mode == 3:    # random anchor, random sides
        anchor = [(rng.uniform() - 0.5) * 4 for _ in range(3)]
        sides = [0.25 + 2 * rng.uniform() for _ in range(3)]
    elif mode == 4:    # power-of-two anchor and anisotropic power-of-two cells
        anchor = [float(rng.below(5) - 2) for _ in range(3)]
        sides = [n[k] * 2.0 ** (rng.below(4) - 2) for k in range(3)]
    else:              # unit box, anchor 0 (cells 1/nx etc.)
        anchor = [0.0, 0.0, 0.0]
        sides = [1.0, 1.0, 1.0]
    nc = n[0] * n[1] * n[2]
    dm = rng.below(6)
    phys = mode == 2 or (mode == 1 and sides[0] > 1e10)
    cells = []
    for i in range(nc):
        if dm == 0:
            nd = 0.0
        elif dm == 1:
            nd = 1.0
        elif dm == 2:
            nd = 0.0 if rng.below(3) == 0 else 10.0 ** (rng.uniform() * 4 - 2)
        else:
            nd = 10.0 ** (rng.uniform() * 4 - 2)
        if phys:
            nd *= 1e8
        xm = rng.below(5)
        xH = [0.0, 1.0, 1e-6, rng.uniform(), rng.uniform()][xm]
        xHe = [rng.uniform(), 0.0, 1.0, 1e-4, rng.uniform()][rng.below(5)]
        cells.append((nd, xH, xHe))
    j0 = rng.choice([0.0, 0.0, 0.0, 0.25, 1e-3])
    return {"anchor": anchor, "sides": sides, "n": n, "cells": cells, "j0": j0, "phys": phys}


def block_geom(b):
    n = b["n"]
    cs = [b["sides"][k] / n[k] for k in range(3)]
    inv = [n[k] / b["sides"][k] for k in range(3)]
    hi = [n[k] * cs[k] for k in range(3)]
    return cs, inv, hi


def gen_packet(rng, b, nions, j, cls=None):
    """one packet aimed at the case splits; tau is chosen later (two passes)"""
    n = b["n"]
    cs, inv, hi = block_geom(b)
    a = b["anchor"]
    code = cls if cls is not None else rng.below(27)
    s = DEC[code]
    # direction: fixed axes must point inward; free axes: sign or zero
    dm = rng.below(8)
    comp = [0.0, 0.0, 0.0]
    for k in range(3):
        if s[k] != 0:
            comp[k] = -float(s[k])
        else:
            comp[k] = float(rng.below(3) - 1) if dm != 7 else rng.choice([-1.0, 1.0])
    if all(c == 0.0 for c in comp):
        comp[rng.below(3)] = rng.choice([-1.0, 1.0])
    if dm in (0, 1):       # exact diagonals / axis aligned: (+-1, +-1, 0)/sqrt(2) etc.
        mag = [1.0, 1.0, 1.0]
    elif dm == 2:          # proportional to the cell sizes: aims at cell corners
        mag = [cs[0], cs[1], cs[2]]
    elif dm == 3:          # rational 3-4-5 like
        mag = rng.choice([[0.6, 0.8, 1.0], [3.0, 4.0, 12.0], [1.0, 2.0, 2.0], [2.0, 1.0, 2.0]])
    else:
        mag = [0.02 + rng.uniform() for _ in range(3)]
        if dm == 6:
            mag[rng.below(3)] *= 10.0 ** (-rng.below(12))   # nearly axis aligned
    d = [comp[k] * mag[k] for k in range(3)]
    if dm != 1 or sum(1 for c in d if c != 0.0) > 1:
        nrm = math.sqrt(d[0] * d[0] + d[1] * d[1] + d[2] * d[2])
        d = [x / nrm for x in d]
    # position
    pm = rng.below(8)
    pos = [0.0, 0.0, 0.0]
    for k in range(3):
        if s[k] != 0:
            # overwritten by update_photon_position; give the plane itself, or something slightly off / arbitrary
            plane = a[k] + (hi[k] if s[k] > 0 else 0.0)
            pos[k] = plane if rng.below(3) else plane + (rng.uniform() - 0.5) * 1e-3 * cs[k]
        else:
            if pm in (0, 1):        # exactly on a cell wall (including the block boundaries)
                w = rng.below(n[k] + 1)
                if d[k] > 0 and w == n[k] and rng.below(4):
                    w = n[k] - 1
                rel = w * cs[k]
            elif pm == 2:           # cell centre
                rel = (rng.below(n[k]) + 0.5) * cs[k]
            elif pm == 3:           # one ulp next to a wall, inside the block
                w = rng.below(n[k] + 1)
                rel = w * cs[k]
                rel = math.nextafter(rel, hi[k] * 0.5)
            else:
                rel = rng.uniform() * hi[k]
                if rel > hi[k]:
                    rel = hi[k]
            pos[k] = a[k] + rel
    w = rng.choice([1.0, 1.0, 0.5, 2.0, 0.1 + rng.uniform(), 3.7e-3])
    en = rng.choice([3.288e15, 4.0e15, 5.948e15, 1.0e16, 1.0e15, 3.288e15 * (1 + rng.uniform())])
    sm = rng.below(6)
    sig = []
    for i in range(nions):
        if sm == 0:
            v = 0.0 if i != 0 else 1.0
        elif sm == 1:
            v = 10.0 ** (rng.uniform() * 2 - 1) if rng.below(4) else 0.0
        else:
            v = 10.0 ** (rng.uniform() * 2 - 1)
        if b["phys"]:
            v *= 6.3e-22
        sig.append(v)
    if sm == 5:
        sig[0] = 0.0
        if nions > 1 and rng.below(2):
            sig[1] = 0.0
    sig[nions - 1] = 1.0          # probe ion: its mean intensity increment is length * weight
    return {"input": code, "pos": pos, "dir": d, "tau": HUGE, "w": w, "energy": en, "sigma": sig}


def pkt_line(p):
    return "P %d " % p["input"] + " ".join(H(x) for x in p["pos"] + p["dir"] + [p["tau"], p["w"], p["energy"]] + p["sigma"])


def block_lines(b):
    return ["B " + " ".join(H(x) for x in b["anchor"] + b["sides"]) + " %d %d %d" % tuple(b["n"]),
            "F " + " ".join(H(x) for c in b["cells"] for x in c),
            "I " + H(b["j0"])]


def kappa_steps(b, p, vis):
    """partial sums of the optical depth exactly as the code accumulates them (binary64)"""
    sH = p["sigma"][0]
    sHe = p["sigma"][1] if len(p["sigma"]) > 1 else 0.0
    td = 0.0
    out = []
    for (c, L) in vis:
        nd, xH, xHe = b["cells"][c]
        td += L * nd * (sH * xH + sHe * xHe)
        out.append(td)
    return out


def second_pass_taus(rng, b, p, vis):
    """targets at / one ulp around the partial sums at cell boundaries, inside a cell, beyond the total"""
    ps = [t for t in kappa_steps(b, p, vis) if t > 0.0 and t < 1e290]
    taus = []
    if ps:
        t = rng.choice(ps)
        taus.append(rng.choice([t, math.nextafter(t, 0.0), math.nextafter(t, math.inf)]))
        k = rng.below(len(ps))
        lo = ps[k - 1] if k > 0 else 0.0
        taus.append(lo + (ps[k] - lo) * rng.uniform() if ps[k] > lo else ps[k] * 0.5)
        if rng.below(3) == 0:
            taus.append(ps[-1] * (1.0 + rng.uniform()))        # larger than the block's total
        if rng.below(4) == 0:
            taus.append(ps[0] * 1e-9)
    else:
        taus.append(rng.choice([1e-3, 1.0, 50.0]))
    return [t for t in taus if t > 0.0]


# ----------------------------------------------------------------------------
# independent oracle for the PROPERTY, evaluated on the real code's answer
def parse_R(line, nions):
    f = line.split()
    if len(f) < 7 or f[0] != "R":
        return None
    try:
        out = int(f[1])
    except ValueError:
        return None
    r = {"out": out, "pos": [D(f[2]), D(f[3]), D(f[4])], "tau": D(f[5]), "cells": {}}
    k = int(f[6])
    w = 7
    per = 1 + nions + 2
    for i in range(k):
        c = int(f[w])
        vals = [D(x) for x in f[w + 1:w + per]]
        r["cells"][c] = vals
        w += per
    return r


def oracle(b, p, line, nions, rtol=1e-9):
    """None if property C02 holds on this answer of the real code (within rtol where a float is
    compared with a real), else a description of the failing clause"""
    r = parse_R(line, nions)
    if r is None:
        return "no answer from the real code: %r" % line[:80]
    # every number the real code hands back is finite (comparisons with NaN are all false: check first)
    bad = [x for x in list(r["pos"]) + [r["tau"]] + [v for vals in r["cells"].values() for v in vals] if not math.isfinite(x)]
    if bad:
        return "finite: the crossing returns non-finite numbers (end position %r, remaining optical depth %r, %d non-finite estimator entries)" % (
            r["pos"], r["tau"], sum(1 for vals in r["cells"].values() for v in vals if not math.isfinite(v)))
    n = b["n"]
    cs, inv, hi = block_geom(b)
    a = b["anchor"]
    s = DEC[p["input"]]
    d = p["dir"]
    j0 = b["j0"]
    # repositioned start, relative to the anchor (as the code computes it)
    p1 = []
    for k in range(3):
        rel = p["pos"][k] - a[k]
        if s[k] < 0:
            rel = 0.0
        elif s[k] > 0:
            rel = hi[k]
        p1.append(rel)
    scale = max(max(hi), max(abs(x) for x in a), 1e-300)
    dn = math.sqrt(sum(x * x for x in d))
    # per-cell lengths reported by the probe ion
    lens = {}
    for c, vals in r["cells"].items():
        lens[c] = (vals[nions - 1] - j0) / p["w"]
        if lens[c] < -rtol * scale:
            return "negative path length %r credited to cell %d" % (lens[c], c)
    S = sum(lens.values())
    fin = [r["pos"][k] - a[k] for k in range(3)]
    dist = math.sqrt(sum((fin[k] - p1[k]) ** 2 for k in range(3)))
    if abs(S * dn - dist) > 1e-7 * scale + rtol * dist:
        return "path_sum: credited lengths sum to %r (x|d| = %r) but the packet moved %r" % (S, S * dn, dist)
    for k in range(3):
        if abs(fin[k] - (p1[k] + S * d[k])) > 1e-7 * scale:
            return "position: coordinate %d ends at %r, start + S*d = %r" % (k, fin[k], p1[k] + S * d[k])
    # every credited cell is crossed by the straight line for (about) the credited length: slab intersection of p1 + t d, 0 <= t <= S
    # with the cell's box (tolerance in t: a wall position is known to 1e-7 scale, divided by the smallest non-zero direction component)
    dmin = min([abs(x) for x in d if x != 0.0] or [1.0])
    tol_t = 2e-7 * scale / dmin + rtol * S
    for c, L in lens.items():
        idx = (c // (n[1] * n[2]), (c // n[2]) % n[1], c % n[2])
        t0, t1 = 0.0, S
        for k in range(3):
            lo_, hi_ = idx[k] * cs[k], (idx[k] + 1) * cs[k]
            if d[k] == 0.0:
                if not (lo_ - 1e-7 * scale <= p1[k] <= hi_ + 1e-7 * scale):
                    t1 = t0 - 1.0
            else:
                ta, tb = (lo_ - p1[k]) / d[k], (hi_ - p1[k]) / d[k]
                if ta > tb:
                    ta, tb = tb, ta
                t0, t1 = max(t0, ta), min(t1, tb)
        geo = max(0.0, t1 - t0)
        if abs(L - geo) > tol_t:
            return ("cell_membership: cell %d = %r is credited the length %r but the straight line from the (repositioned) start spends %r inside it "
                    "(start %r, direction %r)" % (c, idx, L, geo, p1, d))
    # optical depth
    sH = p["sigma"][0]
    sHe = p["sigma"][1] if nions > 1 else 0.0
    tsum = 0.0
    terr = 1e-300
    for c, L in lens.items():
        nd, xH, xHe = b["cells"][c]
        tsum += nd * (sH * xH + sHe * xHe) * L
        terr += nd * (sH * xH + sHe * xHe) * 8 * 2.0 ** -52 * abs(j0) / p["w"]   # length only known up to ulp(j0)/w
        # the code shortens the last step by lmin * (1 - (tau_done - target) / tau): cancellation error ~ ulp(1) * tau(cell)
        terr += nd * (sH * xH + sHe * xHe) * 8 * 2.0 ** -52 * math.sqrt(sum(x * x for x in cs)) / max(min(abs(x) for x in d if x != 0.0), 1e-300)
    if j0 != 0.0:
        # a visit whose increments vanish against ulp(j0) is invisible: allow for one such visit of the most opaque cell
        terr += max(nd * (sH * xH + sHe * xHe) for (nd, xH, xHe) in b["cells"]) * 8 * 2.0 ** -52 * abs(j0) / p["w"]
    target = p["tau"]
    absorbed = r["out"] == 0
    if absorbed:
        if abs(tsum - target) > 1e-7 * target + terr:
            return "tau_sum: absorbed but sum kappa*length = %r differs from the target %r" % (tsum, target)
        if r["tau"] > 0.0:
            return "stops_iff_reached: reported INSIDE with %r optical depth left" % r["tau"]
        for k in range(3):
            if fin[k] < -1e-9 * scale or fin[k] > hi[k] + 1e-9 * scale:
                return "absorbed outside the block (coordinate %d = %r)" % (k, fin[k])
    else:
        if target < 1e290:
            if abs((target - r["tau"]) - tsum) > 1e-7 * max(target, tsum) + terr:
                return "tau_sum: used up %r but sum kappa*length = %r" % (target - r["tau"], tsum)
        if not (r["tau"] > 0.0):
            return "stops_iff_reached: left the block although the target was reached (remaining %r)" % r["tau"]
    # estimators: every ion and the heating terms grow by w*sigma*L (x excess energy)
    dJ = 8 * 2.0 ** -52 * abs(j0)       # a length is only known up to ulp(j0)/w when the estimators do not start at 0
    for c, vals in r["cells"].items():
        L = lens[c]
        for i in range(nions):
            exp = p["w"] * p["sigma"][i] * L
            if abs((vals[i] - j0) - exp) > 1e-7 * abs(exp) + dJ * (1.0 + p["sigma"][i]) + 1e-300:
                return "estimators_exact: cell %d ion %d grew by %r, expected w*sigma*L = %r" % (c, i, vals[i] - j0, exp)
        for hi_, (ion, nu) in enumerate([(0, 3.288e15), (1, 5.948e15)]):
            if ion >= nions:
                continue
            exp = p["w"] * p["sigma"][ion] * L * (p["energy"] - nu)
            if abs((vals[nions + hi_] - j0) - exp) > 1e-7 * abs(exp) + dJ * (1.0 + p["sigma"][ion] * abs(p["energy"] - nu)) + 1e-300:
                return "estimators_exact: cell %d heating term %d grew by %r, expected %r" % (c, hi_, vals[nions + hi_] - j0, exp)
    # exit geometry, exact rationals on the doubles
    if not absorbed:
        if r["out"] < 0 or r["out"] > 26:
            return "exit classification %d is not a TravelDirection" % r["out"]
        e = DEC[r["out"]]
        sk = []
        for k in range(3):
            if d[k] > 0:
                sk.append((Fr(hi[k]) - Fr(p1[k])) / Fr(d[k]))
            elif d[k] < 0:
                sk.append((Fr(0) - Fr(p1[k])) / Fr(d[k]))
            else:
                sk.append(None)
        fin_s = [x for x in sk if x is not None]
        if not fin_s:
            return "direction is zero"
        smin = min(fin_s)
        exact = set(k for k in range(3) if sk[k] is not None and sk[k] == smin)
        near = set(k for k in range(3) if sk[k] is not None and float(sk[k] - smin) <= 1e-9 * float(abs(smin)) + 1e-12 * scale)
        A = set(k for k in range(3) if e[k] != 0)
        # a start ON the upper boundary plane of a not-fixed axis gives an immediate exit through that plane only (see Coq:
        # C02_exit_upper_boundary_refuted); the exit claim is made for starts strictly below those planes
        # (in binary64 "on the plane" includes the last ulp below it: (int)(x * inv_cell_size) already gives n there)
        quirk = any(s[k] == 0 and (p1[k] >= hi[k] or int(p1[k] * inv[k]) >= n[k]) for k in range(3))
        if not quirk:
            if not A or not A <= near:
                return "exit_is_geometric: left through %s (axes %s) but the straight line leaves first through axes %s" % (
                    NAMES[r["out"]], sorted(A), sorted(exact))
            same_ops = len(exact) >= 2 and all(n[k] == 1 and p1[k] in (0.0, hi[k]) for k in exact) and \
                len(set((cs[k], abs(d[k])) for k in exact)) == 1
            if len(r["cells"]) <= 1 and same_ops and not exact <= A:
                # one cell per tied axis, start on its planes, same cell size and |d|: the tied wall distances are computed by
                # the same operations on the same doubles, so a tie that is exact must be seen as a tie
                return "exit_is_geometric: left through %s (axes %s) but the straight line leaves exactly through axes %s" % (
                    NAMES[r["out"]], sorted(A), sorted(exact))
            for k in A:
                if (e[k] > 0) != (d[k] > 0) or d[k] == 0:
                    return "exit_is_geometric: exit side of axis %d does not match the direction sign" % k
                plane = hi[k] if e[k] > 0 else 0.0
                if abs(fin[k] - plane) > 1e-9 * scale:
                    return "exit_is_geometric: final coordinate %d = %r is not on the exit plane %r" % (k, fin[k], plane)
            if abs(S - float(smin)) > 1e-7 * scale / max(dn, 1e-300) + rtol * float(smin):
                return "exit_is_geometric: credited length %r differs from the distance to the exit %r" % (S, float(smin))
    return None


# ----------------------------------------------------------------------------
def build(ck):
    d = ck.scratch
    ok1, log1 = vf.coq_extract("C02", d)
    ok2, log2 = (False, "") if not ok1 else vf.ocaml_build(d, ["c02_model"], os.path.join(vf.VERIF, "ocaml/c02_driver.ml"), "model", floats=True)
    ok3, log3 = build_impl(d)
    if not ok3:
        ck.breaks.append("harness does not compile against /repo/src/DensitySubGrid.hpp:\n" + log3[-2000:])
    if not (ok1 and ok2):
        ck.breaks.append("model extraction/build failed:\n" + (log1 + log2)[-2000:])
    return ok1 and ok2, ok3


def build_impl(d):
    # OMPI_SKIP_MPICXX: the header-only use of DensitySubGrid needs no MPI C++ bindings at link time
    return vf.cxx_build(os.path.join(vf.VERIF, "harness/c02/interact_harness.cpp"), os.path.join(d, "impl"), openmp=False,
                        extra=["-DOMPI_SKIP_MPICXX", "-ffp-contract=off"])


def run_both(d, okm, oki, lines):
    text = "\n".join(lines) + "\n"
    out_i = out_m = None
    if oki:
        rc, out_i = vf.run_lines([os.path.join(d, "impl")], text, timeout=1500)
        if rc != 0:
            out_i = out_i + ["<harness exited with %d>" % rc]
    if okm:
        rc, out_m = vf.run_lines([os.path.join(d, "model")], text, timeout=1500)
        if rc != 0:
            out_m = out_m + ["<model driver exited with %d>" % rc]
    return out_i, out_m


def parse_tags(line):
    t = {}
    if " #" in line:
        for kv in line.split(" #", 1)[1].split():
            if "=" in kv:
                k, v = kv.split("=", 1)
                t[k] = v
    return t


def parse_vis(tag):
    vis = []
    if tag:
        for x in tag.split(","):
            c, l = x.split(":")
            vis.append((int(c), D(l)))
    return vis


CORPUS_PACKETS = [
    # (block index in corpus, packet)
]


def corpus(nions):
    """hand-picked boundary cases: unit cube 1x1x1 and 2x2x2 with power-of-two cells"""
    sig = [1.0, 0.5] + [0.25] * (nions - 3) + [1.0]
    sig = sig[:nions]
    sig[nions - 1] = 1.0
    b1 = {"anchor": [0.0, 0.0, 0.0], "sides": [1.0, 1.0, 1.0], "n": (1, 1, 1), "cells": [(2.0, 0.5, 0.25)], "j0": 0.0, "phys": False}
    b2 = {"anchor": [0.0, 0.0, 0.0], "sides": [2.0, 2.0, 2.0], "n": (2, 2, 2), "cells": [(1.0 + i, 0.5, 0.0) for i in range(8)], "j0": 0.25, "phys": False}
    b3 = {"anchor": [-1.0, 2.0, 0.5], "sides": [7.0, 5.0, 3.0], "n": (7, 5, 3), "cells": [(0.0 if i % 3 == 0 else 1.0, 1.0, 1.0) for i in range(105)], "j0": 0.0, "phys": False}
    r3 = 1.0 / math.sqrt(3.0)
    r2 = 1.0 / math.sqrt(2.0)

    def P(inp, pos, d, tau, w=1.0, en=4.0e15):
        return {"input": inp, "pos": list(pos), "dir": list(d), "tau": tau, "w": w, "energy": en, "sigma": list(sig)}
    cases = [
        (b1, [P(0, (0.5, 0.5, 0.5), (1.0, 0.0, 0.0), HUGE), P(0, (0.5, 0.5, 0.5), (1.0, 0.0, 0.0), 0.25),
              P(ENC[(-1, -1, -1)], (0.0, 0.0, 0.0), (r3, r3, r3), HUGE),          # corner to corner
              P(ENC[(1, 1, 1)], (1.0, 1.0, 1.0), (-r3, -r3, -r3), HUGE),
              P(0, (0.0, 0.5, 0.5), (-1.0, 0.0, 0.0), HUGE),                       # on the lower face, moving out: zero-length visit
              P(0, (1.0, 0.5, 0.5), (1.0, 0.0, 0.0), HUGE),                        # on the upper face, moving out: no visit
              P(0, (1.0, 0.5, 0.5), (-1.0, 0.0, 0.0), HUGE),                       # on the upper face, moving IN: the quirk
              P(0, (0.25, 0.25, 0.5), (r2, r2, 0.0), 1e-3),
              P(0, (0.25, 0.25, 0.5), (r2, r2, 0.0), HUGE)]),                      # leaves through an edge
        (b2, [P(ENC[(-1, -1, -1)], (0.0, 0.0, 0.0), (r3, r3, r3), HUGE),           # through the central corner
              P(ENC[(-1, -1, 0)], (0.0, 0.0, 0.5), (r2, r2, 0.0), HUGE),           # along a diagonal plane: edge crossings
              P(ENC[(-1, 0, 0)], (0.0, 1.0, 1.0), (1.0, 0.0, 0.0), HUGE),          # along an interior cell edge
              P(0, (1.0, 1.0, 1.0), (-r3, -r3, -r3), HUGE),                        # starts on the central corner
              P(0, (1.0, 1.0, 1.0), (0.0, 0.0, 1.0), 0.5),
              P(ENC[(0, 1, 0)], (0.5, 2.0, 0.5), (0.0, -1.0, 0.0), 1.0 * 0.5 * 3.0 * 1.0)]),   # target = first partial sum exactly
        (b3, [P(ENC[(-1, 0, 0)], (-1.0, 4.5, 2.0), (1.0, 0.0, 0.0), HUGE),
              P(ENC[(-1, -1, -1)], (-1.0, 2.0, 0.5), (r3, r3, r3), HUGE),
              P(ENC[(1, 1, 1)], (6.0, 7.0, 3.5), (-r3, -r3, -r3), HUGE),
              P(0, (2.5, 4.5, 2.0), (0.6, 0.8, 0.0), 2.0),
              P(0, (2.5, 4.5, 2.0), (0.0, 0.0, -1.0), HUGE)]),
    ]
    return cases


def run(ck):
    ok_proof = ck.prove()
    d = ck.scratch
    okm, oki = build(ck)
    nions = 14
    if oki:
        rc, info = vf.run_lines([os.path.join(d, "impl"), "--info"], "")
        kv = dict(zip(info[0].split()[0::2], info[0].split()[1::2])) if info else {}
        nions = int(kv.get("nions", 14))
        if kv.get("helium") != "1" or kv.get("variable_abundances") != "0" or kv.get("lockfree") != "0" or kv.get("heatingterms") != "2" \
                or kv.get("ion_H") != "0" or kv.get("ion_He") != "1":
            ck.breaks.append("configuration of /repo differs from the one modelled (HAS_HELIUM, no VARIABLE_ABUNDANCES, 2 heating terms): %r" % kv)
    rng = ck.rng
    nblocks = 120 if ck.quick else 1200
    per_block = 27 if ck.quick else 40
    # ---- pass 1: geometry with a target beyond the block's total
    cases = []   # (block, [packets])
    for (b, ps) in corpus(nions):
        cases.append((b, ps))
    ncorpus = sum(len(ps) for _, ps in cases)
    for i in range(nblocks):
        b = gen_block(rng, i)
        ps = [gen_packet(rng, b, nions, j, cls=(j % 27 if j < 27 else None)) for j in range(per_block)]
        cases.append((b, ps))

    def flatten(cases):
        lines, owner = [], []
        for bi, (b, ps) in enumerate(cases):
            for l in block_lines(b):
                lines.append(l)
                owner.append((bi, None))
            for pi, p in enumerate(ps):
                lines.append(pkt_line(p))
                owner.append((bi, pi))
        return lines, owner
    lines1, owner1 = flatten(cases)
    out_i1, out_m1 = run_both(d, okm, oki, lines1)
    # ---- pass 2: same geometries, targets at / around the partial sums
    cases2 = []
    if out_m1 is not None and len(out_m1) == len(lines1):
        cur = None
        for k, (bi, pi) in enumerate(owner1):
            if pi is None:
                continue
            b, ps = cases[bi]
            if cur is None or cur[0] is not b:
                cur = (b, [])
                cases2.append(cur)
            p = ps[pi]
            if p["tau"] != HUGE:
                continue
            vis = parse_vis(parse_tags(out_m1[k]).get("vis", ""))
            for t in second_pass_taus(rng, b, p, vis):
                q = dict(p)
                q["tau"] = t
                cur[1].append(q)
    else:
        for (b, ps) in cases:
            qs = []
            for p in ps:
                q = dict(p)
                q["tau"] = 10.0 ** (rng.uniform() * 4 - 3)
                qs.append(q)
            cases2.append((b, qs))
    cases2 = [(b, ps) for (b, ps) in cases2 if ps]
    lines2, owner2 = flatten(cases2)
    out_i2, out_m2 = run_both(d, okm, oki, lines2)

    cov = ck.coverage
    hist_in, hist_out, hist_zero, hist_abs, hist_ties, hist_shape = {}, {}, {}, {}, {}, {}
    sigs = set()
    neval = nmis = nzl = 0
    norac = orac_fail = 0
    samples = []
    viol_done = 0
    for (cs_, lines, owner, out_i, out_m) in ((cases, lines1, owner1, out_i1, out_m1), (cases2, lines2, owner2, out_i2, out_m2)):
        if out_i is None:
            continue
        if out_m is not None and (len(out_m) != len(lines) or len(out_i) != len(lines)):
            ck.breaks.append("correspondence C02: line counts differ (input %d, impl %d, model %d); last impl line %r, last model line %r" % (
                len(lines), len(out_i), len(out_m), out_i[-1:] and out_i[-1][:120], out_m[-1:] and out_m[-1][:120]))
        for k, (bi, pi) in enumerate(owner):
            if k >= len(out_i):
                break
            li = out_i[k]
            lm_raw = out_m[k] if (out_m is not None and k < len(out_m)) else None
            lm = lm_raw.split(" #")[0] if lm_raw is not None else None
            b, ps = cs_[bi]
            if pi is None:
                if lm is not None and li != lm:
                    ck.breaks.append("correspondence C02: set-up line differs: impl=%r model=%r" % (li, lm))
                continue
            p = ps[pi]
            why = None
            if lm is not None:
                neval += 1
                if li != lm:
                    nmis += 1
                    why = oracle(b, p, li, nions)
                    if viol_done < 3:
                        viol_done += 1
                        desc = "model and DensitySubGrid::interact disagree: impl=%s model=%s" % (short(li), short(lm))
                        rp = {"block": block_lines(b), "packet": pkt_line(p), "impl_out": li, "model_out": lm_raw, "failing_clause": why,
                              "readable": readable(b, p)}
                        if why:
                            ck.violation("C02 fails on the real interact: %s (%s)" % (why, desc), rp, key={"kind": "interact", "clause": why.split(":")[0]})
                        else:
                            ck.breaks.append("correspondence C02 model <-> DensitySubGrid::interact: " + desc + " input=" + json.dumps(readable(b, p)))
                # statistics from the model's tags
                t = parse_tags(lm_raw)
                r = parse_R(li, nions)
                if r is not None:
                    s = DEC[p["input"]]
                    hist_in[NAMES[p["input"]]] = hist_in.get(NAMES[p["input"]], 0) + 1
                    on = NAMES[r["out"]] if 0 <= r["out"] < 27 else str(r["out"])
                    hist_out[on] = hist_out.get(on, 0) + 1
                    nz = sum(1 for x in p["dir"] if x == 0.0)
                    hist_zero[str(nz)] = hist_zero.get(str(nz), 0) + 1
                    ab = "absorbed" if r["out"] == 0 else "left"
                    hist_abs[ab] = hist_abs.get(ab, 0) + 1
                    sh = "%dx%dx%d" % tuple(b["n"])
                    hist_shape[sh] = hist_shape.get(sh, 0) + 1
                    vis = parse_vis(t.get("vis", ""))
                    n = b["n"]
                    tri = [(c // (n[1] * n[2]), (c // n[2]) % n[1], c % n[2]) for c, _ in vis]
                    if "idx" in t and r["out"] != 0:
                        tri.append(tuple(int(x) for x in t["idx"].split(",")))
                    ties = sum(1 for u, v in zip(tri, tri[1:]) if sum(1 for q in range(3) if u[q] != v[q]) >= 2)
                    hist_ties[str(min(ties, 3))] = hist_ties.get(str(min(ties, 3)), 0) + 1
                    zl = int(t.get("zerolen", "0"))
                    nzl += 1 if zl else 0
                    if len(vis) >= 2 or ties or zl or r["out"] == 0:
                        sigs.add((sh, p["input"], r["out"], tuple((x > 0) - (x < 0) for x in p["dir"]), tuple(c for c, _ in vis), ties, zl))
                    if len(samples) < 3 and len(vis) >= 3:
                        samples.append({"input": readable(b, p), "impl_out": short(li, 400), "model_tags": lm_raw.split(" #")[1][:300]})
            # the oracle as extra evidence on every answer of the real code (does not decide the verdict unless something broke)
            if why is None:
                why = oracle(b, p, li, nions)
            norac += 1
            if why:
                orac_fail += 1
                p.setdefault("_oracle", why)
    # the witness of C02_exit_upper_boundary_refuted, replayed on the real code (it is corpus packet "on the upper face, moving IN")
    if out_i1 is not None:
        for k, (bi, pi) in enumerate(owner1):
            if pi is None or k >= len(out_i1):
                continue
            b, ps = cases[bi]
            p = ps[pi]
            if tuple(b["n"]) == (1, 1, 1) and b["sides"] == [1.0, 1.0, 1.0] and p["input"] == 0 and p["pos"] == [1.0, 0.5, 0.5] and p["dir"] == [-1.0, 0.0, 0.0]:
                r = parse_R(out_i1[k], nions)
                cov["refuted_witness_on_real_code"] = {
                    "input": "unit block 1x1x1, INSIDE, position (1,0.5,0.5), direction (-1,0,0)", "impl_out": short(out_i1[k], 120),
                    "reproduced(exit FACE_X_P, nothing credited, position unchanged)": bool(r and r["out"] == 21 and not r["cells"] and r["pos"] == [1.0, 0.5, 0.5])}
                break
    cov["evaluations"] = neval
    cov["distinct_nontrivial"] = len(sigs)
    cov["rule"] = ("evaluations = packets for which exit classification, final position (3 doubles), remaining optical depth and every changed cell "
                   "(14 mean intensities + 2 heating terms each) of the real interact and of the extracted model agree bit for bit; blocks: 8 fixed shapes "
                   "then random 1..7 x 1..5 x 1..3, 6 geometry modes (cubic 2^k cells, cubic non-representable cells, the unit-test box, random anchor and "
                   "sides, anisotropic 2^k, unit box), 6 density modes incl. all-zero and 1/3 zeros; packets: all 27 entry classes per block, 8 direction modes "
                   "(axis aligned, exact diagonals, proportional to cell size, rational, random, nearly aligned; 0/1/2 zero components), starts on cell walls "
                   "incl. block faces/edges/corners, cell centres, one ulp next to a wall, random; pass 1 uses a target beyond the total, pass 2 re-sends each "
                   "geometry with targets equal to / one ulp around a partial sum at a cell boundary, inside a cell, beyond the total, tiny. "
                   "A packet is non-trivial when it has >= 2 visits, a tie (>= 2 indices change in one step), a zero-length visit or is absorbed; "
                   "distinct = distinct (shape, entry class, exit class, direction sign pattern, visited cell sequence, ties, zero-length visits)")
    cov["histogram_entry_class"] = hist_in
    cov["histogram_exit_class"] = hist_out
    cov["histogram_zero_direction_components"] = hist_zero
    cov["histogram_absorbed"] = hist_abs
    cov["histogram_ties_per_packet(3=3+)"] = hist_ties
    cov["histogram_block_shape"] = hist_shape
    cov["packets_with_zero_length_visit"] = nzl
    cov["corpus_packets"] = ncorpus
    cov["mismatches"] = nmis
    cov["oracle_evaluations"] = norac
    cov["oracle_disagreements_extra_evidence"] = orac_fail
    cov["samples"] = samples
    ck.log("correspondence: %d packets compared, %d mismatches, %d distinct non-trivial; oracle (extra evidence) %d/%d disagree" % (
        neval, nmis, len(sigs), orac_fail, norac))
    # oracle disagreements on an agreeing run: listed for triage, not a verdict (DESIGN 2.4)
    tri = []
    for (cs_, owner) in ((cases, owner1), (cases2, owner2)):
        for (bi, pi) in owner:
            if pi is not None and "_oracle" in cs_[bi][1][pi] and len(tri) < 5:
                tri.append({"why": cs_[bi][1][pi]["_oracle"], "input": readable(cs_[bi][0], cs_[bi][1][pi])})
    cov["oracle_disagreement_examples"] = tri
    # ---- search on break: the oracle over every answer of the real code
    if ck.breaks and oki:
        found = 0
        for (cs_, lines, owner, out_i) in ((cases, lines1, owner1, out_i1), (cases2, lines2, owner2, out_i2)):
            if out_i is None:
                continue
            for k, (bi, pi) in enumerate(owner):
                if pi is None or k >= len(out_i):
                    continue
                b, ps = cs_[bi]
                p = ps[pi]
                why = p.get("_oracle")
                if why:
                    found += 1
                    if found <= 3 and not any(isinstance(v["replay"], dict) and v["replay"].get("packet") == pkt_line(p) for v in ck.violations):
                        ck.violation("C02 fails on the real interact: " + why,
                                     {"block": block_lines(b), "packet": pkt_line(p), "impl_out": out_i[k], "failing_clause": why, "readable": readable(b, p)},
                                     key={"kind": "interact", "clause": why.split(":")[0]})
        ck.notes.append("search-on-break: oracle evaluated on %d answers of the real code, %d fail" % (norac, found))
    ck.assumptions += [
        "theorems are about the model instantiated with real numbers (exact arithmetic); the binary64 instance of the SAME definitions is what is compared with the code",
        "binary64 arithmetic of the model is Coq's PrimFloat extracted through ExtrOCamlFloats to OCaml's float; (int_fast32_t)(double) is modelled as cvttsd2si",
        "configuration modelled: HAS_HELIUM, no VARIABLE_ABUNDANCES/USE_LOCKFREE/SUBGRID_CELL_LOCK, assertions off (checked by the harness --info)",
        "harness compiled with -O1 -ffp-contract=off -DOMPI_SKIP_MPICXX against /repo/src (header-only use of DensitySubGrid)",
        "premise of the theorems: some direction component d_j is non-zero with cell_size_j < DBL_MAX * |d_j| (true for every unit direction and cell sizes below 1e308/sqrt 3)",
        "exit_is_geometric additionally assumes that a packet classified INSIDE does not start on the block's upper boundary plane of an axis while not moving outward on that axis; without it the claim is refuted (C02_exit_upper_boundary_refuted)",
    ]
    ck.resolve_breaks_without_input()


def short(l, n=160):
    return l if len(l) <= n else l[:n] + "..."


def readable(b, p):
    return {"anchor": b["anchor"], "sides": b["sides"], "n": list(b["n"]), "j0": b["j0"], "input": NAMES[p["input"]], "pos": p["pos"],
            "dir": p["dir"], "tau": p["tau"], "w": p["w"], "energy": p["energy"], "sigma": p["sigma"],
            "cells(n,xH,xHe)": b["cells"] if len(b["cells"]) <= 12 else b["cells"][:12] + ["..."]}


def replay(ck, rp):
    d = ck.scratch
    ok3, log3 = build_impl(d)
    if not ok3:
        print(log3[-2000:])
        return 2
    r = rp["replay"]
    lines = list(r["block"]) + [r["packet"]]
    rc, out = vf.run_lines([os.path.join(d, "impl")], "\n".join(lines) + "\n")
    print("\n".join(short(x, 300) for x in out))
    # rebuild block / packet dicts from the protocol lines
    f = r["block"][0].split()
    vals = [D(x) for x in f[1:7]]
    n = tuple(int(x) for x in f[7:10])
    g = r["block"][1].split()[1:]
    cells = [(D(g[3 * i]), D(g[3 * i + 1]), D(g[3 * i + 2])) for i in range(n[0] * n[1] * n[2])]
    b = {"anchor": vals[0:3], "sides": vals[3:6], "n": n, "cells": cells, "j0": D(r["block"][2].split()[1]), "phys": False}
    q = r["packet"].split()
    pv = [D(x) for x in q[2:]]
    p = {"input": int(q[1]), "pos": pv[0:3], "dir": pv[3:6], "tau": pv[6], "w": pv[7], "energy": pv[8], "sigma": pv[9:]}
    why = oracle(b, p, out[-1] if out else "", len(p["sigma"]))
    print("REPLAY:", why or "property holds on this input")
    return 1 if why else 0
