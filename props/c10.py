# C10  hydro results do not depend on the subgrid layout or on the execution order inside a phase.
# Proof (Coq) + ties, every run (shared machinery with C04: props/c04.py, harness/c04/*):
#   (1) face lists of the real gradient AND flux sweeps == model lists, and pass faces_once_check            (premise of layout_independent)
#   (2) all eight per-cell / per-face operations of a step: binary64 model == real Hydro bit for bit
#   (3) whole steps: the extracted binary64 step_layout == the real sweeps driven sequentially, bit for bit, on many layouts
#   (4) observed read/write sets of the real operations (perturb one input field at a time) within the declared sets of C10_Defs.declared,
#       and the accumulate form: result == fl(previous +/- contribution) exactly
#   (5) oracle on the real code: layouts x task orders agree to round-off and equal the undivided sequential sweep; repetition is bit-identical;
#       two faces sharing a cell commute
import os, math, json
import vf
import c04

LEVEL = "proof"
CLAIM = dict(cat="proof", design="§3 C10 (shares §3 C04 machinery)",
   text="Coq theorems over the real-number instance of a model of one hydro step (gradient sweeps -> slope limiter -> prediction -> flux sweeps -> conserved update -> primitive update; "
        "per-face and per-cell operations transcribed from Hydro.hpp/HydroBoundary.hpp/HydroDensitySubGrid.hpp, any Riemann function): "
        "C10_accumulate_phase_order_irrelevant / C10_cellwise_phase_order_irrelevant (abstract: operations that only add commutatively into cells and read a view adding does not change; "
        "cell-wise rewrites of a duplicate-free cell list) ; C10_gradient_phase_commutes, C10_flux_phase_commutes (the real phases have that shape: sums into gradients / delta accumulators, "
        "min/max into limiter bounds, reading only primitives resp. primitives+conserved+gradients); C10_phase_commutes (a whole step is independent of the order inside each phase); "
        "C10_layout_independent (with C04_faces_once: the sweeps of ANY two layouts of the same grid give the same cell states), C10_equals_sequential_reference (= the plain sequential sweep over "
        "the undivided grid), C10_schedule_independent (any phase-wise order of any layout's operations gives that state); C10_cellwise_ops_respect_declared_sets, C10_declared_sets_consistent. "
        "Tie, every run: face lists of the real gradient and flux sweeps == model and pass faces_once_check; all eight operations bit-exact against the real Hydro; WHOLE STEPS of the extracted "
        "binary64 model == the real sweeps bit for bit on 6+ layouts x periodic/walls x 4 initial states; read/write sets of the real operations observed by perturbing one field at a time lie inside "
        "the declared sets, and accumulating operations satisfy result == fl(previous +/- contribution) bit for bit. Oracle on the real code: 6 layouts x 3 task orders agree to <= 1e-12 of the field scale "
        "with the undivided sequential sweep after several steps, repeated sequential runs are bit-identical, two faces sharing a cell commute. Task-table tie (shared with C07, theorem C07_phases_ordered): on every run the REAL hydro task tables of several layouts are dumped and every pair of tasks in consecutive phases that touch a common subgrid must be connected by a dependency path; otherwise a legal order of the REAL task objects that starts the later task first is executed and reported as the failing history.",
   note="Driver-side ties without a model: the turbulence-forcing kick (real AlveliusTurbulenceForcing through the driver's atomic-counter loop, sequential vs 2-8 threads, bit-identical); task-table phase order executed on the real task objects. Trusted: Coq kernel + standard real-number axioms incl. functional extensionality (states are functions); extraction + OCaml driver for the correspondences. "
        "Premise (a) phases_ordered is proved in C07, not here: C07_phases_ordered (for every layout and periodicity, any two tasks of the hydro task table that touch the same subgrid and lie in consecutive "
        "phases gradient sweeps -> slope limiter -> primitive prediction -> flux sweeps -> conserved update -> primitive update are linked by a direct child edge, and every phase has a task on every subgrid) and "
        "C07_phases_ordered_in_every_run (hence, for every thread count and schedule, a task touching a subgrid starts only after all earlier-phase tasks touching it have stopped); it is tied to the code on every run "
        "of ./check C07 by the extracted phases_ordered_check evaluated on the real dumped task tables and by a phase oracle on the real worker-loop runs. So every multi-threaded run is SOME phase-wise order of tasks. "
        "NOT proved: (b) single_thread_deterministic -- one thread has exactly one schedule. With (a), C10_schedule_independent gives thread-count "
        "independence over the reals; 'up to floating-point summation round-off' is measured (max 1e-12 of the field scale required, ~1e-15 observed), not bounded by proof. Bit-for-bit reproducibility with one "
        "thread is evidenced by bit-identical repetition of the sequential executor and by whole-step bit-exactness of the functional model, not proved for the task-based driver. "
        "Thread counts are emulated at task granularity (pseudo-random order of whole sweeps inside a phase), not by running the OpenMP driver. The time-step computation (get_timestep, CFL, TimeLine) is outside the model: dt is an input.",
   technique="Coq: Permutation-invariance of folds of commuting updates, composed with the face bijection of C04; bit-exact binary64 correspondence per operation and per whole step; perturbation probing of the real operations")

NF = c04.NF
hx, bd = c04.hx, c04.bd
OPN = {0: "gradient pair", 1: "gradient boundary", 2: "slope limiter", 3: "prediction", 4: "flux pair", 5: "flux boundary", 6: "conserved update", 7: "primitive update"}


def build(ck, d):
    ok = c04.build(ck, d, want=("model", "faces", "cells", "step"))
    d10 = os.path.join(d, "m10")
    ok1, log1 = vf.coq_extract("C10", d10)
    ok2, log2 = (False, "") if not ok1 else vf.ocaml_build(d10, ["c10_model"], os.path.join(vf.VERIF, "ocaml/c10_driver.ml"), "model", floats=True)
    ok["model10"] = ok1 and ok2
    if not ok["model10"]:
        ck.breaks.append("C10 model extraction/build failed:\n" + (log1 + log2)[-2000:])
    return ok


def model10(d):
    return os.path.join(d, "m10", "model")


# ---------------------------------------------------------------------------------------------------------------
# (2) all eight operations
def gen_ops_line(rng, n):
    c = c04.gen_line(rng, n)
    head = " ; ".join(c["line"].split(" ; ")[:3])
    i = c["i"]
    dx = [10 ** (rng.uniform() * 2 - 1) for _ in range(3)]
    dt = c["dt"]
    k = n % 6
    G = "G %d 0 1 %s" % (i, hx(1 / dx[i]))
    S = lambda l: "S %d %s %s %s" % (l, hx(dx[0]), hx(dx[1]), hx(dx[2]))
    if k == 0:
        ops = [G]
    elif k == 1:
        ops = ["H %d %d 0 %s" % (rng.below(3), i, hx(rng.choice([1, -1]) / dx[i]))]
    elif k == 2:
        ops = [S(0)]
    elif k == 3:
        ops = ["P 0 %s" % hx(dt * 0.5)]
    elif k == 4:
        ops = [G, "G %d 1 0 %s" % ((i + 1) % 3, hx(1 / dx[(i + 1) % 3])), "H 2 %d 1 %s" % (i, hx(-1 / dx[i])), S(0), S(1), "P 0 %s" % hx(dt * 0.5), "P 1 %s" % hx(dt * 0.5),
               "F %d 0 1 %s %s %s" % (i, hx(dx[i]), hx(c["A"]), hx(dt)), "B 2 %d 0 %s %s %s" % (i, hx(-dx[i]), hx(c["A"]), hx(dt)), "U 0 %s" % hx(dt), "U 1 %s" % hx(dt),
               "R 0 %s" % hx(1 / (dx[0] * dx[1] * dx[2])), "R 1 %s" % hx(1 / (dx[0] * dx[1] * dx[2]))]
    else:
        ops = c["line"].split(" ; ")[3:]
    return dict(c, line=head + " ; " + " ; ".join(ops), ops=ops)


def ops_tie(ck, d, n):
    cases = [gen_ops_line(ck.rng, k) for k in range(n)]
    txt = "\n".join(c["line"] for c in cases) + "\n"
    rc_i, out_i = vf.run_lines([os.path.join(d, "cellops")], txt, timeout=900)
    rc_m, out_m = vf.run_lines([model10(d), "cells"], txt, timeout=900)
    st = {"lines": n, "mismatches": 0}
    sig = set()
    if rc_i != 0 or len(out_i) != n or len(out_m) != n:
        ck.breaks.append("cell-operations harness / model driver failed (rc=%d, %d and %d of %d lines)" % (rc_i, len(out_i), len(out_m), n))
        return st, sig
    for c, oi, om in zip(cases, out_i, out_m):
        a, b = c04.canon(oi.split()), c04.canon(om.split())
        if a != b:
            st["mismatches"] += 1
            if st["mismatches"] <= 4:
                df = [(k, a[k], b[k]) for k in range(min(len(a), len(b))) if a[k] != b[k]][:6]
                ck.breaks.append("correspondence C10 model <-> real Hydro, ops %r: fields (index, real, model) %s\n input: %s" % (c["ops"], df, c["line"]))
        else:
            sig.add((tuple(o.split()[0] for o in c["ops"]), c["mode"], a[0][:5], a[15][:5]))
    return st, sig


# ---------------------------------------------------------------------------------------------------------------
# (3) whole steps
def whole_step(d, cfg):
    """real sweeps (step harness) vs the extracted binary64 step_layout, same initial state, dt of every step taken from the real run"""
    rc, out = vf.run_lines([os.path.join(d, "step")], c04.step_line(dict(cfg, dump=1, order=0)), timeout=600)
    T = [l.split() for l in out if l.startswith("T ")]
    I = [l.split()[2:] for l in out if l.startswith("I ")]
    D = [l.split()[2:] for l in out if l.startswith("D ")]
    G = [l.split()[1:] for l in out if l.startswith("Geo")]
    if rc != 0 or not G or len(T) != cfg["nsteps"] + 1:
        return None, "real run failed"
    n = [cfg["N"][k] // cfg["lay"][k] for k in range(3)]
    head = "%d %d %d %d %d %d %d %d %d %d %s %s" % (n[0], n[1], n[2], cfg["lay"][0], cfg["lay"][1], cfg["lay"][2], cfg["per"][0], cfg["per"][1], cfg["per"][2],
                                                     cfg["bk"], hx(cfg["gamma"]), hx(1e99))
    line = head + " ; " + " ".join(G[0]) + " ; " + " ".join(t[2] for t in T[1:]) + " ; " + " ; ".join(" ".join(r) for r in I)
    rc2, om = vf.run_lines([model10(d), "step"], line + "\n", timeout=600)
    if not om:
        return None, "model run failed"
    real = c04.canon([x for r in D for x in r])
    mod = c04.canon(om[0].split())
    nd = [k for k in range(min(len(real), len(mod))) if real[k] != mod[k]]
    if len(real) != len(mod):
        return None, "length %d vs %d" % (len(real), len(mod))
    return (len(real), nd), None


def whole_steps_tie(ck, d, quick):
    rng = ck.rng
    cfgs = []
    for lay in c04.LAYOUTS_844:
        for per, init in (((1, 1, 1), 0), ((0, 0, 0), 1), ((1, 0, 1), 2), ((1, 1, 1), 3)):
            cfgs.append(dict(N=(8, 4, 4), lay=lay, per=per, bk=2, init=init, gamma=rng.choice([5 / 3, 1.4, 2.0]), nsteps=2, cfl=0.2, seed=rng.below(1 << 30),
                             mach=rng.choice([0.3, 0.8]), h=rng.choice([(0.125, 0.25, 0.2), (1.0, 1.0, 1.0), (0.3, 0.1, 0.7)])))
    for N, lays in (((6, 6, 2), [(3, 2, 1), (6, 3, 2)]), ((4, 3, 5), [(2, 3, 1), (1, 1, 1)]), ((2, 1, 1), [(2, 1, 1), (1, 1, 1)])):
        for lay in lays:
            for bk in (0, 1, 2):
                cfgs.append(dict(N=N, lay=lay, per=(rng.below(2), rng.below(2), rng.below(2)), bk=bk, init=rng.below(4), gamma=5 / 3, nsteps=2 if quick else 4, cfl=0.2,
                                 seed=rng.below(1 << 30), mach=0.5, h=(0.25, 0.5, 0.125)))
    st = {"runs": 0, "values_compared": 0, "mismatching_runs": 0}
    for cfg in cfgs:
        r, err = whole_step(d, cfg)
        if r is None:
            ck.breaks.append("whole-step correspondence could not be run (%s) for %s" % (err, cfg))
            continue
        st["runs"] += 1
        st["values_compared"] += r[0]
        if r[1]:
            st["mismatching_runs"] += 1
            if st["mismatching_runs"] <= 3:
                ck.breaks.append("whole step: extracted binary64 step_layout differs from the real sweeps in %d of %d values (first at cell %d field %d) for %s"
                                 % (len(r[1]), r[0], r[1][0] // 10, r[1][0] % 10, cfg))
    return st


# ---------------------------------------------------------------------------------------------------------------
# (4) read/write sets and accumulate form, observed on the real operations
def declared_sets(d):
    rc, out = vf.run_lines([model10(d), "decl"], "")
    dec = {}
    for l in out:
        h, r, w = l.split("|")
        name, accf = h.split()
        dec[int(name)] = dict(acc=(accf == "true"), reads=set(int(x) for x in r.split()), writes=set(int(x) for x in w.split()))
    return dec


def base_case(rng, k):
    """a physically consistent pair with active gradients/limiters; k varies regime (limiter firing etc.)"""
    gamma = rng.choice([5 / 3, 1.4])
    dxs = [10 ** (rng.uniform() - 0.5) for _ in range(3)]
    vol = dxs[0] * dxs[1] * dxs[2]
    cells = [c04.gen_cell(rng, gamma, vol, dxs, "gen", False) for _ in range(2)]
    for c in cells:
        c[30:33] = [2 * rng.uniform() - 1 for _ in range(3)]
        c[33] = 0.01 * c[9]
    i = rng.below(3)
    a = max(math.sqrt(gamma * c[4] / c[0]) + abs(c[1 + i]) for c in cells)
    dt = dxs[i] / a * [0.2, 2.0, 20.0][k % 3]
    return dict(gamma=gamma, dxs=dxs, vol=vol, cells=cells, i=i, dt=dt, A=vol / dxs[i], maxv=rng.choice([1e99, 1e99, 0.5]))


def op_line(b, op, cells):
    i, dxs = b["i"], b["dxs"]
    ops = {0: "G %d 0 1 %s" % (i, hx(1 / dxs[i])), 1: "H %d %d 0 %s" % (b.get("bk", 2), i, hx(b.get("sg", 1) / dxs[i])),
           2: "S 0 %s %s %s" % (hx(dxs[0]), hx(dxs[1]), hx(dxs[2])), 3: "P 0 %s" % hx(0.5 * b["dt"]),
           4: "F %d 0 1 %s %s %s" % (i, hx(dxs[i]), hx(b["A"]), hx(b["dt"])), 5: "B %d %d 0 %s %s %s" % (b.get("bk", 2), i, hx(b.get("sg", 1) * dxs[i]), hx(b["A"]), hx(b["dt"])),
           6: "U 0 %s" % hx(b["dt"]), 7: "R 0 %s" % hx(1 / b["vol"])}[op]
    return "2 %s %s ; " % (hx(b["gamma"] if op != 7 or not b.get("iso") else 1.0), hx(b["maxv"])) + " ; ".join(" ".join(hx(x) for x in c) for c in cells) + " ; " + ops


def perturb(x, rng):
    if x == 0.0:
        return 0.37 * (1 if rng.below(2) else -1)
    if abs(x) > 1e300:
        return x * 0.5
    return x * (1.0 + 0.013 * (1 + rng.below(5)))


def rw_probe(ck, d, nbase):
    dec = declared_sets(d)
    st = {"base_states": 0, "probes": 0, "observed": {}, "violations": 0, "accumulate_checks": 0}
    if len(dec) != 8:
        ck.breaks.append("could not read the declared read/write sets from the extracted model")
        return st
    rng = ck.rng
    lines, meta = [], []
    for k in range(nbase):
        b = base_case(rng, k)
        b["bk"], b["sg"] = rng.below(3), rng.choice([1, -1])
        b["iso"] = (k % 4 == 3)
        for op in range(8):
            pair = op in (0, 4)
            cells = [list(c) for c in b["cells"]]
            lines.append(op_line(b, op, cells))
            meta.append((k, op, None, b))
            for cell in (0, 1) if pair else (0,):
                for f in range(NF):
                    cc = [list(c) for c in b["cells"]]
                    cc[cell][f] = perturb(cc[cell][f], rng)
                    lines.append(op_line(b, op, cc))
                    meta.append((k, op, (cell, f), b))
    rc, out = vf.run_lines([os.path.join(d, "cellops")], "\n".join(lines) + "\n", timeout=1200)
    if rc != 0 or len(out) != len(lines):
        ck.breaks.append("cell-operations harness failed during read/write probing (rc=%d, %d of %d)" % (rc, len(out), len(lines)))
        return st
    st["probes"] = len(lines)
    st["base_states"] = nbase
    obs_r = {op: set() for op in range(8)}
    obs_w = {op: set() for op in range(8)}
    base_out = {}
    nv = 0
    for (k, op, pert, b), l, o in zip(meta, lines, out):
        o = o.split()
        inp = [hx(x) for c in (b["cells"]) for x in c]
        if pert is None:
            base_out[(k, op)] = o
            for cell in (0, 1):
                for f in range(NF):
                    if o[cell * NF + f] != inp[cell * NF + f]:
                        if cell == 1 and op not in (0, 4):
                            why = "%s wrote field %d of a cell it was not given" % (OPN[op], f)
                        elif f not in dec[op]["writes"]:
                            why = "%s writes field %d, which is outside its declared write set" % (OPN[op], f)
                        else:
                            obs_w[op].add(f)
                            continue
                        nv += 1
                        if nv <= 3:
                            ck.violation("C10 premise fails on the real code: " + why, {"kind": "rw", "sub": "write", "line": l, "slot": cell * NF + f, "op": op}, key={"kind": "rw", "op": op})
            continue
        cell, f = pert
        bo = base_out[(k, op)]
        # which outputs changed because input field f of that cell changed?
        dep = False
        for c2 in (0, 1):
            for g in range(NF):
                if o[c2 * NF + g] == bo[c2 * NF + g]:
                    continue
                if c2 == cell and g == f:
                    # the field itself: pass-through if not written; for accumulating ops additive (checked exactly below)
                    if g in dec[op]["writes"] and not dec[op]["acc"]:
                        dep = True
                    continue
                dep = True
        if dep:
            if f in dec[op]["reads"]:
                obs_r[op].add(f)
            else:
                nv += 1
                if nv <= 3:
                    ck.violation("C10 premise fails on the real code: the result of %s depends on field %d of %s cell, which is outside its declared read set%s"
                                 % (OPN[op], f, "its first" if cell == 0 else "its second",
                                    " (a field that operations of the same phase write)" if f in dec[op]["writes"] else ""),
                                 {"kind": "rw", "sub": "dep", "line": l, "base_line": lines[[m[:3] for m in meta].index((k, op, None))], "op": op, "slot": cell * NF + f},
                                 key={"kind": "rw", "op": op})
    # accumulate form: result == fl(previous +/- contribution) bit for bit, contribution measured from zeroed accumulators
    lines2, meta2 = [], []
    for k in range(nbase):
        b = base_case(rng, k)
        b["bk"], b["sg"] = rng.below(3), rng.choice([1, -1])
        for op in (0, 1, 4, 5):
            z = [list(c) for c in b["cells"]]
            for c in z:
                if op in (4, 5):
                    c[10:15] = [0.0] * 5
                else:
                    c[15:30] = [0.0] * 15
                    c[34:44] = [1.7976931348623157e308, -1.7976931348623157e308] * 5
            lines2 += [op_line(b, op, z), op_line(b, op, b["cells"])]
            meta2.append((op, b))
    rc, out2 = vf.run_lines([os.path.join(d, "cellops")], "\n".join(lines2) + "\n", timeout=600)
    if len(out2) == len(lines2):
        for j, (op, b) in enumerate(meta2):
            oz = [bd(x) for x in out2[2 * j].split()]
            og = [bd(x) for x in out2[2 * j + 1].split()]
            for cell in (0, 1) if op in (0, 4) else (0,):
                cin = b["cells"][cell]
                rngf = range(10, 15) if op in (4, 5) else range(15, 30)
                for f in rngf:
                    st["accumulate_checks"] += 1
                    # gradients: only the component along the face's axis is added to, the other two are not touched
                    want = cin[f] + oz[cell * NF + f] if (op in (4, 5) or (f - 15) % 3 == b["i"]) else cin[f]
                    got = og[cell * NF + f]
                    if vf.dbl_bits(want) != vf.dbl_bits(got) and not (want != want and got != got) and not (want == 0.0 and got == 0.0):   # sign of an exact zero aside
                        nv += 1
                        if nv <= 3:
                            ck.violation("C10 premise fails on the real code: %s does not ADD to field %d: previous %r, contribution %r (from zeroed accumulators), result %r"
                                         % (OPN[op], f, cin[f], oz[cell * NF + f], got),
                                         {"kind": "rw", "sub": "add", "zero_line": lines2[2 * j], "line": lines2[2 * j + 1], "slot": cell * NF + f, "op": op}, key={"kind": "rw", "op": op})
                if op in (0, 1):
                    for s in range(5):
                        lo, hi = cin[34 + 2 * s], cin[35 + 2 * s]
                        w = oz[cell * NF + 34 + 2 * s]           # min(DBL_MAX, w) = w
                        w2 = oz[cell * NF + 35 + 2 * s]
                        st["accumulate_checks"] += 2
                        wl = w if w < lo else lo
                        wh = w2 if hi < w2 else hi
                        if vf.dbl_bits(wl) != vf.dbl_bits(og[cell * NF + 34 + 2 * s]) or vf.dbl_bits(wh) != vf.dbl_bits(og[cell * NF + 35 + 2 * s]):
                            nv += 1
                            if nv <= 3:
                                ck.violation("C10 premise fails on the real code: %s does not take min/max into the limiter slots of variable %d" % (OPN[op], s),
                                             {"kind": "rw", "sub": "minmax", "zero_line": lines2[2 * j], "line": lines2[2 * j + 1], "slot": cell * NF + 34 + 2 * s, "op": op}, key={"kind": "rw", "op": op})
    st["violations"] = nv
    st["observed"] = {OPN[op]: {"reads": sorted(obs_r[op]), "writes": sorted(obs_w[op]),
                                "declared_never_observed_reads": sorted(dec[op]["reads"] - obs_r[op]),
                                "declared_never_observed_writes": sorted(dec[op]["writes"] - obs_w[op])} for op in range(8)}
    return st


# (5b) two faces sharing a cell, both orders, on the real operations
def swap_oracle(ck, d, n):
    rng = ck.rng
    lines, meta = [], []
    for k in range(n):
        b = base_case(rng, k)
        third = c04.gen_cell(rng, b["gamma"], b["vol"], b["dxs"], "gen", False)
        cells = b["cells"] + [third]
        for c in cells:
            if k % 2 == 0:
                c[10:15] = [0.0] * 5
        i, dxs = b["i"], b["dxs"]
        j = rng.below(3)
        kind = k % 2
        if kind == 0:
            o1 = "F %d 0 1 %s %s %s" % (i, hx(dxs[i]), hx(b["A"]), hx(b["dt"]))
            o2 = "F %d 1 2 %s %s %s" % (j, hx(dxs[j]), hx(b["vol"] / dxs[j]), hx(b["dt"]))
        else:
            o1 = "G %d 0 1 %s" % (i, hx(1 / dxs[i]))
            o2 = "G %d 1 2 %s" % (j, hx(1 / dxs[j]))
        head = "3 %s %s ; " % (hx(b["gamma"]), hx(1e99)) + " ; ".join(" ".join(hx(x) for x in c) for c in cells)
        lines += [head + " ; " + o1 + " ; " + o2, head + " ; " + o2 + " ; " + o1]
        meta.append((cells, o1, o2))
    rc, out = vf.run_lines([os.path.join(d, "cellops")], "\n".join(lines) + "\n", timeout=600)
    st = {"pairs": n, "max_rel_diff": 0.0}
    if len(out) != len(lines):
        ck.breaks.append("cell-operations harness failed in the order-swap oracle")
        return st
    nv = 0
    for k, (cells, o1, o2) in enumerate(meta):
        worst, where = swap_compare(lines[2 * k], out[2 * k], out[2 * k + 1])
        st["max_rel_diff"] = max(st["max_rel_diff"], worst)
        if not worst <= 1e-10:
            nv += 1
            if nv <= 2:
                ck.violation("C10 fails on the real code: two operations sharing a cell give different results in the two orders: %r then %r -> field %d of cell %d = %r; other order -> %r"
                             % ((o1, o2) + where), {"kind": "swap", "lines": lines[2 * k:2 * k + 2]}, key={"kind": "swap"})
    return st


def swap_compare(line, outa, outb):
    """largest difference between the two results relative to the scale of the field group; (worst, (field, cell, x, y))"""
    grp_in = [[bd(x) for x in g.split()] for g in line.split(";")[1:4]]
    a = [bd(x) for x in outa.split()]
    b_ = [bd(x) for x in outb.split()]
    worst, where = 0.0, (0, 0, 0.0, 0.0)
    for f in range(min(len(a), len(b_))):
        x, y = a[f], b_[f]
        if x == y or (x != x and y != y):
            continue
        fld = f % NF
        grp = range(10, 15) if 10 <= fld < 15 else (range(15, 30) if 15 <= fld < 30 else range(fld, fld + 1))
        sc = max(max(abs(a[(f // NF) * NF + g]), abs(grp_in[f // NF][g])) for g in grp) or 1e-300
        dd = abs(x - y) / sc
        dd = dd if dd == dd else float("inf")
        if dd > worst:
            worst, where = dd, (fld, f // NF, x, y)
    return worst, where


# ---------------------------------------------------------------------------------------------------------------
def gen_groups(rng, quick):
    groups = []
    hs = [(0.125, 0.25, 0.2), (1.0, 1.0, 1.0), (0.3, 0.1, 0.7)]
    for init in (0, 1, 2, 3):
        for per in ((1, 1, 1), (0, 0, 0), (1, 0, 1)):
            b = dict(N=(8, 4, 4), per=per, bk=2, init=init, gamma=rng.choice([5 / 3, 1.4, 2.0]), nsteps=3 if quick else 6, cfl=rng.choice([0.1, 0.2, 0.3]),
                     seed=rng.below(1 << 30), mach=rng.choice([0.3, 0.5, 1.0] if all(per) else [0.2, 0.4]), h=rng.choice(hs), dump=1)
            groups.append([dict(b, lay=l, order=o) for l in c04.LAYOUTS_844 for o in ((0, 1, 2) if l != (1, 1, 1) else (0,))])
    extra = [((6, 6, 2), [(1, 1, 1), (3, 2, 1), (6, 3, 2), (2, 6, 1)]), ((4, 3, 5), [(1, 1, 1), (2, 3, 1), (4, 1, 5)]), ((9, 3, 3), [(1, 1, 1), (3, 3, 1), (9, 1, 3)])]
    for N, lays in extra[:2 if quick else 3]:
        for bk in (0, 1, 2):
            b = dict(N=N, per=(rng.below(2), rng.below(2), rng.below(2)), bk=bk, init=rng.below(4), gamma=5 / 3, nsteps=2 if quick else 5, cfl=0.2,
                     seed=rng.below(1 << 30), mach=0.4, h=rng.choice(hs), dump=1)
            groups.append([dict(b, lay=l, order=o) for l in lays for o in (0, 3)])
    return groups


def _deps(ck):
    import hydro_deps
    fs = hydro_deps.phase_order_findings(ck)
    for f in (fs or [])[:2]:
        ck.violation('C10: the hydro task table of the real code does not order the phases: %s of subgrid %d can start before %s (which touches the same subgrid) has run - layout %s; executing the REAL task objects in the legal order %s starts it first, so the result of a step depends on the schedule and on the layout' % (f["t2"], f["subgrid"], f["t1"], tuple(f["layout"]), f["order"]),
                     {"hydro_task_table": f}, key={"kind": "task_table_phase_order"})


FORCING_CASES = ["16 16 16 2 2 2 4 5 7", "12 12 12 3 2 2 3 5 9", "12 8 8 1 2 2 2 5 11", "16 16 16 4 4 4 8 5 13"]


def forcing_threads(ck, only=None):
    """the other per-cell update of a hydro step in the driver: the turbulence forcing kick, applied to the subgrids by the driver's own
    atomic-counter loop.  Sequential reference vs T threads, repeated: bit-identical for every thread count."""
    exe = os.path.join(ck.scratch, "forcing")
    ok, out = vf.cxx_build(os.path.join(vf.VERIF, "harness/c10/forcing_harness.cpp"), exe, openmp=True, extra=["-Wl,--no-as-needed", "-lmpi_cxx", "-lmpi"])
    if not ok:
        ck.breaks.append("forcing harness does not compile against AlveliusTurbulenceForcing / HydroDensitySubGrid:\n" + out[-1500:])
        return 0
    n = 0
    for line in ([only] if only else FORCING_CASES):
        rc, res = vf.run_lines([exe], line + "\n", timeout=600)
        rows = [l.split() for l in res if l.startswith("R ")]
        k = [l.split() for l in res if l.startswith("K ")]
        if rc != 0 or not rows or not k:
            ck.breaks.append("forcing harness failed on %r (rc=%d)" % (line, rc))
            continue
        if int(k[0][1]) == 0:
            ck.breaks.append("forcing harness: the forcing changed no cell in %r (nothing compared)" % line)
        n += len(rows) - 1
        bad = [r for r in rows[1:] if int(r[3]) > 0]
        if bad:
            f = line.split()
            ck.violation("C10 fails on the real code: the turbulence forcing of one hydro step applied to %sx%sx%s cells in %sx%sx%s subgrids gives different cell states with %s threads than sequentially: "
                         "%d of %d repetitions differ, up to %s of %s cells (one thread is bit-identical)" % (f[0], f[1], f[2], f[3], f[4], f[5], f[6], len(bad), len(rows) - 1, max(int(r[3]) for r in bad), k[0][2]),
                         {"kind": "forcing_threads", "line": line}, key={"kind": "forcing_threads"})
    ck.coverage["turbulence_forcing_thread_runs"] = n
    return n


def run(ck):
    ck.prove()
    _deps(ck)
    forcing_threads(ck)
    d = ck.scratch
    ok = build(ck, d)
    cov = ck.coverage
    sig = set()
    if ok.get("faces") and ok.get("model"):
        layouts = c04.gen_layouts(ck.rng, 40 if ck.quick else 400)
        cov["faces"], bad = c04.faces_tie(ck, d, layouts)
        for l in layouts:
            sig.add(("layout",) + tuple(l))
        if bad and ok.get("step"):
            # search: do the real sweeps on the suspicious layout give the same cell states as the undivided grid?
            groups = []
            for l in bad[:6]:
                N = (l[0] * l[3], l[1] * l[4], l[2] * l[5])
                for init in (0, 3):
                    b = dict(N=N, per=l[6:9], bk=2, init=init, gamma=5 / 3, nsteps=3, cfl=0.2, seed=11, mach=0.4, h=(0.25, 0.5, 0.125), dump=1)
                    groups.append([dict(b, lay=(1, 1, 1), order=0), dict(b, lay=l[3:6], order=0)])
            cov["faces_break_search"] = c04.step_evidence(ck, d, groups, compare_layouts=True)
    if ok.get("cells") and ok.get("model10"):
        cov["ops"], s2 = ops_tie(ck, d, 3000 if ck.quick else 40000)
        sig |= s2
        cov["read_write_sets"] = rw_probe(ck, d, 12 if ck.quick else 60)
        cov["order_swap"] = swap_oracle(ck, d, 200 if ck.quick else 4000)
    if ok.get("step") and ok.get("model10"):
        cov["whole_steps"] = whole_steps_tie(ck, d, ck.quick)
    if ok.get("step"):
        cov["layouts_and_orders"] = c04.step_evidence(ck, d, gen_groups(ck.rng, ck.quick), compare_layouts=True)
    cov["evaluations"] = (cov.get("faces", {}).get("visits_compared", 0) + cov.get("ops", {}).get("lines", 0) + cov.get("read_write_sets", {}).get("probes", 0)
                          + cov.get("whole_steps", {}).get("values_compared", 0) + cov.get("layouts_and_orders", {}).get("runs", 0))
    cov["distinct_nontrivial"] = len(sig)
    cov["rule"] = ("inputs from SplitMix64(VERIF_SEED). Face lists as in C04 (gradient and flux sweeps, 12 hand-picked + random layouts). Operations: 6 patterns (each gradient/limiter/prediction op alone, the 13-op "
                   "sequence of a two-cell step, C04's patterns) x the cell modes of C04; 46 fields of both cells bit for bit. Whole steps: 24 + 18 configurations (6 layouts of 8x4x4, other grids incl. one-cell "
                   "subgrids, periodic / walls / mixed, inflow-outflow-reflective, 4 initial states), every conserved and primitive value of every cell after 2 (4) steps bit for bit. Read/write probing: per base "
                   "state (3 time-step regimes so that flux limiter branches are live, 3 boundary kinds, both sides, gamma = 1 for the primitive update) each of the 46 fields of each cell perturbed separately for each of "
                   "the 8 operations. distinct_nontrivial = layouts + distinct (op pattern, mode, leading result bits) of matching operation lines.")
    ck.assumptions += [
        "theorems are about the real-number instance of the step model (Cxx/C10_Defs.v, C04_FluxDefs.v); the binary64 instance of the SAME definitions is compared bit for bit with the real code, per operation and per whole step",
        "phase order per cell and mutual exclusion of tasks sharing a subgrid are C07/C08 (task graph, locks); here a schedule is any order of whole sweeps inside a phase",
        "dt is an input of the step (the real run's value is used); get_timestep/CFL/TimeLine are not part of the model",
        "HLLC as in C05; C03 for the neighbour wiring used by the harness (real create_subgrid)",
    ]
    ck.resolve_breaks_without_input()


def replay(ck, rp):
    if "hydro_task_table" in rp.get("replay", {}):
        import hydro_deps
        f = rp["replay"]["hydro_task_table"]
        fs = hydro_deps.phase_order_findings(ck, [tuple(f["layout"])])
        print("REPLAY:", ("the real task table still lets %s start before %s: %r" % (fs[0]["t2"], fs[0]["t1"], fs[0]["observed"])) if fs else "property holds on this input")
        return 1 if fs else 0
    d = ck.scratch
    r = rp["replay"]
    kind = r.get("kind")
    if kind == "forcing_threads":
        forcing_threads(ck, only=r["line"])
        bad = [v for v in ck.violations if v["key"].get("kind") == "forcing_threads"]
        print("REPLAY:", bad[0]["what"] if bad else "property holds on this input")
        return 1 if bad else 0
    if kind == "layouts":
        c04.build(ck, d, want=("step",))
        st = c04.step_evidence(ck, d, [[r["cfg_a"], r["cfg_b"]]], compare_layouts=True)
        print("REPLAY: max layout difference %.3g of the field scale" % st["max_layout_diff"])
        return 1 if ck.violations else 0
    if kind == "step":
        return c04.replay(ck, rp)
    if kind in ("rw", "swap"):
        c04.build(ck, d, want=("cells",))
        run1 = lambda ls: vf.run_lines([os.path.join(d, "cellops")], "\n".join(ls) + "\n")[1]
        if kind == "swap":
            out = run1(r["lines"])
            worst, where = swap_compare(r["lines"][0], out[0], out[1])
            print("REPLAY: the two orders differ by %.3g of the field scale (field %d of cell %d: %r vs %r)" % ((worst,) + where))
            return 1 if not worst <= 1e-10 else 0
        sub, slot = r.get("sub"), r.get("slot")
        if sub == "dep":
            out = run1([r["base_line"], r["line"]])
            a, b = out[0].split(), out[1].split()
            dec = declared_sets(d) if os.path.exists(model10(d)) else {}
            df = [k for k in range(len(a)) if a[k] != b[k] and k != slot]
            print("REPLAY: perturbing input slot %d changes output slots %s" % (slot, df[:20]))
            return 1 if df else 0
        if sub == "write":
            out = run1([r["line"]])
            inp = [x for g in r["line"].split(";")[1:3] for x in g.split()]
            o = out[0].split()
            print("REPLAY: slot %d: input %s output %s" % (slot, inp[slot], o[slot]))
            return 1 if inp[slot] != o[slot] else 0
        if sub in ("add", "minmax"):
            out = run1([r["zero_line"], r["line"]])
            inp = [bd(x) for g in r["line"].split(";")[1:3] for x in g.split()]
            z, g = [bd(x) for x in out[0].split()], [bd(x) for x in out[1].split()]
            if sub == "add":
                want = inp[slot] + z[slot]
                bad = vf.dbl_bits(want) != vf.dbl_bits(g[slot]) and not (want == 0.0 and g[slot] == 0.0) and not (want != want and g[slot] != g[slot])
                # a gradient component off the face's axis must stay untouched instead
                if bad and 15 <= slot % NF < 30 and vf.dbl_bits(inp[slot]) == vf.dbl_bits(g[slot]):
                    bad = False
            else:
                want = z[slot] if z[slot] < inp[slot] else inp[slot]
                bad = vf.dbl_bits(want) != vf.dbl_bits(g[slot])
            print("REPLAY: slot %d previous %r contribution %r result %r expected %r" % (slot, inp[slot], z[slot], g[slot], want))
            return 1 if bad else 0
        return 1
    print("REPLAY: nothing to replay (broken proof / correspondence without a failing input): %s" % json.dumps(r)[:2000])
    return 1
