# C07  hydro task graph: proof (Coq) over a generic interleaving model + tie of the task table and of the
# scheduling primitives to the real code (harness #includes TaskBasedRadiationHydrodynamicsSimulation.cpp)
import os, json
import vf

LEVEL = "proof"
CLAIM = dict(cat="proof", design="§3 C07, Appendix A.5",
   text="Coq theorems (no axioms) over an interleaving model of the hydro worker loop (one control point per access to shared data, in the order of the code; "
        "which thread moves and which queued lockable task a fetch returns are labels) for EVERY well-formed task graph, EVERY number of threads >= 1 and EVERY schedule: "
        "no task starts or stops twice and when all threads have left every task has run (exactly_once); a task starts only after all its parents stopped (parents_first); "
        "two tasks between lock_dependency and unlock_dependency never share a lock, hence never a subgrid (mutual_exclusion); exact accounting of number_of_tasks, never decremented at 0, "
        "0 when all threads left (counter_exact); some thread can always strictly decrease a measure within two of its own steps (progress = deadlock freedom) and every non-idle step decreases it "
        "(bounded_work: termination under weak fairness; starvation by an adversarial scheduler is not claimed); the state after a step equals the initial state of the next (reset_reestablishes_init); "
        "wf_check is sound. make_graph true (literal model of make_hydro_tasks/set_dependencies/reset_hydro_tasks of the repaired code) is well formed for EVERY layout: any number >= 1 of subgrids per axis, every periodicity, including periodic axes of one or two subgrids "
        "(C07_make_graph_wf, unbounded, Cxx/C07_GraphGen.v: closed form of the sequential task numbering C07_make_graph_numbering, mutual in-range neighbours by div/mod arithmetic C07_neighbours_mutual/_in_range, and counting of the 23 child edges per subgrid over slot references - "
        "the reset counters 0/7/1/1|2/7/1 are exactly the in-degrees, <= 7 children, edges go up in phase; C07_make_graph_locks_exact: for every layout the locks of a task are exactly those of the subgrids it touches and a pair task of a subgrid with itself has one lock; "
        "C07_wf_check_accepts_upto_4: independent kernel evaluation of the run-time checker wf_check on all 512 graphs <= 4x4x4). "
        "SEMANTIC phase order (C07_phases_ordered, every layout): per subgrid s, any two tasks of the table that touch s (Task::_subgrid / Task::_buffer) and lie in consecutive phases gradient sweeps -> slope limiter -> primitive prediction -> flux sweeps -> conserved update -> primitive update "
        "are linked by a DIRECT child edge and every phase has a task touching s; hence (C07_phases_ordered_in_every_run, with parents_first) in every run, any thread count, any schedule, a task touching s never starts before every EARLIER-phase task touching s has stopped; "
        "C07_phases_ordered_check_sound: the executable check. A set_dependencies edge that is missing or attached to the wrong task but keeps the parent counts (wf still holds, nothing hangs) falsifies phases_ordered. The pinned commit (make_graph false) is REFUTED for a periodic axis with exactly one subgrid "
        "(C07_self_neighbour_refuted / _never_completes, defect D2: the pair task took the same lock twice; fixed, the D2 layouts stay in the corpus as regression cases: the real loop must terminate). "
        "Tie, every run: the real task table (harness includes the real translation unit and calls the real functions on a real DensitySubGridCreator) is diffed with make_graph for every layout <= 3x3x3 (thorough 4x4x4 + random larger) x 8 periodicities, "
        "wf_check AND phases_ordered_check (extracted) are evaluated on the REAL table - when the real table fails the phase order and has no dependency path t1 -> t2, a legal execution order (topological order of the ancestors of t2 in the REAL table) is executed on the REAL task objects (real counters, locks, decrement) and t2 is observed to start while t1 has not run: VIOLATION kind phase_order -, "
        "every real run (virtual threads and real OpenMP threads) is also checked by an independent phase oracle (a task touching s starts only after all earlier-phase tasks touching s stopped), a hydro step is run on the real Task/TaskQueue/ThreadLock/AtomicValue objects with interleaved virtual threads that run is replayed label by label through the model's step function, the REAL worker loop (source lines of do_simulation included verbatim) is run on real OpenMP threads, "
        "and an independent oracle checks property C07 on the real run. A structural guard requires reset_hydro_tasks to precede the parallel region (the model's step starts from a completely reset table).",
   note="Trusted: Coq kernel; ExtrOcamlBasic extraction + OCaml driver + Python oracle (correspondence only). make_graph_wf is proved for ALL layouts (nothing partial); that make_graph is the table the code builds is tied at run time (differential dump, plus wf_check evaluated on the dumped real tables). "
        "Abstractions, argued not proved: lock_dependency is one atomic step (its transient hold of the first lock only adds failed fetches, which the model allows at any time); the per-thread LIFO queues with stealing are one multiset with arbitrary choice; "
        "execute_task is not modelled (its footprint = Task::_subgrid and, for pair tasks, Task::_buffer, as in execute_task's switch). The virtual-thread executor of the harness re-types the loop skeleton (the real loop is inside do_simulation); every shared-data operation in it is the real member function. "
        "Observation proved as C07_early_exit_possible: a thread may leave the loop early (number_of_tasks transiently 0 between add_task and pre_increment) - loss of parallelism only.",
   technique="inductive invariant over interleavings in Coq + general well-formedness proof of the task graph (closed-form numbering, div/mod neighbour arithmetic, edge counting) + phase-order theorem and extracted phases_ordered_check on the real tables + kernel evaluation of wf_check + differential table dump + replay of real-primitive runs through the extracted step function")

HARNESS = os.path.join(vf.VERIF, "harness/c07/dump_graph.cpp")
DRIVER = os.path.join(vf.VERIF, "ocaml/c07_driver.ml")
KINDS = ["GI", "GN", "GB", "SL", "PP", "FI", "FN", "FB", "UC", "UP"]


def self_neighbour(l):
    return any(l[3 + a] and l[a] == 1 for a in range(3))


def has_small_periodic_axis(l):
    return any(l[3 + a] and l[a] <= 2 for a in range(3))


def parse_blocks(lines):
    """harness output -> list of dict per request"""
    out, cur = [], None
    for ln in lines:
        w = ln.split()
        if not w:
            continue
        if w[0] == "graph":
            cur = {"layout": tuple(int(x) for x in w[1:7]), "ntask": int(w[7]), "tasks": [], "slots": [], "raw": [ln], "canon": [ln]}
        elif cur is None:
            continue
        elif w[0] == "t":
            cur["tasks"].append(dict(id=int(w[1]), kind=w[2], sub=int(w[3]), other=None if w[4] == "-" else int(w[4]), dir=w[5], d0=w[6], d1=w[7],
                                     p0=int(w[8]), children=[int(x) for x in w[9:]]))
            cur["raw"].append(ln)
            cur["canon"].append(ln)
        elif w[0] == "slots":
            cur["slots"].append(w[2:])
            cur["raw"].append(ln)
            cur["canon"].append(ln)
        elif w[0] == "cover":
            cur["cover"] = int(w[1])
            cur["raw"].append(ln)
        elif w[0] == "lockfail":
            cur["lockfail"] = [int(x) for x in w[1:]]
            cur["raw"].append(ln)
        elif w[0] in ("sched", "events", "conflicts"):
            cur[w[0]] = w[1:]
            cur["raw"].append(ln)
        elif w[0] == "result":
            cur["result"] = w[1:]
            cur["raw"].append(ln)
        elif w[0] == "pair":
            cur["pair"] = [int(x) for x in w[1:]]
        elif w[0] == "end":
            cur["raw"].append(ln)
            out.append(cur)
            cur = None
    return out


PHASE = {"GI": 0, "GN": 0, "GB": 0, "SL": 1, "PP": 2, "FI": 3, "FN": 3, "FB": 3, "UC": 4, "UP": 5}
PHASE_NAME = ["gradient sweep", "slope limiter", "primitive prediction", "flux sweep", "conserved update", "primitive update"]


def touched(t):
    """subgrids whose data execute_task reads/writes for this task: Task::_subgrid and, for pair tasks, Task::_buffer"""
    return [t["sub"]] + ([t["other"]] if t["other"] is not None and t["other"] != t["sub"] else [])


def phase_oracle(b):
    """semantic reading of 'never starts a task before all tasks it depends on have finished', decided on one run of the REAL
    objects (independent of the Coq model and of the child lists): a task that touches subgrid x must not start before every
    task of an EARLIER phase (gradients -> limiter -> prediction -> fluxes -> conserved update -> primitive update) that
    touches x has stopped"""
    by_sub = {}
    for t in b["tasks"]:
        for x in touched(t):
            by_sub.setdefault(x, []).append(t)
    stopped = set()
    n = len(b["tasks"])
    for e in b.get("events", []):
        t = int(e[1:])
        if not 0 <= t < n:
            continue
        if e[0] == "+":
            tt = b["tasks"][t]
            for x in touched(tt):
                for u in by_sub.get(x, []):
                    if PHASE[u["kind"]] < PHASE[tt["kind"]] and u["id"] not in stopped:
                        return ("task %s (%s) starts before task %s (%s), which touches the same subgrid %d, has finished"
                                % (tname(b, t), PHASE_NAME[PHASE[tt["kind"]]], tname(b, u["id"]), PHASE_NAME[PHASE[u["kind"]]], x))
        else:
            stopped.add(t)
    return None


def phase_order_witness(b, t1, t2):
    """a legal sequential execution order of the REAL table that runs t2 without having run t1: the ancestors of t2 in
    topological order, then t2.  None if t1 is an ancestor of t2 (then the real table still enforces the order)."""
    n = len(b["tasks"])
    parents = [[] for _ in range(n)]
    for t in b["tasks"]:
        for c in t["children"]:
            if 0 <= c < n:
                parents[c].append(t["id"])
    anc, stack = set(), [t2]
    while stack:
        c = stack.pop()
        for p in parents[c]:
            if p not in anc:
                anc.add(p)
                stack.append(p)
    if t1 in anc or t1 == t2:
        return None
    # Kahn on the ancestor set (counting edges with multiplicity, as the parent counters do)
    cnt = dict((a, sum(1 for p in parents[a])) for a in anc | {t2})
    ready = sorted(a for a in anc if cnt[a] == 0)
    order = []
    while ready:
        a = ready.pop(0)
        order.append(a)
        for c in b["tasks"][a]["children"]:
            if c in cnt:
                cnt[c] -= 1
                if cnt[c] == 0 and c != t2:
                    ready.append(c)
                    ready.sort()
    if len(order) != len(anc) or cnt[t2] != 0:
        return None
    return order + [t2]


def run_ordered(ck, l, order, timeout=120):
    """execute the REAL task objects in the given order (harness mode O); returns (verdict words, events)"""
    text = "O %d %d %d %d %d %d %d %s\n" % (tuple(l) + (len(order), " ".join(str(x) for x in order)))
    rc, out = vf.run_lines([os.path.join(ck.scratch, "impl")], text, timeout=timeout)
    verdict, events = None, []
    for ln in out:
        w = ln.split()
        if w and w[0] == "ordered":
            verdict = w[1:]
        elif w and w[0] == "events":
            events = w[1:]
    return verdict, events


def tname(b, t):
    if 0 <= t < len(b["tasks"]):
        k = b["tasks"][t]
        return "%d(%s of subgrid %d%s)" % (t, k["kind"], k["sub"], "" if k["other"] is None else " with %d" % k["other"])
    return str(t)


def run_oracle(b):
    """property C07 decided on one run of a hydro step on the REAL task/queue/lock objects (independent of the Coq model)"""
    n = len(b["tasks"])
    parents = [[] for _ in range(n)]
    for t in b["tasks"]:
        for c in t["children"]:
            if 0 <= c < n:
                parents[c].append(t["id"])
    res = b.get("result", ["none"])
    started, stopped = set(), set()
    for e in b.get("events", []):
        t = int(e[1:])
        if e[0] == "+":
            if t in started:
                return "task %s is executed twice" % tname(b, t)
            for p in parents[t]:
                if p not in stopped:
                    return "task %s starts before the task %s it depends on has finished" % (tname(b, t), tname(b, p))
            started.add(t)
        else:
            stopped.add(t)
    if b.get("conflicts"):
        a, c, s = b["conflicts"][0].split(":")
        return "tasks %s and %s run at the same time and both touch subgrid %s" % (tname(b, int(a)), tname(b, int(c)), s)
    if res[0] == "watchdog":
        return "the REAL worker loop on real threads does not terminate (killed by the watchdog after 8 s)"
    if res[0] == "hang":
        left = [t for t in range(n) if t not in started]
        return ("the hydro step never terminates: %d tasks never start, number_of_tasks stays %s; Task::lock_dependency fails with all locks free for tasks %s"
                % (len(left), res[3], [tname(b, t) for t in b.get("lockfail", [])][:4]))
    if res[0] != "ok":
        return "the hydro step did not terminate within %s steps" % res[1]
    for t in range(n):
        if t not in stopped:
            return "all threads left the loop but task %s was never executed" % tname(b, t)
    if res[3] != "0":
        return "number_of_tasks is %s after the step" % res[3]
    return None


def table_defects(b):
    """independent (Python) reading of the well-formedness conditions on the real table; used to direct the search"""
    n = len(b["tasks"])
    indeg = [0] * n
    out = []
    for t in b["tasks"]:
        if len(t["children"]) > 7:
            out.append(("children", t["id"], None))
        for c in t["children"]:
            if 0 <= c < n:
                indeg[c] += 1
            else:
                out.append(("range", t["id"], c))
    for t in b["tasks"]:
        if indeg[t["id"]] != t["p0"]:
            out.append(("counter", t["id"], indeg[t["id"]]))
        lk = [x for x in (t["d0"], t["d1"]) if x != "-"] if t["d0"] != "-" else []
        if len(lk) == 2 and lk[0] == lk[1]:
            out.append(("samelock", t["id"], lk[0]))
        for s in [t["sub"]] + ([t["other"]] if t["other"] is not None else []):
            if str(s) not in lk:
                out.append(("uncovered", t["id"], s))
    return out


def requests(ck):
    """(mode, layout, nthreads, seed) for this tier"""
    rng = ck.rng
    B = 3 if ck.quick else 4
    reqs = []
    for nx in range(1, B + 1):
        for ny in range(1, B + 1):
            for nz in range(1, B + 1):
                for p in range(8):
                    l = (nx, ny, nz, (p >> 2) & 1, (p >> 1) & 1, p & 1)
                    small = nx * ny * nz <= (27 if ck.quick else 36)
                    reqs.append(("S" if small else "G", l, 1 + rng.below(8), rng.next() >> 1))
    nbig = 4 if ck.quick else 30
    for i in range(nbig):
        l = (1 + rng.below(6), 1 + rng.below(5), 1 + rng.below(4) + (2 if i % 2 else 0), rng.below(2), rng.below(2), rng.below(2))
        reqs.append(("G", l, 0, 0))
    return reqs


def extract_loop(ck):
    """copy the source lines of the hydro worker loop (queue filling + `#pragma omp parallel` block) out of do_simulation"""
    src = open(os.path.join(vf.REPO, "src", "TaskBasedRadiationHydrodynamicsSimulation.cpp")).read().split("\n")
    ws = [i for i, l in enumerate(src) if "while (number_of_tasks.value() > 0)" in l]
    if len(ws) != 1:
        return None
    w = ws[0]
    a = max([i for i in range(w) if "AtomicValue< uint_fast32_t > number_of_tasks;" in src[i]] or [-1])
    bs = [i for i in range(w, len(src)) if "stop_parallel_timing_block();" in src[i]]
    if a < 0 or not bs or w - a > 40 or bs[0] - w > 60:
        return None
    text = "\n".join(src[a:bs[0] + 1]) + "\n"
    if "reset_hydro_tasks" not in text or "#pragma omp parallel" not in text or "execute_task(" not in text:
        return None
    # the model resets every task and queues the parentless ones BEFORE any worker runs (C07_reset_reestablishes_init is about the
    # state at the start of the parallel region): the reset must precede the parallel region in the source
    if text.index("reset_hydro_tasks") > text.index("#pragma omp parallel"):
        ck.breaks.append("do_simulation resets the hydro tasks INSIDE the parallel worker region (reset_hydro_tasks after `#pragma omp parallel`): a worker can finish a task "
                         "and decrement the parent counter of a task of a neighbouring subgrid that another thread has not reset yet - the decrement is lost and that task (and everything behind it) "
                         "never runs in this step, or runs early in the next; the model's step starts from a completely reset table")
        ck.c07_reset_in_region = True
    open(os.path.join(ck.scratch, "c07_loop.inc"), "w").write(text)
    return text


def build(ck):
    d = ck.scratch
    ok1, log1 = vf.coq_extract("C07", d)
    ok2, log2 = (False, "") if not ok1 else vf.ocaml_build(d, ["c07_model"], DRIVER, "model")
    ck.real_loop = extract_loop(ck) is not None
    if not ck.real_loop:
        ck.breaks.append("cannot locate the hydro worker loop (`while (number_of_tasks.value() > 0)`) in do_simulation; the real-thread runs are skipped")
    ok3, log3 = vf.cxx_build(HARNESS, os.path.join(d, "impl"), libs=True, extra=(["-DC07_REAL_LOOP", "-I" + d] if ck.real_loop else None))
    if not ok3:
        ck.breaks.append("harness does not compile against /repo/src/TaskBasedRadiationHydrodynamicsSimulation.cpp:\n" + log3[-2000:])
    if not (ok1 and ok2):
        ck.breaks.append("model extraction/build failed:\n" + (log1 + log2)[-2000:])
    return ok1 and ok2, ok3


def run_impl(ck, reqs, timeout=900):
    text = "".join("%s %d %d %d %d %d %d %d %d\n" % ((m,) + l + (nt, sd)) if m in "ST" else "%s %d %d %d %d %d %d\n" % ((m,) + l) for (m, l, nt, sd) in reqs)
    rc, out = vf.run_lines([os.path.join(ck.scratch, "impl")], text, timeout=timeout)
    return rc, parse_blocks(out)


def real_pair_conflict(ck, b):
    """two initially queued tasks that touch a common subgrid and whose lock sets are disjoint: lock both REAL tasks"""
    ts = [t for t in b["tasks"] if t["p0"] == 0]
    for t in ts:
        lt = set(x for x in (t["d0"], t["d1"]) if x != "-")
        tt = set([t["sub"]] + ([t["other"]] if t["other"] is not None else []))
        for u in ts:
            if u["id"] <= t["id"]:
                continue
            lu = set(x for x in (u["d0"], u["d1"]) if x != "-")
            tu = set([u["sub"]] + ([u["other"]] if u["other"] is not None else []))
            if (tt & tu) and not (lt & lu):
                text = "P %d %d %d %d %d %d %d %d\n" % (b["layout"] + (t["id"], u["id"]))
                rc, out = vf.run_lines([os.path.join(ck.scratch, "impl")], text, timeout=120)
                pb = parse_blocks(out)
                if pb and pb[0].get("pair") == [1, 1]:
                    return t["id"], u["id"], sorted(tt & tu)[0]
                return None
    return None


def run(ck):
    ck.prove(timeout=1200)
    okm, oki = build(ck)
    if not oki:
        ck.resolve_breaks_without_input()
        return
    d = ck.scratch
    reqs = requests(ck)
    rc, blocks = run_impl(ck, reqs)
    if rc != 0 or len(blocks) != len(reqs):
        ck.breaks.append("harness produced %d blocks for %d requests (exit %d)" % (len(blocks), len(reqs), rc))
    cov = ck.coverage
    hist = dict((k, 0) for k in KINDS)
    nontrivial = set()
    runs = 0
    labels = 0
    viol_keys = set()
    suspects = []     # blocks whose table is not as expected -> search for a failing run

    def report(b, why, nthreads, seed, kind="task_graph"):
        if self_neighbour(b["layout"]) and ("never terminates" in why or "does not terminate" in why) and b.get("lockfail"):
            kind = "self_neighbour_deadlock"
            why += " [regression of defect D2: a subgrid that is its own neighbour on a periodic axis; the pair task holds the SAME lock twice]"
        clause = next((c for c in ("executed twice", "starts before", "at the same time", "never terminates", "did not terminate", "never executed", "number_of_tasks is")
                       if c in why), "other")
        if (kind, clause) in viol_keys:
            return
        viol_keys.add((kind, clause))
        ck.violation("C07 fails on the real task objects, layout %dx%dx%d periodic=(%d,%d,%d), %d thread(s): %s" % (b["layout"] + (nthreads, why)),
                     {"layout": list(b["layout"]), "nthreads": nthreads, "seed": seed, "failing_clause": why}, key={"kind": kind, "clause": clause})

    # --- independent oracle on every real run, table-level expectations
    for (m, l, nt, sd), b in zip(reqs, blocks):
        if b["layout"] != l:
            ck.breaks.append("harness answered layout %s for request %s" % (b["layout"], l))
            continue
        for t in b["tasks"]:
            hist[t["kind"]] = hist.get(t["kind"], 0) + 1
        if has_small_periodic_axis(l):
            nontrivial.add(l)
        if b.get("cover") != 1:
            ck.breaks.append("layout %s: the tasks of the table are not exactly the tasks in the 18 slots of the subgrids (reset/queueing would miss some)" % (l,))
        if m == "S":
            runs += 1
            labels += len(b.get("sched", []))
            why = run_oracle(b)
            if why:
                report(b, why, nt, sd)
            else:
                why = phase_oracle(b)
                if why:
                    report(b, why, nt, sd, kind="phase_order")
        if b.get("lockfail") or table_defects(b):
            suspects.append((b, nt or 2, sd or 1))
    # --- the REAL worker loop (source lines of do_simulation, included verbatim) on real OpenMP threads
    t_runs = t_events = 0
    if getattr(ck, "real_loop", False):
        reps = 1 if ck.quick else 4
        treqs = [("T", l, 2 + ck.rng.below(7), 0) for (m, l, _, _) in reqs if m == "S" for _ in range(reps + (1 if self_neighbour(l) else 0))]
        if getattr(ck, "c07_reset_in_region", False):
            # search for a concrete failing run of the race between the reset and the workers: many subgrids, many threads, repeated
            treqs += [("T", l, 16, 0) for l in ((8, 8, 8, 0, 0, 0), (10, 10, 10, 1, 1, 1), (12, 12, 12, 0, 0, 0)) for _ in range(6)]
        rc_t, tblocks = run_impl(ck, treqs, timeout=240 if ck.quick else 900)
        for (m, l, nt, sd), b in zip(treqs, tblocks):
            if "result" not in b:
                continue
            t_runs += 1
            t_events += len(b.get("events", []))
            why = run_oracle(b)
            if why:
                report(b, "[real worker loop on %d real threads] %s" % (nt, why), nt, -1)
            else:
                why = phase_oracle(b)
                if why:
                    report(b, "[real worker loop on %d real threads] %s" % (nt, why), nt, -1, kind="phase_order")
        if (rc_t != 0 or len(tblocks) != len(treqs)) and not any(v["replay"].get("seed") == -1 for v in ck.violations):
            ck.breaks.append("real-thread harness exited with %d after %d of %d runs" % (rc_t, len(tblocks), len(treqs)))

    # --- model side: diff of the table, wf_check on the real table, replay of the real runs, random schedules
    mism = 0
    nsim_total = 0
    sim_steps = 0
    po_checked = po_failed = 0
    if okm:
        rc_m, out_m = vf.run_lines([os.path.join(d, "model")], "".join("M %d %d %d %d %d %d\n" % l for (_, l, _, _) in reqs), timeout=900)
        mblocks = parse_blocks(out_m)
        if len(mblocks) != len(blocks):
            ck.breaks.append("model driver printed %d graphs for %d requests" % (len(mblocks), len(blocks)))
        for b, mb in zip(blocks, mblocks):
            if b["canon"] != mb["canon"]:
                mism += 1
                k = vf.first_diff(b["canon"], mb["canon"])
                if mism <= 3:
                    ck.breaks.append("correspondence C07 make_graph <-> real task table, layout %s: line %d: real=%r model=%r"
                                     % (b["layout"], k, b["canon"][k] if k < len(b["canon"]) else None, mb["canon"][k] if k < len(mb["canon"]) else None))
                if not any(x[0] is b for x in suspects):
                    suspects.append((b, 2, 1))
        nsim = 2 if ck.quick else 6
        feed = []
        for (m, l, nt, sd), b in zip(reqs, blocks):
            big = b["ntask"] > 500
            feed.append("R %d %d %d" % (0 if big else nsim, (sd ^ 0x5bd1e995) & 0x3fffffff, 8))
            feed += b["raw"]
        rc_r, out_r = vf.run_lines([os.path.join(d, "model")], "\n".join(feed) + "\n", timeout=1500)
        res, cur = [], {}
        for ln in out_r:
            w = ln.split()
            if not w:
                continue
            if w[0] == "endr":
                res.append(cur)
                cur = {}
            else:
                cur[w[0]] = w[1:]
        if len(res) != len(blocks):
            ck.breaks.append("model driver answered %d of %d real tables" % (len(res), len(blocks)))
        for (m, l, nt, sd), b, r in zip(reqs, blocks, res):
            wf = r.get("wf", ["?"])[0]
            if wf != "1":
                ck.breaks.append("wf_check on the REAL task table of layout %s is %s (expected 1): %s" % (l, wf, table_defects(b)[:3]))
                if not any(x[0] is b for x in suspects):
                    suspects.append((b, nt or 2, sd or 1))
            po = r.get("po", ["?"])
            po_checked += 1
            if po[0] != "1":
                po_failed += 1
                done = False
                if po[:2] == ["0", "edge"] and len(po) == 5:
                    t1, t2, x = int(po[2]), int(po[3]), int(po[4])
                    order = phase_order_witness(b, t1, t2)
                    if order is not None and ("phase_order", "missing_edge") not in viol_keys:
                        verdict, ev = run_ordered(ck, l, order)
                        if verdict and verdict[0] == "ok" and ("+%d" % t2) in ev and ("+%d" % t1) not in ev:
                            viol_keys.add(("phase_order", "missing_edge"))
                            why = ("the REAL task table has no dependency path from task %s (%s) to task %s (%s) although both touch subgrid %d and the second belongs to the next phase; "
                                   "executing the REAL task objects in the order %s (every task started with its real parent counter at 0 and its real locks taken) starts %s while %s has NOT run"
                                   % (tname(b, t1), PHASE_NAME[PHASE[b["tasks"][t1]["kind"]]], tname(b, t2), PHASE_NAME[PHASE[b["tasks"][t2]["kind"]]], x,
                                      order, tname(b, t2), tname(b, t1)))
                            ck.violation("C07 (a task starts before a task it depends on has finished) fails on the real task table, layout %dx%dx%d periodic=(%d,%d,%d): %s"
                                         % (tuple(l) + (why,)),
                                         {"layout": list(l), "nthreads": 1, "seed": 0, "failing_clause": why,
                                          "phase_order": {"t1": t1, "t2": t2, "subgrid": x, "order": order, "observed_events": ev}},
                                         key={"kind": "phase_order", "clause": "missing_edge"})
                            done = True
                        elif verdict:
                            ck.breaks.append("phases_ordered_check fails on the REAL table of layout %s (%s) but the constructed order %s is rejected by the real task objects: %s"
                                             % (l, " ".join(po), order, " ".join(verdict)))
                            done = True
                    elif order is not None:
                        done = True
                    elif po_failed <= 3:
                        ck.breaks.append("phases_ordered_check on the REAL table of layout %s: the direct edge %s -> %s (both touch subgrid %d, consecutive phases) is missing, but %s is still an ancestor of %s (order enforced through a path)"
                                         % (l, tname(b, t1), tname(b, t2), x, tname(b, t1), tname(b, t2)))
                        done = True
                if not done and po_failed <= 3:
                    ck.breaks.append("phases_ordered_check on the REAL task table of layout %s is %s (expected 1)" % (l, " ".join(po)))
                if not any(x_[0] is b for x_ in suspects):
                    suspects.append((b, nt or 2, sd or 1))
            rp = r.get("replay", ["none"])
            if m == "S":
                if rp[0] != "ok" or rp[2:4] != ["exited", "0"]:
                    ck.breaks.append("the run of the real task/queue/lock objects for layout %s (%d threads, seed %d) is not a run of the model: %s" % (l, nt, sd, " ".join(rp)))
            sm = r.get("sim", ["0", "0", "0", "0"])
            nsim_total += int(sm[0])
            sim_steps += int(sm[2])
            if int(sm[1]) or int(sm[3]):
                ck.breaks.append("model schedule on the REAL table of layout %s violates a monitor: %s" % (l, " ".join(sm[4:]) or "hang"))
                if not any(x[0] is b for x in suspects):
                    suspects.append((b, nt or 2, sd or 1))

    # --- search-on-break: look for a concrete failing run of the real objects on the suspect layouts
    if suspects and not ck.violations:
        tried = 0
        for (b, nt, sd) in suspects[:12]:
            pc = real_pair_conflict(ck, b)
            if pc:
                report(b, "tasks %s and %s both touch subgrid %d, both are queued at the start of the step, and the REAL Task::lock_dependency of both succeeds at the same time (no common lock)"
                       % (tname(b, pc[0]), tname(b, pc[1]), pc[2]), 2, 0)
                break
            extra = [("S", b["layout"], 1 + (k % 8), (sd + 7919 * k + 1) & 0x7fffffff) for k in range(24)]
            rc2, bl2 = run_impl(ck, extra, timeout=600)
            for (m, l, nt2, sd2), b2 in zip(extra, bl2):
                tried += 1
                why = run_oracle(b2)
                if why:
                    report(b2, why, nt2, sd2)
                    break
            if ck.violations:
                break
        ck.notes.append("search-on-break: %d suspect layouts, %d extra real runs" % (len(suspects), tried))

    cov["evaluations"] = len(blocks)
    cov["distinct_nontrivial"] = len(nontrivial)
    cov["rule"] = ("evaluations = real task tables (one per subgrid layout x periodicity) dumped from the real make_hydro_tasks/set_dependencies/reset_hydro_tasks and compared line by line with the extracted make_graph "
                   "(type, subgrid, neighbour, direction, both lock owners, initial counter, ordered children, slot table); exhaustive for nx,ny,nz <= %d x 8 periodicities plus %d random larger layouts; "
                   "non-trivial = distinct layouts with a periodic axis of at most two subgrids (wrap-around neighbours coincide or are the subgrid itself)" % (3 if ck.quick else 4, 4 if ck.quick else 30))
    cov["exhaustive_box"] = "nx,ny,nz in 1..%d, all 8 periodicities" % (3 if ck.quick else 4)
    cov["table_mismatches"] = mism
    cov["real_tables_phases_ordered_check"] = po_checked
    cov["real_tables_phases_ordered_check_failed"] = po_failed
    cov["task_type_histogram"] = hist
    cov["tasks_compared"] = sum(hist.values())
    cov["regression_layouts_D2_periodic_axis_with_one_subgrid"] = sum(1 for (_, l, _, _) in reqs if self_neighbour(l))
    cov["real_primitive_runs"] = runs
    cov["real_loop_runs_on_real_threads"] = t_runs
    cov["real_loop_start_stop_events_checked"] = t_events
    cov["real_run_labels_replayed_through_step"] = labels
    cov["model_schedules_simulated_on_real_tables"] = nsim_total
    cov["model_schedule_steps"] = sim_steps
    cov["samples"] = [{"layout": list(b["layout"]), "tasks": b["ntask"], "first_tasks": b["canon"][1:4], "result": b.get("result")} for b in blocks[8:10]]
    ck.assumptions += [
        "lock_dependency (try lock 0, try lock 1, release 0 on failure) is modelled as one atomic step; its transient hold of lock 0 can only make another thread's fetch fail, which the model permits at any time (argued, not proved)",
        "the per-thread queues + stealing are one multiset from which a fetch may return ANY lockable task or none (over-approximation of LIFO-with-skips, try_lock on the queue, steal order)",
        "footprint of a task = Task::_subgrid and, for neighbour tasks, Task::_buffer (the arguments execute_task passes to the sweep functions); what the sweeps do inside the subgrids belongs to C05/C11",
        "the real-primitive runs use ONE OS thread that interleaves virtual threads at the shared-data accesses (sequentially consistent atomics assumed); the loop skeleton in the harness is re-typed from do_simulation, all operations are the real member functions",
        "model schedules on the real tables are random samples (sanity evidence only); the for-all-schedules statement is the Coq proof",
        "make_graph_wf is proved for every layout (C07_make_graph_wf); that the model make_graph equals the table built by the real make_hydro_tasks/set_dependencies/reset_hydro_tasks is checked differentially (exhaustive small box + random larger layouts), not proved",
        "extraction through ExtrOcamlBasic; OCaml driver and Python oracle trusted for the correspondence only",
    ]
    ck.resolve_breaks_without_input()


def replay(ck, rp):
    ok3, log3 = vf.cxx_build(HARNESS, os.path.join(ck.scratch, "impl"), libs=True)
    if not ok3:
        print(log3[-2000:])
        return 2
    r = rp["replay"]
    l = tuple(r["layout"])
    if "phase_order" in r:
        po = r["phase_order"]
        rc, blocks = run_impl(ck, [("G", l, 0, 0)])
        b = blocks[0]
        order = phase_order_witness(b, po["t1"], po["t2"])
        if order is None:
            print("REPLAY: property holds on this input (task %s is an ancestor of task %s in the real table)" % (tname(b, po["t1"]), tname(b, po["t2"])))
            return 0
        verdict, ev = run_ordered(ck, l, order)
        bad = bool(verdict) and verdict[0] == "ok" and ("+%d" % po["t2"]) in ev and ("+%d" % po["t1"]) not in ev
        print("layout=%s order=%s ordered=%s events=%s" % (l, order, verdict, " ".join(ev)))
        print("REPLAY:", ("task %s starts on the real task objects while %s, an earlier-phase task touching subgrid %d, has not run"
                          % (tname(b, po["t2"]), tname(b, po["t1"]), po["subgrid"])) if bad else "property holds on this input")
        return 1 if bad else 0
    if r.get("seed", 1) == -1:     # found with the real loop on real threads: nondeterministic, try a few times
        ck.real_loop = extract_loop(ck) is not None
        vf.cxx_build(HARNESS, os.path.join(ck.scratch, "impl"), libs=True, extra=["-DC07_REAL_LOOP", "-I" + ck.scratch])
        why = None
        for k in range(40):
            rc, blocks = run_impl(ck, [("T", l, max(1, r.get("nthreads", 2)), 0)], timeout=30)
            b = blocks[0]
            why = run_oracle(b) or phase_oracle(b)
            if why:
                break
        print("REPLAY:", why or "property holds on this input (40 real-thread runs)")
        return 1 if why else 0
    rc, blocks = run_impl(ck, [("S", l, max(1, r.get("nthreads", 1)), r.get("seed", 1))])
    b = blocks[0]
    why = run_oracle(b) or phase_oracle(b)
    if not why:
        pc = real_pair_conflict(ck, b)
        if pc:
            why = "tasks %s and %s both touch subgrid %d and the real lock_dependency of both succeeds at the same time" % (tname(b, pc[0]), tname(b, pc[1]), pc[2])
    print("layout=%s tasks=%d result=%s lockfail=%s" % (l, b["ntask"], b.get("result"), b.get("lockfail")))
    print("REPLAY:", why or "property holds on this input")
    return 1 if why else 0
