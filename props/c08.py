# C08  shared scheduler containers: proof (Coq, interleaving at atomic-operation granularity) +
# correspondence of the extracted model with the REAL containers run by real threads under a
# deterministic scheduler (yield hook before every atomic operation), every step compared.
import os, re, json, hashlib, itertools
import vf

LEVEL = "proof"
CLAIM = dict(cat="proof", design="§3 C08, Appendix A.4, §2.1 E-S",
   text="48 Coq theorems (no axioms) over a small-step interleaving model, one step = one atomic operation, of AtomicValue (CAS lock/unlock, fetch-add, the CAS loop of max), "
        "LockFree::add (load + CAS loop), ThreadLock (CAS spin), ThreadSafeVector get_free_element[_safe]/free_element (cursor modulo size with the 2^64 wrap, occupancy and statistics "
        "counters), Task::lock_dependency/unlock_dependency (two locks, rollback) and TaskQueue add_task/get_task/try_get_task (queue lock, scan from the top, gap closing), for EVERY number "
        "of threads, EVERY pool size, EVERY task table, EVERY number of queues and EVERY schedule of clients that obey the interface contract (inductive invariants over all reachable states): "
        "slot_exclusive (also against requests in flight), flag set iff owned, occupancy counter = slots held = flags set when no operation is in flight and too high by at most the number of "
        "operations in flight otherwise, released_becomes_available (a requester running alone finds a free slot, around the pool and across the 2^64 wrap), counter_no_lost_update "
        "(pre/post_increment and LockFree::add), max_is_max, lock_exclusive (lock word = holder), queue critical section exclusive, queue_hands_out_once (queue + returned + about to be "
        "returned = added, as multisets), handout_owns_all_resources, rollback_leaves_no_lock (no lock leaked by any failed attempt), free_resources_imply_handout (a get_task running alone on "
        "a queue that contains a task with all locks free returns a task - no side condition for the code as it is now), and Task::set_extra_dependency as repaired for D2: a task given the "
        "same lock twice has one dependency, is handed out with it and releases one lock, whereas in the pinned variant (model switch dedup = false) it is provably never handed out. "
        "The QUIESCENT (non-thread-safe) pool methods clear(), clear_after(offset) and get_free_elements(size) are model steps enabled only while no thread has a pool operation in flight "
        "(they are called by the master thread outside the parallel regions: TaskBasedIonizationSimulation _tasks->clear(), TaskBasedRadiationHydrodynamicsSimulation "
        "tasks->clear_after(radiation_task_offset)) and under the contract the code relies on (clear_after: offset <= size and every slot below offset is held - what _number_taken.set(offset) "
        "assumes; handles from offset onwards are dropped): the pool theorems are re-proved for the extended reachability relation reachq (C08_q_slot_exclusive, _inflight, _held_once, "
        "_flag_iff_owned, _occupancy_exact_when_quiescent / _when_pool_quiet, _occupancy_inflight_bound, _get_succeeds_when_quiescent, _get_succeeds_iff_free: a get on a quiescent pool obtains a "
        "slot iff one is free, otherwise it is refused and never spins), and C08_clear_after_establishes states exactly what the call leaves from ANY such state (cursor anywhere: pool filled "
        "to its last slot, cursor gone around the pool or wrapped at 2^64): flags set = the slots below offset that were held (same holders), every slot from offset onwards free and in nobody's "
        "view, counter = slots held = flags set = offset, cursor = offset, a following get succeeds iff a slot is free; C08_clear_establishes, C08_get_free_elements_establishes likewise; "
        "C08_clear_after_contract_necessary (with a free slot below offset the counter is wrong) and C08_permanent_block_stays_held (the block stays held while nobody frees one of its slots). Tie: on every run the real classes are executed by real threads under a deterministic scheduler (guarded yield hook before each atomic operation, hook H1) on "
        "exhaustive and seeded schedules; the extracted model runs the same schedules and every step (operation, variable, value before/after, return value, complete shared state) is compared; "
        "schedules contain barriers (end of a parallel region) at which the master thread calls the real clear/clear_after/get_free_elements (pools filled to the last slot, cursor wrapped, slots held "
        "above and below the offset) and the model performs the corresponding step; client views and the complete state are compared after the call.",
   note="Not in the model: AtomicValue::pre_add/pre_subtract (photon countdown of the continuous source) are run by real threads under the same deterministic scheduler and decided by the oracle alone (counter = sum of the completed operations at every quiescent point); MemorySpace buffers are stamped by their holder (handed out empty, untouched while held). C++11 seq_cst atomics are modelled as sequentially consistent interleaving (what std::atomic defaults guarantee); plain non-atomic reads/writes (queue array and size under the queue "
        "lock) are modelled as atomic, executed together with the preceding atomic operation of the same thread - stated, not verified; compare_exchange_weak is assumed not to fail spuriously "
        "(true for lock cmpxchg on x86-64). Progress theorems are about a thread that runs alone from the given state (no fairness assumption is made about schedules). Queue capacity is a "
        "client obligation (add_task does not check it without assertions). Not modelled: MemorySpace::add_photons overflow copy (sequential, no atomic operation of its own beyond "
        "get_free_buffer), Scheduler::get_task's choice among queues (it only composes get_task/try_get_task), ThreadSafeVector::clear_fast (asserts an empty pool and resets the cursor only). "
        "The quiescent methods are ONE model step each (plain loops and stores by the only running thread); that their callers run them outside parallel regions, with the contract of clear_after "
        "(the hydro tasks occupy slots [0, offset), are created first from the empty pool and are never freed; offset = tasks->size()) is read off the two call sites, not verified here. "
        "The q-theorems need 0 < pool size (index = cursor % size). get_free_elements has no caller in the tree. "
        "Trusted: Coq kernel; ExtrOcamlBasic extraction + OCaml driver, harness scheduler and yield hook (correspondence only). Needs /verif/hooks/c08_yield.patch applied to the repository.",
   technique="inductive invariants over all reachable states of an interleaving model + deterministic-scheduler differential correspondence (exhaustive small scope + seeded random)")

HARNESS = os.path.join(vf.VERIF, "harness/c08/sched_harness.cpp")
DRIVER = os.path.join(vf.VERIF, "ocaml/c08_driver.ml")
W64 = 1 << 64


def hook_present():
    try:
        a = open(os.path.join(vf.REPO, "src", "VerifHooks.hpp")).read()
        b = open(os.path.join(vf.REPO, "src", "AtomicValue.hpp")).read()
        c = open(os.path.join(vf.REPO, "src", "LockFree.hpp")).read()
    except OSError:
        return False
    return "define CMI_VERIF_YIELD" in a and "CMI_VERIF_YIELD(" in b and "CMI_VERIF_YIELD(" in c


# ------------------------------------------------------------------------------------------
# cases
def case_text(cid, c):
    """c: dict(nthr, psize, cur0, nlocks, nctr, tasks=[(d0,d1)], nq, kind, progs=[[tok]], sched=[t], cap[, qprog=[tok]])
    "|" in a program = barrier; qprog = the quiescent pool calls of the master thread (c, k<off>, n<t>:<cnt>), one per serial section"""
    out = ["case %s" % cid,
           "cfg %d %d %d %d %d %d %d %d" % (c["nthr"], c["psize"], c["cur0"], c["nlocks"], c["nctr"], len(c["tasks"]), c["nq"], c["kind"])]
    for k, (a, b) in enumerate(c["tasks"]):
        out.append("task %d %d %d" % (k, a, b))
    for t, p in enumerate(c["progs"]):
        out.append("prog %d %s" % (t, " ".join(p)))
    if c.get("qprog"):
        out.append("qprog " + " ".join(c["qprog"]))
    s = c["sched"]
    for i in range(0, len(s), 64):
        out.append("sched " + " ".join(map(str, s[i:i + 64])))
    out.append("tail %d" % c["cap"])
    out.append("end")
    return out


def base_case(nthr, psize, progs, **kw):
    c = dict(nthr=nthr, psize=psize, cur0=0, nlocks=0, nctr=0, tasks=[], nq=0, kind=0, progs=progs, sched=[], cap=400)
    c.update(kw)
    return c


# hand-picked boundary programs (run first); each is also the seed of an exhaustive enumeration
def corpus():
    T2 = [(0, 1), (1, 0)]            # two tasks taking the same two locks in opposite order
    cs = []
    # pool of one slot, two requesters: the pool is full at once, wraps at every request
    cs.append(("pool1", base_case(2, 1, [["g", "f0", "g", "f0"], ["g", "f0", "g"]])))
    # pool of two slots starting one before the 2^64 wrap of the cursor
    cs.append(("pool2wrap", base_case(2, 2, [["g", "g", "f1", "g"], ["g", "f0", "g", "g"]], cur0=W64 - 1)))
    # MemorySpace (photon buffers), three slots (2^64 is not a multiple: the index sequence jumps at the wrap)
    cs.append(("mem3wrap", base_case(2, 3, [["g", "g", "f0", "g", "f0", "f0"], ["g", "f0", "g", "g"]], cur0=W64 - 2, kind=1)))
    # get_free_element (no full test) against a releasing thread
    cs.append(("unsafe", base_case(2, 1, [["G", "f0"], ["G", "f0"]])))
    # plain locks and counters
    cs.append(("locks", base_case(2, 1, [["l0", "i0", "u0", "t1", "u0"], ["l0", "p0", "u0", "t1", "u0"]], nlocks=2, nctr=2)))
    cs.append(("counters", base_case(2, 1, [["i0", "a0:5", "m1:7", "p0"], ["p0", "a0:3", "m1:9", "i0"]], nctr=2)))
    # queue with tasks sharing two locks in opposite order: rollback of the first lock
    cs.append(("queue2", base_case(2, 1, [["A0:0", "T0", "U0", "T0", "U0"], ["A0:1", "T0", "U0", "Y0"]], nlocks=2, tasks=T2, nq=1)))
    # three tasks: one free of dependencies, one single lock, one two locks; gap closing in the middle
    cs.append(("queue3", base_case(2, 1, [["A0:0", "A0:1", "A0:2", "l1", "T0", "u0", "T0", "U0", "U0"], ["t0", "T0", "u0", "T0", "U0", "U0"]],
                                   nlocks=2, tasks=[(0, 1), (-1, -1), (0, -1)], nq=1)))
    # direct lock_dependency against a queue scan, two queues
    cs.append(("direct", base_case(2, 1, [["A0:0", "A1:1", "D1", "T0", "U0", "U0"], ["D0", "Y1", "U0", "T1", "U0"]], nlocks=2, tasks=T2, nq=2)))
    # a task given the same lock twice (one subgrid on a periodic axis, D2): as repaired it has ONE dependency,
    # is handed out with it, and unlock_dependency releases exactly that one lock
    cs.append(("samelock", base_case(2, 1, [["A0:0", "T0", "U0", "A0:1", "Y0", "U0"], ["T0", "U0", "t0", "u0", "D0", "U0", "T0", "U0"]],
                                     nlocks=2, tasks=[(0, 0), (1, 1)], nq=1)))
    # ---- quiescent pool operations (clear_after / clear / get_free_elements), called by the master thread between
    # parallel regions ("|" = barrier).  The pattern of TaskBasedRadiationHydrodynamicsSimulation: a permanent block
    # taken first (thread 0, serially), then get/free traffic, then clear_after(block) with slots still held above it.
    # pool filled EXACTLY to its last slot (cursor == size) when clear_after is called; afterwards all freed slots
    # must be obtainable again; second round: cursor wrapped around the pool
    cs.append(("qfull", base_case(2, 4, [["G", "G", "|", "g", "|", "g", "g", "|", "g"], ["|", "g", "|", "g", "f0", "g", "|", "g", "g"]],
                                  qprog=["k2", "k2", "k2", "k2"])))
    # cursor goes around a pool of three several times (get/free churn) with one slot held above the block of one
    cs.append(("qwrap", base_case(2, 3, [["G", "|", "g", "f0", "g", "f0", "g", "|", "g", "g"], ["|", "g", "f0", "g", "f0", "g", "f0", "g", "|", "g", "f0", "g"]],
                                  qprog=["k1", "k1", "k1"])))
    # the same across the 2^64 wrap of the cursor (MemorySpace), block taken by get_free_elements
    cs.append(("qwrap64", base_case(2, 3, [["|", "g", "f0", "g", "|", "g", "|", "|", "g", "|", "g"], ["|", "g", "g", "f1", "g", "|", "g", "g", "|", "|", "g", "g", "|", "g"]],
                                    cur0=W64 - 2, kind=1, qprog=["k0", "k0", "c", "n0:1", "k1"])))
    # clear() with slots held by everybody, get_free_elements on the emptied pool, block == pool size (every get refused)
    cs.append(("qclear", base_case(2, 2, [["g", "|", "g", "|", "|", "g", "|", "g"], ["g", "|", "g", "|", "|", "g", "|", "g", "f0"]],
                                   qprog=["c", "c", "n1:2", "k2", "k0"])))
    # three threads
    cs.append(("qfull3t", base_case(3, 4, [["G", "|", "g", "|", "g"], ["|", "g", "|", "g"], ["|", "g", "f0", "g", "|", "g"]], qprog=["k1", "k1", "k1"])))
    cs.append(("pool3t", base_case(3, 2, [["g", "f0"], ["g", "f0"], ["g", "f0"]])))
    cs.append(("queue3t", base_case(3, 1, [["A0:0", "A0:1", "T0", "U0"], ["T0", "U0", "T0"], ["Y0", "U0", "T0", "U0"]], nlocks=2, tasks=T2 + [(1, -1)], nq=1)))
    return cs


def gen_quiescent(rng):
    """pool traffic in parallel regions separated by serial sections in which the master thread calls
    clear_after / clear / get_free_elements (the usage pattern of the task pool of the RHD driver)"""
    nthr = 2 + rng.below(3)
    psize = 1 + rng.below(5)
    off = rng.below(min(psize, 3) + 1)
    c = base_case(nthr, psize, [], kind=rng.below(2))
    c["cur0"] = rng.choice([0, 0, 0, 1, psize, W64 - 1, W64 - 2, W64 - 1 - psize, rng.below(1000)])
    nphase = 2 + rng.below(4)
    progs = [[] for _ in range(nthr)]
    qprog = []

    def serial(tok):
        # end of a parallel region: every thread waits at a barrier, the master thread makes one call
        for p in progs:
            p.append("|")
        qprog.append(tok)

    def traffic(last=False):
        style = rng.below(3)
        for t in range(nthr):
            n = rng.below(3) if (t == 0 and not last) else 1 + rng.below(2 + psize)
            for j in range(n):
                if t == 0 and not last:
                    # the holder of the block never frees (its newest slot could be a block slot after a refused get)
                    tok = "g"
                elif style == 0:
                    tok = rng.choice(["g", "g", "g", "f0", "f1"])          # fills up, keeps slots
                elif style == 1:
                    tok = "g" if j % 2 == 0 else "f0"                       # churn: the cursor runs around the pool
                else:
                    tok = rng.choice(["g", "f0", "f0", "g", "f1"])
                progs[t].append(tok)

    # region 0: the permanent block, by thread 0 alone (get_free_element, as make_hydro_tasks does) or by get_free_elements
    if rng.below(2) == 0:
        progs[0] += ["G"] * off
        serial("k%d" % off)
    else:
        serial("n0:%d" % off)
    for ph in range(nphase):
        traffic()
        r = rng.below(10)
        if r < 7:
            serial("k%d" % off)
        elif r == 7:
            serial("k%d" % rng.below(psize + 2))      # another offset: skipped unless its contract holds
        elif r == 8:
            serial("c")
            off = rng.below(min(psize, 3) + 1)
            serial("n0:%d" % off)                     # a new block on the emptied pool
        else:
            serial("k0")
            off = 0
    traffic(last=True)                                 # what was released must be obtainable again
    c["progs"] = progs
    c["qprog"] = qprog
    # bursts of one thread (the round-robin tail alone would let every requester pass the "pool full?" test together)
    L = 150 + rng.below(500)
    maxburst = rng.choice([1, 3, 9, 16])
    s = []
    while len(s) < L:
        s += [rng.below(nthr)] * (1 + rng.below(maxburst))
    c["sched"] = s
    c["cap"] = 450     # a requester that passed the "pool full?" test together with others may spin until a slot is freed: bounded
    return c


def gen_random(rng, idx):
    fam = idx % 6
    if fam == 5:
        return gen_quiescent(rng)
    nthr = 2 + rng.below(3)
    psize = 1 + rng.below(4)
    c = base_case(nthr, psize, [], kind=rng.below(2))
    c["cur0"] = rng.choice([0, 0, 1, W64 - 1, W64 - 2, W64 - 3, rng.below(1000)])
    c["nlocks"] = 1 + rng.below(3)
    c["nctr"] = 2
    ntasks = 1 + rng.below(6)
    c["tasks"] = []
    for k in range(ntasks):
        r = rng.below(8)
        if r == 0:
            c["tasks"].append((-1, -1))
        elif r == 1:
            a = rng.below(c["nlocks"])
            c["tasks"].append((a, a))          # the same lock twice
        elif r == 2 or c["nlocks"] == 1:
            c["tasks"].append((rng.below(c["nlocks"]), -1))
        else:
            a = rng.below(c["nlocks"])
            b = (a + 1 + rng.below(c["nlocks"] - 1)) % c["nlocks"]
            c["tasks"].append((a, b))
    c["nq"] = 1 + rng.below(2)
    progs = []
    nadd = 0
    for t in range(nthr):
        n = 2 + rng.below(7)
        p = []
        for j in range(n):
            if fam == 0:      # pool only
                tok = rng.choice(["g", "g", "g", "f0", "f1", "f0"])
            elif fam == 1:    # locks and counters
                l = rng.below(c["nlocks"])
                tok = rng.choice(["t%d" % l, "t%d" % l, "u0", "u1", "i0", "p0", "a0:%d" % (1 + rng.below(9)), "a1:%d" % (W64 - 1 - rng.below(3)),
                                  "m1:%d" % rng.below(20), "l%d" % l if ("l%d" % l) not in p and ("t%d" % l) not in p else "u0"])
            elif fam == 2 or fam == 3:    # queues
                q = rng.below(c["nq"])
                tok = rng.choice(["A%d:%d" % (q, rng.below(ntasks)), "A%d:%d" % (q, rng.below(ntasks)), "T%d" % q, "T%d" % q, "Y%d" % q, "U0", "U0", "U1",
                                  "D%d" % rng.below(ntasks), "t%d" % rng.below(c["nlocks"]), "u0"])
            else:             # everything
                q = rng.below(c["nq"])
                tok = rng.choice(["g", "f0", "A%d:%d" % (q, rng.below(ntasks)), "T%d" % q, "Y%d" % q, "U0", "i0", "a0:2", "m1:%d" % rng.below(9),
                                  "t%d" % rng.below(c["nlocks"]), "u0", "G" if psize >= nthr else "g"])
            p.append(tok)
        if fam in (2, 3) and t == 0:
            # make sure the queues hold something early
            p = ["A%d:%d" % (rng.below(c["nq"]), rng.below(ntasks)) for _ in range(1 + rng.below(min(6, ntasks + 1)))] + p
        progs.append(p)
    c["progs"] = progs
    L = 20 + rng.below(140)
    mode = rng.below(3)
    s = []
    cur = rng.below(nthr)
    for i in range(L):
        if mode == 0 or (mode == 1 and rng.below(10) < 3) or (mode == 2 and rng.below(10) < 6):
            cur = rng.below(nthr)
        s.append(cur)
    c["sched"] = s
    c["cap"] = 500
    return c


def exhaustive(c, depth):
    for pre in itertools.product(range(c["nthr"]), repeat=depth):
        d = dict(c)
        d["sched"] = list(pre)
        yield d


# ------------------------------------------------------------------------------------------
def split_blocks(lines):
    blocks = {}
    cur = None
    for l in lines:
        if l.startswith("case "):
            cur = l.split()[1]
            blocks[cur] = []
        if cur is not None:
            blocks[cur].append(l)
        if l.startswith("end "):
            cur = None
    return blocks


def parse_state(l):
    st = {}
    for f in l[2:].split(" "):
        k, _, v = f.partition(":")
        st[k] = v
    return st


def oracle(c, block):
    """property C08 decided on ONE log of the real code (independent of the model).
    returns None or a description of the clause that fails"""
    psize = c["psize"]
    # the resources of a task = the SET of locks it declared (a lock declared twice is one resource)
    deps = [([a] + ([b] if b >= 0 and b != a else [])) if a >= 0 else [] for (a, b) in c["tasks"]]
    scan = {}        # thread -> state of a get_task scan in progress (for the hand-out clause)
    slot_owner = {}
    lock_holder = {}
    curop = {}
    added = {}
    handed = {}
    inc_done = {}
    lf_done = {}
    max_done = {}
    released = {}    # slot -> how it was released; until it is handed out again its flag must be clear at quiescence
    idle_all = True
    step = 0
    for l in block:
        if l.startswith("q "):
            # a quiescent call of the master thread: "q <text> <ok|skipped> H:..."
            f = l.split()
            o = f[1].split(":")
            if f[2] != "ok":
                continue
            if not idle_all:
                return "harness: quiescent call %s after step %d while an operation is in flight" % (f[1], step)
            if o[0] == "clear" or o[0] == "clear_after":
                off = int(o[1]) if o[0] == "clear_after" else 0
                if off > psize or any(i not in slot_owner for i in range(off)):
                    return "client contract broken by the harness (%s after step %d: slots below the offset are not all held)" % (f[1], step)
                for i in [i for i in slot_owner if i >= off]:
                    del slot_owner[i]          # the handles from the offset onwards are dropped by their holders
                for i in range(off, psize):
                    released[i] = "%s after step %d" % (f[1].replace(":", "(") + (")" if ":" in f[1] else "()"), step)
            elif o[0] == "get_free_elements":
                t, n = int(o[1]), int(o[2])
                if slot_owner or n > psize:
                    return "client contract broken by the harness (%s after step %d on a pool that is not empty)" % (f[1], step)
                for i in range(n):
                    slot_owner[i] = t
                    released.pop(i, None)
        elif l.startswith("s "):
            step += 1
            f = l.split()
            t, name, obj = int(f[1]), f[2], f[3]
            ret = f[f.index("ret") + 1] if "ret" in f[6:] else None
            for t2 in scan:
                if t2 != t:
                    scan[t2]["solo"] = False
            if name == "cas_lock" and obj.startswith("qlock:") and f[4] == "0" and curop.get(t, "").split(":")[0] in ("gettask", "trygettask"):
                scan[t] = {"q": int(obj.split(":")[1]), "solo": True, "free": None, "step": step}
            if name == "start":
                curop[t] = obj
                o = obj.split(":")
                if o[0] == "free":
                    i = int(o[1])
                    if slot_owner.get(i) != t:
                        return "client contract broken by the harness (free of a slot not owned) at step %d" % step
                    del slot_owner[i]
                    released[i] = "free_element(%d) of thread %d started at step %d" % (i, t, step)
                elif o[0] == "unlock":
                    if lock_holder.get(int(o[1])) != ("T%d" % t):
                        return "client contract broken by the harness (unlock of a lock not held) at step %d" % step
                    del lock_holder[int(o[1])]
                elif o[0] == "unlockdep":
                    for x in deps[int(o[1])]:
                        if lock_holder.get(x) != ("T%d" % t):
                            return "client contract broken by the harness (unlock_dependency of a task not held) at step %d" % step
                        del lock_holder[x]
                elif o[0] == "add":
                    key = (int(o[1]), int(o[2]))
                    added[key] = added.get(key, 0) + 1
            if ret is not None:
                o = curop[t].split(":")
                if o[0] in ("get", "getu"):
                    i = int(ret)
                    if i < psize:
                        if i in slot_owner:
                            return "slot %d returned to thread %d at step %d while thread %d still holds it" % (i, t, step, slot_owner[i])
                        slot_owner[i] = t
                        released.pop(i, None)
                    elif i > psize:
                        return "get returned the out-of-range index %d" % i
                    elif o[0] == "getu":
                        return ("get_free_element (the variant that waits until a slot is released) returned %d = max_size to thread %d at step %d: that is not a slot of the pool "
                                "(every caller that finds the pool full gets this same index)" % (i, t, step))
                elif o[0] == "lock" or (o[0] == "trylock" and ret == "1"):
                    x = int(o[1])
                    if x in lock_holder:
                        return "lock %d acquired by thread %d at step %d while %s holds it" % (x, t, step, lock_holder[x])
                    lock_holder[x] = "T%d" % t
                elif o[0] in ("gettask", "trygettask") and ret == "none":
                    sc = scan.pop(t, None)
                    if sc and sc["solo"] and sc["free"] is not None:
                        return ("get_task on queue %d (steps %d-%d, caller running alone) returned no task although task %d in the queue had all its locks free"
                                % (sc["q"], sc["step"], step, sc["free"]))
                elif o[0] in ("gettask", "trygettask") and ret != "none":
                    scan.pop(t, None)
                    k = int(ret)
                    key = (int(o[1]), k)
                    handed[key] = handed.get(key, 0) + 1
                    if handed[key] > added.get(key, 0):
                        return "task %d handed out by queue %d at step %d more often (%d) than it was added (%d)" % (k, key[0], step, handed[key], added.get(key, 0))
                    if k >= len(deps):
                        return "queue %d handed out index %d which is not a task" % (key[0], k)
                    for x in deps[k]:
                        if x in lock_holder:
                            return "task %d handed to thread %d at step %d although its lock %d is held by %s" % (k, t, step, x, lock_holder[x])
                        lock_holder[x] = "T%d" % t
                elif o[0] == "lockdep" and ret == "1":
                    for x in deps[int(o[1])]:
                        if x in lock_holder:
                            return "lock_dependency of task %s succeeded for thread %d at step %d although lock %d is held by %s" % (o[1], t, step, x, lock_holder[x])
                        lock_holder[x] = "T%d" % t
                elif o[0] in ("preinc", "postinc"):
                    inc_done[int(o[1])] = inc_done.get(int(o[1]), 0) + 1
                elif o[0] in ("ctradd", "ctrsub"):
                    inc_done[int(o[1])] = inc_done.get(int(o[1]), 0) + (int(o[2]) if o[0] == "ctradd" else -int(o[2]))
                elif o[0] == "lfadd":
                    lf_done[int(o[1])] = (lf_done.get(int(o[1]), 0) + int(o[2])) % W64
                elif o[0] == "max":
                    max_done[int(o[1])] = max(max_done.get(int(o[1]), 0), int(o[2]))
        elif l.startswith("= "):
            st = parse_state(l)
            for t2, sc in scan.items():
                if sc["free"] is None and sc["step"] == step:
                    qq = st["Q"].split(";")[sc["q"]].partition(":")[2]
                    sc["free"] = -1
                    for k in (qq.split(",") if qq else []):
                        if int(k) < len(deps) and all(st["L"][x] == "0" for x in deps[int(k)]):
                            sc["free"] = int(k)
                            break
                    if sc["free"] == -1:
                        sc["free"] = None
                        sc["step"] = -1      # nothing lockable when the scan started: clause not applicable
            idle_all = "0" not in st["I"]
            if not idle_all:
                continue
            # no operation in flight
            nflags = st["F"].count("1")
            if not (int(st["N"]) == len(slot_owner) == nflags):
                leaked = [i for i in range(psize) if st["F"][i] == "1" and i not in slot_owner]
                return ("at quiescence after step %d: occupancy counter %s, slots held %d, flags set %d" % (step, st["N"], len(slot_owner), nflags)
                        + ("; slot(s) %s released by %s but still flagged: never handed out again" % (",".join(map(str, leaked)), released.get(leaked[0], "nobody")) if leaked else ""))
            for i, how in released.items():
                if i < psize and i not in slot_owner and st["F"][i] == "1":
                    return "at quiescence after step %d: slot %d was released (%s) but its flag is still set: it can never be obtained again" % (step, i, how)
            for i in slot_owner:
                if st["F"][i] != "1":
                    return "at quiescence after step %d: slot %d is held but its flag is clear" % (step, i)
            for x, bit in enumerate(st["L"]):
                if (bit == "1") != (x in lock_holder):
                    return "at quiescence after step %d: lock %d is %s but %s" % (step, x, "set" if bit == "1" else "clear",
                                                                            "nobody holds it (leaked)" if bit == "1" else "%s holds it" % lock_holder.get(x))
            xs = [int(v) for v in st["X"].split(",")] if st["X"] else []
            ys = [int(v) for v in st["Y"].split(",")] if st["Y"] else []
            zs = [int(v) for v in st["Z"].split(",")] if st.get("Z") else []
            for cidx, v in enumerate(xs):
                if v != inc_done.get(cidx, 0) % W64:
                    return "at quiescence after step %d: counter %d is %d, the completed increments, additions and subtractions sum to %d (lost update)" % (step, cidx, v, inc_done.get(cidx, 0))
            for cidx, v in enumerate(zs):
                if v != max_done.get(cidx, 0):
                    return "at quiescence after step %d: max variable %d is %d, maximum of the completed max() calls is %d" % (step, cidx, v, max_done.get(cidx, 0))
            for cidx, v in enumerate(ys):
                if v != lf_done.get(cidx, 0):
                    return "at quiescence after step %d: LockFree counter %d is %d, completed additions sum to %d (lost update)" % (step, cidx, v, lf_done.get(cidx, 0))
            qs = st["Q"].split(";") if c["nq"] else []
            for q, qq in enumerate(qs):
                lk, _, items = qq.partition(":")
                if lk != "0":
                    return "at quiescence after step %d: queue %d is still locked" % (step, q)
                cnt = {}
                for k in (items.split(",") if items else []):
                    cnt[int(k)] = cnt.get(int(k), 0) + 1
                keys = set(cnt) | set(k for (qq2, k) in added if qq2 == q) | set(k for (qq2, k) in handed if qq2 == q)
                for k in keys:
                    if cnt.get(k, 0) + handed.get((q, k), 0) != added.get((q, k), 0):
                        return ("at quiescence after step %d: queue %d holds task %d %d times, handed it out %d times, but it was added %d times"
                                % (step, q, k, cnt.get(k, 0), handed.get((q, k), 0), added.get((q, k), 0)))
        elif l.startswith("!"):
            return "harness: " + l
    return None


def trace_stats(block, hist):
    """contention events of one real trace; returns (nontrivial?, signature)"""
    curop = {}
    nontriv = False
    h = hashlib.sha256()
    prev = None
    psz = None
    for l in block:
        if l.startswith("= "):
            prev = l
            continue
        if l.startswith("q "):
            f = l.split()
            h.update((" ".join(f[1:3]) + ";").encode())
            name = f[1].split(":")[0]
            key = "quiescent %s %s" % (name, "called" if f[2] == "ok" else "skipped (contract does not hold)")
            hist[key] = hist.get(key, 0) + 1
            if f[2] == "ok" and name in ("clear_after", "clear") and prev:
                st = parse_state(prev)
                off = int(f[1].split(":")[1]) if name == "clear_after" else 0
                n = len(st["F"])
                cur = int(st["C"])
                tags = []
                if "0" not in st["F"]:
                    tags.append("pool full")
                if cur == n:
                    tags.append("cursor == size (filled exactly to the last slot)")
                if cur > n:
                    tags.append("cursor > size (went around the pool or wrapped at 2^64)")
                if "1" in st["F"][off:]:
                    tags.append("slots held from the offset onwards")
                    if "1" in st["F"][max(off, cur % n):]:
                        tags.append("slots held at or above cursor % size")
                for tg in tags:
                    k2 = "quiescent %s with %s" % (name, tg)
                    hist[k2] = hist.get(k2, 0) + 1
                if tags:
                    nontriv = True
            continue
        if not l.startswith("s "):
            continue
        f = l.split()
        t, name, obj, before, after = f[1], f[2], f[3], f[4], f[5]
        h.update((" ".join(f[1:4]) + ";").encode())
        if name == "start":
            curop[t] = obj.split(":")[0]
            continue
        kind = obj.split(":")[0]
        key = None
        if name == "cas_lock":
            ok = before == "0"
            key = "cas_lock %s %s" % (kind, "ok" if ok else "FAILED")
            if not ok:
                nontriv = True
        elif name == "cas_unlock":
            if kind == "lock" and curop.get(t) in ("gettask", "trygettask", "lockdep"):
                key = "cas_unlock lock ROLLBACK"
                nontriv = True
            else:
                key = "cas_unlock %s" % kind
        elif name in ("max_cas", "lf_cas"):
            key = name + " " + kind
        else:
            key = name + " " + kind
        hist[key] = hist.get(key, 0) + 1
        if "ret" in f[6:]:
            r = f[f.index("ret") + 1]
            op = curop.get(t)
            if op in ("get", "getu") and name == "load":
                hist["get: pool FULL"] = hist.get("get: pool FULL", 0) + 1
                nontriv = True
            if op in ("gettask", "trygettask"):
                k2 = "get_task: " + ("task" if r != "none" else "none")
                hist[k2] = hist.get(k2, 0) + 1
    return nontriv, h.hexdigest()


# ------------------------------------------------------------------------------------------
def build(ck):
    d = ck.scratch
    ok1, log1 = vf.coq_extract("C08", d)
    ok2, log2 = (False, "") if not ok1 else vf.ocaml_build(d, ["c08_model"], DRIVER, "model")
    ok3, log3 = vf.cxx_build(HARNESS, os.path.join(d, "impl"), extra=["-pthread", "-DOMPI_SKIP_MPICXX"], openmp=False)
    return ok1 and ok2, log1 + log2, ok3, log3


def run_batch(ck, cases, with_model=True):
    """cases: list of (id, dict). returns (impl blocks, model blocks, rc_impl)"""
    d = ck.scratch
    text = "\n".join("\n".join(case_text(cid, c)) for cid, c in cases) + "\n"
    rc_i, out_i = vf.run_lines([os.path.join(d, "impl")], text, timeout=1500)
    bi = split_blocks(out_i)
    bm = {}
    if with_model:
        rc_m, out_m = vf.run_lines([os.path.join(d, "model")], text, timeout=1500)
        bm = split_blocks(out_m)
    hdr = [l for l in out_i[:1] if l.startswith("sizeof_size_t")]
    return bi, bm, rc_i, hdr


def counter_arithmetic(ck):
    """'atomic counters never lose an update' for the operations that are not part of the model's alphabet (AtomicValue::pre_add and
    pre_subtract, used for the photon countdown of the continuous source): real threads under the deterministic scheduler, all schedule
    prefixes + seeded schedules, decided by the oracle alone (every completed operation is in the counter at quiescence)."""
    cs = []
    base = [base_case(2, 1, [["e0:1000", "s0:3", "i0", "s0:1"], ["e0:1000", "i0", "s0:2", "s0:5"]], nctr=1),
            base_case(3, 1, [["e0:500", "s0:3", "s0:4"], ["e0:500", "s0:1", "e0:7"], ["e0:500", "s0:2", "p0"]], nctr=1)]
    for bi_, b in enumerate(base):
        depth = (9 if ck.quick else 12) if b["nthr"] == 2 else (5 if ck.quick else 7)
        for j, e in enumerate(exhaustive(b, depth)):
            cs.append(("n_%d_%d" % (bi_, j), e))
    rng = ck.rng
    for i in range(300 if ck.quick else 3000):
        nthr = 2 + rng.below(2)
        progs = [["e0:1000"] + [rng.choice(["s0:%d" % (1 + rng.below(9)), "e0:%d" % (1 + rng.below(9)), "i0", "p0", "s1:1", "e1:2"]) for _ in range(3 + rng.below(4))] for _ in range(nthr)]
        for pr in progs:
            pr.insert(1, "e1:1000")
        c = base_case(nthr, 1, progs, nctr=2)
        c["sched"] = [rng.below(nthr) for _ in range(80)]
        cs.append(("n_r%d" % i, c))
    bi, _, rc, _ = run_batch(ck, cs, with_model=False)
    bad = 0
    for cid, c in cs:
        blk = bi.get(cid)
        if blk is None or not blk[-1].startswith("end "):
            ck.breaks.append("no complete log from the real AtomicValue counters for case %s (exit %d)" % (cid, rc))
            break
        why = oracle(c, blk)
        if why:
            bad += 1
            if bad <= 2:
                ck.violation("C08 fails on the real AtomicValue counters: " + why, {"case": c, "failing_clause": why}, key={"kind": "containers", "clause": why.split(" at ")[0][:60]})
    ck.coverage["counter_arithmetic_schedules"] = len(cs)


def run(ck):
    ck.prove()
    if not hook_present():
        ck.breaks.append("yield hook not present: %s/src/VerifHooks.hpp does not define CMI_VERIF_YIELD (or AtomicValue.hpp / LockFree.hpp do not call it); "
                         "apply /verif/hooks/c08_yield.patch - the correspondence with the real containers cannot be run without it" % vf.REPO)
        ck.resolve_breaks_without_input()
        return
    okm, logm, oki, logi = build(ck)
    if not oki:
        ck.breaks.append("harness does not compile against the containers in %s/src:\n%s" % (vf.REPO, logi[-2500:]))
    if not okm:
        ck.breaks.append("model extraction/build failed:\n" + logm[-2500:])
    if not oki:
        ck.resolve_breaks_without_input()
        return
    cases = []
    corp = corpus()
    for name, c in corp:
        cases.append(("c_" + name, c))
    d2 = 8 if ck.quick else 12
    d3 = 5 if ck.quick else 7
    bounds = {}
    for name, c in corp:
        depth = d2 if c["nthr"] == 2 else d3
        bounds[name] = "%d threads, all %d^%d schedule prefixes, then round robin" % (c["nthr"], c["nthr"], depth)
        for j, e in enumerate(exhaustive(c, depth)):
            cases.append(("x_%s_%d" % (name, j), e))
    nexh = len(cases)
    nrand = 1500 if ck.quick else 15000
    for i in range(nrand):
        cases.append(("r_%d" % i, gen_random(ck.rng, i)))
    cmap = dict(cases)
    bi, bm, rc_i, hdr = run_batch(ck, cases, with_model=okm)
    counter_arithmetic(ck)
    ck.log("ran %d schedules (%d corpus+exhaustive, %d random)" % (len(cases), nexh, nrand))
    if rc_i != 0:
        ck.breaks.append("the scheduler harness exited with status %d (a thread hung between two yield points or crashed)" % rc_i)
    if not hdr or "sizeof_size_t 8" not in hdr[0]:
        ck.breaks.append("size_t is not 8 bytes wide (%s): the model assumes WORD = 2^64" % hdr)
    cov = ck.coverage
    mism = 0
    hist = {}
    sigs = set()
    total_steps = 0
    capped = 0
    samples = []
    for cid, c in cases:
        blk = bi.get(cid)
        if blk is None or not blk[-1].startswith("end "):
            mism += 1
            if mism <= 3:
                ck.breaks.append("no complete log from the real containers for case %s" % cid)
            continue
        total_steps += sum(1 for l in blk if l.startswith("s "))
        if blk[-1].endswith("capped"):
            capped += 1
        nt, sig = trace_stats(blk, hist)
        if nt:
            sigs.add(sig)
        if okm and blk != bm.get(cid):
            mism += 1
            if mism <= 3:
                mb = bm.get(cid) or []
                k = vf.first_diff(blk, mb)
                why = oracle(c, blk)
                desc = ("model and real containers disagree in case %s at log line %d: impl=%r model=%r (previous: %r)"
                        % (cid, k, blk[k] if 0 <= k < len(blk) else None, mb[k] if 0 <= k < len(mb) else None, blk[k - 1] if k > 0 else None))
                if why:
                    ck.violation("C08 fails on the real containers: %s (%s)" % (why, desc), {"case": c, "failing_clause": why}, key={"kind": "containers", "clause": why.split(" at ")[0][:60]})
                else:
                    ck.breaks.append("correspondence C08 model <-> containers: " + desc + " case=" + json.dumps(c))
        if len(samples) < 2 and cid in ("c_pool2wrap", "c_queue2"):
            samples.append({"case": cid, "programs": c["progs"], "first_steps": [l for l in blk if l.startswith("s ")][:12], "last": blk[-1]})
    # regression for the repair of D2 (Task::set_extra_dependency): the real queue must hand out a task that was given the same lock twice
    blk = bi.get("c_samelock")
    if blk:
        rets = [l.split()[-1] for l in blk if l.startswith("s ") and " ret " in l and l.split()[2] == "cas_unlock" and l.split()[3].startswith("qlock") and l.split()[-1] != "-"]
        rel = sum(1 for l in blk if l.startswith("s ") and l.split()[2] == "cas_unlock" and l.split()[3].startswith("lock:"))
        cov["same_lock_twice"] = ("real TaskQueue::get_task/try_get_task on tasks whose two dependencies are the same lock returned %s; %d lock releases in the run "
                                  "(model: identical, step by step)" % (rets, rel))
        if not any(r not in ("none",) for r in rets):
            ck.breaks.append("regression D2: the real TaskQueue never handed out the task whose two dependencies are the same lock (case c_samelock)")
    if not ck.quick and not (ck.breaks or mism):
        # extra evidence (thorough tier): the property oracle on every real log; not part of the verdict (DESIGN 2.4)
        bad = sum(1 for cid, c in cases if bi.get(cid) and oracle(c, bi[cid]))
        ck.notes.append("thorough: property oracle evaluated on %d agreeing real logs, %d fail" % (len(cases), bad))
    # search on break: the property oracle on every real log
    if ck.breaks or mism:
        found = 0
        for cid, c in cases:
            blk = bi.get(cid)
            if not blk:
                continue
            why = oracle(c, blk)
            if why:
                found += 1
                if found <= 3 and not any(isinstance(v["replay"], dict) and v["replay"].get("case") == c for v in ck.violations):
                    ck.violation("C08 fails on the real containers: " + why, {"case": c, "failing_clause": why}, key={"kind": "containers", "clause": why.split(" at ")[0][:60]})
        ck.notes.append("search-on-break: property oracle evaluated on %d real logs, %d fail" % (len(cases), found))
    cov = ck.coverage
    cov["evaluations"] = len(cases)
    cov["steps_compared"] = total_steps
    cov["distinct_nontrivial"] = len(sigs)
    cov["rule"] = ("evaluation = one schedule: the real containers run by 2-4 real threads under the deterministic scheduler and the extracted model run on the same schedule; "
                   "EVERY step is compared (thread, atomic operation, variable, value before and after, return value of a completed client operation, and the complete shared state: "
                   "pool flags, cursor, occupancy/max/total counters, locks, counters, queue locks and contents, idle flags). Pools of 1-4 slots (ThreadSafeVector<Task> and MemorySpace), "
                   "cursor started at 0 and just below 2^64, 1-3 locks, 1-6 tasks with 0/1/2 dependencies, 1-2 queues. non-trivial = the real trace contains a failed CAS, a full pool, "
                   "a rollback of the first dependency, or a quiescent clear/clear_after on a pool that is full, whose cursor is >= size, or that has slots held from the offset onwards; "
                   "distinct = distinct sequence of (thread, operation, variable) of the real trace. Quiescent family: programs with barriers; at every barrier (all threads idle) the master thread "
                   "calls clear_after(off) / clear() / get_free_elements(n) on the real pool when the contract of the method holds (else the call is skipped, on both sides), pools of 1-5 slots, "
                   "block of 0-3 permanent slots taken serially first, cursor started at 0, at size, and just below 2^64; the held-slot views of all threads and the complete state are compared after the call")
    cov["exhaustive_scopes"] = bounds      # per corpus case: which schedule prefixes were enumerated completely (the run as a whole is not exhaustive)
    cov["exhaustive_schedules"] = nexh
    cov["random_schedules"] = nrand
    cov["capped_schedules"] = capped
    cov["event_histogram"] = dict(sorted(hist.items()))
    cov["case_mismatches"] = mism
    cov["samples"] = samples or [{"note": "no sample collected"}]
    ck.assumptions += [
        "seq_cst atomics = sequentially consistent interleaving of atomic operations; plain accesses to the queue array/size are executed with the preceding atomic operation of the same thread (modelled as atomic, not verified)",
        "compare_exchange_weak (LockFree::add) does not fail spuriously (x86-64 lock cmpxchg); size_t is 8 bytes (printed by the harness and checked)",
        "client contract (hypothesis of the theorems, enforced by the case generator and re-checked by the oracle on every real log it examines): free only a slot you hold, unlock only a lock you locked, unlock_dependency only of a task you were handed; queue capacity is not exceeded",
        "contract of the non-thread-safe pool methods (hypothesis qpre of the q-theorems, decided by qpre_b in the model driver and on the real flags in the harness before every call, re-checked by the oracle): no pool operation in flight; clear_after(offset): offset <= size and every slot below offset is held; get_free_elements(n): empty pool, n <= size; handles from the offset onwards are dropped by their holders",
        "THREADSAFEVECTOR_STATS is defined (the statistics counters are real atomic operations and are part of the model); assertions (HAVE_ASSERTIONS) are off as in the production configuration",
        "extraction through ExtrOcamlBasic; OCaml driver, harness scheduler and yield hook trusted for the correspondence only",
    ]
    ck.resolve_breaks_without_input()


def replay(ck, rp):
    if not hook_present():
        print("REPLAY: yield hook not present in %s" % vf.REPO)
        return 1
    okm, logm, oki, logi = build(ck)
    c = rp["replay"]["case"]
    bi, bm, rc, hdr = run_batch(ck, [("replay", c)], with_model=False)
    blk = bi.get("replay", [])
    print("\n".join(blk))
    why = oracle(c, blk)
    print("REPLAY:", why or "property holds on this input")
    return 1 if why else 0
