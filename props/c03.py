# C03  ray tracing does not depend on the subgrid layout -- all four layers of DESIGN.md; proofs in coq/Cxx/C03_*.v, tie here:
#   layers 2 and 4: packets traced through the real creator vs. the extracted model of Cxx/C03_TraceDefs.v + oracle (run_trace);
#   layer 1: the 27-direction tables of src/TravelDirections.hpp / src/DensitySubGrid.hpp, REGENERATED from the real
#            functions into coq/Cxx/C03_Gen.v on every run and re-proved against the spec of coq/Cxx/C03_Defs.v;
#   layer 3: neighbour wiring and copy bookkeeping of src/DensitySubGridCreator.hpp: Z-model proved for all layouts,
#            run against the real creator on every run (all small layouts + random larger ones).
import os, re, json, math, time, itertools, tempfile, shutil
from fractions import Fraction as Fr
import vf

LEVEL = "proof"
CLAIM = dict(cat="proof", design="§3 C03 (layers 1-4)",
   text="Coq theorems. (layer 1, no axioms) the 27-direction tables REGENERATED from src/TravelDirections.hpp / DensitySubGrid.hpp on every run satisfy: output_to_input_direction is an involution that negates the offset, "
        "exit-mask decoding inverts the offset encoding and rejects exactly the 37 inconsistent masks, output/input compatibility are exactly the sign conditions and input compatibility = output compatibility of the opposite "
        "direction, entry class agrees with the offset, what leaves through d enters through the opposite one; (layer 3, no axioms) for ALL layouts nx,ny,nz>=1, all 8 periodicities and all copy-level vectors a Z-model of the creator's "
        "wiring gives the wrapped lattice neighbour or OUTSIDE exactly at the box end, wiring is mutual (incl. axes with 1 or 2 subgrids), every neighbour of a duplicate is a duplicate/original of the true neighbour, "
        "folding adds every copy's contribution to its original exactly once and nothing else, pushing reaches every copy once; a trace through copies makes the same interact calls as the trace through the originals. "
        "(layers 2 and 4, over R, on a literal model of the task loop get_subgrid -> interact -> get_neighbour -> output_to_input_direction around C02's model of interact, subgrid boxes as DensitySubGridCreator computes them) "
        "HAND-OVER LEMMA for every two consecutive interact calls of every trace: same packet position and remaining optical depth (> 0), neighbour = lattice neighbour in the exit offset (periodic wrap = change of anchor), "
        "start position + new anchor = exit position minus the wrapped box periods, start cell contains the point and is the adjacent cell across the crossed plane / the same cell on axes not crossed, with the ray continuing "
        "inside it - or the explicitly characterised tie (axis not crossed, negative direction, point on a cell wall: truncation picks the cell above, one zero-length iteration); C02's premises are re-established by every "
        "hand-over. LAYOUT INDEPENDENCE, full strength (no genericity condition: zero direction components, rays in cell-face planes, through edges/corners, starts on walls included): every trace is a chunking of ONE "
        "deterministic reference march on the undivided, periodically unfolded cell lattice, hence for any two layouts of the same global grid (incl. the undivided 1x1x1 grid and 1 or 2 subgrids on a periodic axis) the "
        "absorbed/escaped decision, the end position, the remaining optical depth and the length credited to every global cell (hence, by C02 estimators_exact, every estimator) are equal, and the trace ends in one layout "
        "iff it ends in the other. Tie: tables by regeneration; wiring by differential execution of the real DensitySubGridCreator (all layouts <=3^3 x 8 periodicities + random larger, random copy levels); trace: the "
        "extracted binary64 instance of the SAME trace definitions is compared bit for bit with the real get_subgrid/interact/get_neighbour/output_to_input_direction on real creator-built subgrids (incl. periodic boxes, copies) "
        "for every interact call (position/depth before and after, start position and start index, directions, all estimators); an independent split-vs-undivided + hand-over oracle on the real outputs turns any break into a concrete failing ray.",
   note="Nothing is left partial at the theorem level (no _partial theorem). Premises of the R-theorems, all inherited and none a genericity condition: source position in the half-open box A <= x < A+S (on the upper face "
        "get_subgrid indexes past the last subgrid in the real code), a non-zero direction component with cell size/|d| < DBL_MAX (C02), densities/fractions/cross sections >= 0, target > 0; traces are compared when they end "
        "within their fuel (C03_termination_transfer: ending is layout independent). The theorems are about the real-number instance; binary64 execution is tied by bit-exact correspondence of the same definitions and the "
        "round-off level agreement of layouts (1e-12 relative) is evidence from the oracle, which skips only binary64 ties (a direction component exactly 0 with the start within 8 ulp of a cell-face plane, where floor of a "
        "non-representable plane coordinate is decided by round-off per layout; the R-theorem has no such exception). Trusted: Coq kernel + the standard real-number axioms (ClassicalDedekindReals.sig_forall_dec, "
        "functional_extensionality_dep; layers 1 and 3 use none), table dumper + line->Coq formatter, extraction (ExtrOCamlFloats) and the OCaml drivers, the harness' replica of the task loop for ONE packet (buffers/tasks "
        "are C01's concern). Assumes < 2^32-1 subgrids, copy levels <= 30.",
   technique="Coq proof on tables regenerated from the code + proof for all layouts of a wiring model + stuttering simulation of every layout's trace against a deterministic reference march (reals) + bit-exact binary64 correspondence + split-vs-undivided oracle")
HARN = os.path.join(vf.VERIF, "harness/c03")
GEN = os.path.join(vf.COQ, "Cxx", "C03_Gen.v")
MPI = ["-Wl,--no-as-needed", "-lmpi_cxx", "-lmpi"]       # DensitySubGrid.hpp pulls in the MPI C++ bindings
OUTSIDE = 0xffffffff
TABLES = ["ndir/outside constants", "enumerator names", "output_to_input_direction", "get_output_direction(mask)",
          "DensitySubGrid::get_output_direction(three_index)", "is_compatible_output/input_direction",
          "get_start_index/update_photon_position"]


# ----------------------------------------------------------------------------------------------------------------
# layer 1: regeneration
def zc(v):
    v = int(v)
    return "(%d)" % v if v < 0 else "%d" % v


def coq_of_lines(lines):
    """plain dumper lines -> Coq definitions (formatting only)"""
    t = {}
    for l in lines:
        f = l.split()
        if f:
            t.setdefault(f[0], []).append(f[1:])
    o = ["(* GENERATED by props/c03.py from the output of harness/c03/dump_tables.cpp, i.e. from the functions of",
         "   src/TravelDirections.hpp and src/DensitySubGrid.hpp as they are now.  Every entry is the value returned by",
         "   the real function.  Do not edit; git-ignored. *)",
         "From Coq Require Import ZArith List Bool.", "Import ListNotations.", "Local Open Scope Z_scope.", "",
         "Definition gen_ndir : Z := %s." % zc(t["ndir"][0][0]),
         "Definition gen_outside : Z := %s." % zc(t["outside"][0][0]), "",
         "(* (enumerator value, offset spelled by the enumerator name: P = 1, N = -1) in the order of the enum *)",
         "Definition gen_named : list (Z * (Z * Z * Z)) := ["]
    o.append(";\n".join("  (%s, (%s, %s, %s))  (* %s *)" % (zc(f[0]), zc(f[1]), zc(f[2]), zc(f[3]), f[4]) for f in t["named"]))
    o += ["].", "", "(* TravelDirections::output_to_input_direction(d), d = 0..26 *)",
          "Definition gen_out_to_in : list Z := [" + "; ".join(zc(f[1]) for f in t["o2i"]) + "].", "",
          "(* TravelDirections::get_output_direction(mask), mask = 0..63 *)",
          "Definition gen_mask : list Z := [" + "; ".join(zc(f[1]) for f in t["mask"]) + "].", "",
          "(* DensitySubGrid::get_output_direction(three_index): (ncx, ncy, ncz, i, j, k, returned direction) *)",
          "Definition gen_exit : list (Z * Z * Z * Z * Z * Z * Z) := ["]
    o.append(";\n".join("  (" + ", ".join(zc(x) for x in f) + ")" for f in t["exit"]))
    o += ["].", "",
          "(* (kind, sign x, sign y, sign z, d, is_compatible_output_direction, is_compatible_input_direction); the direction",
          "   vector has components sign*magnitude: kind 0 magnitude 1 and +0.0, kind 1 magnitude 4.9e-324 and -0.0,",
          "   kind 2 magnitude infinity and +0.0 *)",
          "Definition gen_compat : list (Z * Z * Z * Z * Z * bool * bool) := ["]
    bb = {"0": "false", "1": "true"}
    o.append(";\n".join("  (" + ", ".join(zc(x) for x in f[:5]) + ", %s, %s)" % (bb[f[5]], bb[f[6]]) for f in t["compat"]))
    o += ["].", "",
          "(* (n, d, three_index set by get_start_index for a position in the middle cell of an n^3 subgrid entered",
          "   through input direction d, effect of update_photon_position per axis: 0 lower face, 2 upper face, 1 unchanged) *)",
          "Definition gen_entry : list (Z * Z * (Z * Z * Z) * (Z * Z * Z)) := ["]
    o.append(";\n".join("  (%s, %s, (%s, %s, %s), (%s, %s, %s))" % tuple(zc(x) for x in f) for f in t["entry"]))
    o += ["].", ""]
    return "\n".join(o)


def dump_tables(d):
    """build + run the dumper in directory d. returns (ok, lines, log)"""
    ok, log = vf.cxx_build(os.path.join(HARN, "dump_tables.cpp"), os.path.join(d, "dump"), openmp=False, extra=MPI)
    if not ok:
        return False, [], "table dumper does not compile against %s/src:\n%s" % (vf.REPO, log[-2000:])
    rc, lines = vf.run_lines([os.path.join(d, "dump")], "", timeout=120)
    if rc != 0 or not lines or lines[-1] != "end":
        return False, lines, "table dumper exited with %d; unfinished call: %r" % (rc, lines[-1] if lines else None)
    return True, lines, ""


def regenerate(d=None):
    """(re)write coq/Cxx/C03_Gen.v from the repo under test; only touched when the content changes"""
    own = d is None
    if own:
        d = tempfile.mkdtemp(prefix="cmi_verif.C03gen.", dir="/var/tmp")
    try:
        ok, lines, log = dump_tables(d)
        if ok:
            with vf.Lock("coq"):
                vf.write_if_changed(GEN, coq_of_lines(lines))
        elif not os.path.exists(GEN):
            raise RuntimeError(log)
        return ok, lines, log
    finally:
        if own:
            shutil.rmtree(d, ignore_errors=True)


# ----------------------------------------------------------------------------------------------------------------
# layer 1: property oracle on the dumped tables (independent of the Coq spec: the geometry of a direction is what its
# enumerator NAME says)
def sgn_class(n, t):
    return -1 if t < 0 else (1 if t >= n else 0)


def table_oracle(lines):
    """returns a list of dicts(function, input, returned, expected, why) for every entry violating the property"""
    bad = []
    t = {}
    for l in lines:
        f = l.split()
        if f:
            t.setdefault(f[0], []).append(f[1:])
    if lines and lines[-1] != "end":
        f = lines[-1].split()
        names = {"o2i": "TravelDirections::output_to_input_direction", "mask": "TravelDirections::get_output_direction",
                 "exit": "DensitySubGrid::get_output_direction", "compat": "TravelDirections::is_compatible_*_direction",
                 "entry": "DensitySubGrid::get_start_index/update_photon_position"}
        bad.append({"function": names.get(f[0], f[0]), "input": f[1:], "returned": "abort()", "expected": "a value",
                    "why": "the real function aborts on an input of its domain"})
        return bad
    off = {}
    for f in t.get("named", []):
        off[int(f[0])] = (int(f[1]), int(f[2]), int(f[3]))
    inv = {v: k for k, v in off.items()}
    cube = set(itertools.product((-1, 0, 1), repeat=3))
    if sorted(off) != list(range(27)) or set(off.values()) != cube or off.get(0) != (0, 0, 0):
        bad.append({"function": "enum TravelDirection", "input": [], "returned": sorted(off.items()), "expected": "27 distinct offsets, INSIDE = 0",
                    "why": "enumerators do not name the 27 offsets"})
        return bad
    neg = lambda o: (-o[0], -o[1], -o[2])
    o2i = {int(f[0]): int(f[1]) for f in t.get("o2i", [])}
    for d in range(27):
        v = o2i.get(d)
        exp = inv[neg(off[d])]
        if v != exp:
            bad.append({"function": "TravelDirections::output_to_input_direction", "input": [d], "returned": v, "expected": exp,
                        "why": "direction %d has offset %s; the opposite offset is direction %d" % (d, off[d], exp)})
    for f in t.get("mask", []):
        m, v = int(f[0]), int(f[1])
        ax = []
        for sh in (4, 2, 0):
            b = (m >> sh) & 3
            ax.append({0: 0, 2: 1, 1: -1, 3: None}[b])
        exp = -1 if None in ax else inv[tuple(ax)]
        if v != exp:
            bad.append({"function": "TravelDirections::get_output_direction", "input": [m], "returned": v, "expected": exp,
                        "why": "mask bits (x,y,z high/low) decode to offset %s" % (ax,)})
    for f in t.get("exit", []):
        a = [int(x) for x in f]
        exp = inv[(sgn_class(a[0], a[3]), sgn_class(a[1], a[4]), sgn_class(a[2], a[5]))]
        if a[6] != exp:
            bad.append({"function": "DensitySubGrid::get_output_direction", "input": a[:6], "returned": a[6], "expected": exp,
                        "why": "three_index %s of a subgrid with %s cells" % (a[3:6], a[:3])})
    for f in t.get("compat", []):
        a = [int(x) for x in f]
        s, d = a[1:4], a[4]
        eo = int(all(o == 0 or x == o for o, x in zip(off[d], s)))
        ei = int(all(o == 0 or x == -o for o, x in zip(off[d], s)))
        if a[5] != eo:
            bad.append({"function": "TravelDirections::is_compatible_output_direction", "input": a[:5], "returned": a[5], "expected": eo,
                        "why": "direction signs %s, output direction %d with offset %s (kind %d)" % (s, d, off[d], a[0])})
        if a[6] != ei:
            bad.append({"function": "TravelDirections::is_compatible_input_direction", "input": a[:5], "returned": a[6], "expected": ei,
                        "why": "direction signs %s, input direction %d with offset %s (kind %d)" % (s, d, off[d], a[0])})
    for f in t.get("entry", []):
        a = [int(x) for x in f]
        n, d = a[0], a[1]
        ei = [0 if o == -1 else (n - 1 if o == 1 else (n - 1) // 2) for o in off[d]]
        er = [0 if o == -1 else (2 if o == 1 else 1) for o in off[d]]
        if a[2:5] != ei:
            bad.append({"function": "DensitySubGrid::get_start_index", "input": [n, d], "returned": a[2:5], "expected": ei,
                        "why": "input direction %d has offset %s; middle cell of %d^3 cells" % (d, off[d], n)})
        if a[5:8] != er:
            bad.append({"function": "DensitySubGrid::update_photon_position", "input": [n, d], "returned": a[5:8], "expected": er,
                        "why": "input direction %d has offset %s (0 lower face, 1 untouched, 2 upper face)" % (d, off[d])})
    return bad


# ----------------------------------------------------------------------------------------------------------------
# layer 3: generators
def gen_levels(rng, n, mode):
    if mode == 0:
        return [0] * n
    if mode == 1:
        return [rng.below(3) for _ in range(n)]
    if mode == 2:
        return [(1 + rng.below(3)) if rng.below(5) == 0 else 0 for _ in range(n)]
    if mode == 3:
        l = 1 + rng.below(2)
        return [l] * n
    if mode == 4:
        return [3 * ((i + rng.below(2)) % 2) if n <= 30 else 2 * (i % 2) for i in range(n)]
    return [rng.below(4) if n <= 40 else rng.below(2) for _ in range(n)]


def case_line(rng, nx, ny, nz, p, idx):
    n = nx * ny * nz
    c = [1 + rng.below(3) for _ in range(3)]
    w0 = 1 + rng.below(50)
    lv = gen_levels(rng, n, (idx + rng.below(2)) % 6)
    f = [nx, ny, nz, p[0], p[1], p[2]] + c + [w0] + lv
    if rng.below(2):
        f += [1] + gen_levels(rng, n, rng.below(6))
    else:
        f += [0]
    return " ".join(str(x) for x in f)


CORPUS = [
    "1 1 1 0 0 0 1 1 1 5 0 0",                       # a single block
    "1 1 1 1 1 1 2 2 2 5 2 1 0",                     # one subgrid, fully periodic: its own neighbour 26 times; 3 copies, then none
    "2 1 1 1 0 0 1 1 1 10 1 2 1 0 1",                # 2 subgrids on a periodic axis: same neighbour on both sides; levels differ
    "2 2 2 1 1 1 1 2 3 7 0 1 2 3 3 2 1 0 1 3 3 3 3 0 0 0 0",
    "1 2 3 0 1 0 3 1 2 3 1 0 2 0 3 1 0",
    "4 4 8 0 0 0 1 1 1 2 " + " ".join("1" if i == 82 else ("2" if i == 83 else "0") for i in range(128)) + " 0",   # the layout of testDensitySubGridCreator
    "3 1 2 1 1 0 1 1 1 9 3 0 3 0 3 0 1 0 3 0 3 0 3",
]


def gen_cases(ck):
    rng = ck.rng
    lines = list(CORPUS)
    m = 3 if ck.quick else 4
    idx = 0
    for nx in range(1, m + 1):
        for ny in range(1, m + 1):
            for nz in range(1, m + 1):
                for p in itertools.product((0, 1), repeat=3):
                    lines.append(case_line(rng, nx, ny, nz, p, idx))
                    idx += 1
    nrand = 40 if ck.quick else 300
    for i in range(nrand):
        while True:
            nx, ny, nz = 1 + rng.below(7), 1 + rng.below(7), 1 + rng.below(7)
            if nx * ny * nz <= (120 if ck.quick else 200) and max(nx, ny, nz) > m:
                break
        p = (rng.below(2), rng.below(2), rng.below(2))
        lines.append(case_line(rng, nx, ny, nz, p, i))
    return lines


# ----------------------------------------------------------------------------------------------------------------
# layer 3: property oracle on the dump of the REAL creator (lattice geometry; independent of the Coq model)
NAMES = ["INSIDE", "CORNER_PPP", "CORNER_PPN", "CORNER_PNP", "CORNER_PNN", "CORNER_NPP", "CORNER_NPN", "CORNER_NNP", "CORNER_NNN",
         "EDGE_X_PP", "EDGE_X_PN", "EDGE_X_NP", "EDGE_X_NN", "EDGE_Y_PP", "EDGE_Y_PN", "EDGE_Y_NP", "EDGE_Y_NN",
         "EDGE_Z_PP", "EDGE_Z_PN", "EDGE_Z_NP", "EDGE_Z_NN", "FACE_X_P", "FACE_X_N", "FACE_Y_P", "FACE_Y_N", "FACE_Z_P", "FACE_Z_N"]


def name_offset(nm):
    s = {"P": 1, "N": -1}
    if nm == "INSIDE":
        return (0, 0, 0)
    k, r = nm.split("_", 1)
    if k == "CORNER":
        return tuple(s[c] for c in r)
    ax = "XYZ".index(r[0])
    o = [0, 0, 0]
    if k == "FACE":
        o[ax] = s[r[2]]
    else:
        others = [a for a in range(3) if a != ax]
        o[others[0]], o[others[1]] = s[r[2]], s[r[3]]
    return tuple(o)


OFF = [name_offset(n) for n in NAMES]
OPP = [OFF.index((-o[0], -o[1], -o[2])) for o in OFF]


def parse_phase(block, start):
    """block: output lines of one phase starting at 'A N..'/'U N..'. returns (dict, next index) or (None, why)"""
    h = block[start].split()
    ph = {"tag": h[0], "N": int(h[2]), "T": int(h[4]), "NO": int(h[6]), "ngb": [], "orig": [], "C": []}
    i = start + 1
    while i < len(block) and block[i].startswith("S "):
        f = block[i].split()
        ph["orig"].append(int(f[3]))
        ph["ngb"].append([int(x) for x in f[5:]])
        i += 1
    while i < len(block) and block[i].startswith("C "):
        f = block[i].split()
        ph["C"].append(None if f[2] == "none" else (int(f[2]), int(f[3])))
        i += 1
    for key in ("F", "H", "PX", "PN", "PT", "PJ", "PH"):
        if i < len(block) and block[i].split()[0] == key:
            ph[key] = block[i].split()[1:]
            i += 1
        else:
            ph[key] = None
    return ph, i


def wiring_oracle(line, block):
    """decide the wiring/copy/fold/push clauses of C03 on the real creator's dump of one case; None or text"""
    a = [int(x) for x in line.split()]
    nx, ny, nz = a[0:3]
    per = a[3:6]
    w0 = a[9]
    n = nx * ny * nz
    lvs = [a[10:10 + n]]
    if a[10 + n]:
        lvs.append(a[11 + n:11 + 2 * n])
    if not block or not block[0].startswith("CASE"):
        return "no output for the case (the real code aborted)"
    i = 1
    dims = (nx, ny, nz)
    for phase, lv in enumerate(lvs):
        if i >= len(block):
            return "phase %d missing (the real code aborted)" % phase
        ph, i = parse_phase(block, i)
        wbase = w0 + phase
        T = n + sum((1 << l) - 1 for l in lv)
        tag = "after %s: " % ("create_copies" if phase == 0 else "update_copies")
        if ph["N"] != n or ph["T"] != T or ph["NO"] != T - n or len(ph["ngb"]) != T:
            return tag + "subgrid count N=%d T=%d originals=%d, expected N=%d T=%d" % (ph["N"], ph["T"], ph["NO"], n, T)
        ngb, orig = ph["ngb"], ph["orig"]
        for s in range(n):
            pos = (s // (ny * nz), (s // nz) % ny, s % nz)
            for d in range(27):
                c = []
                for ax in range(3):
                    v = pos[ax] + OFF[d][ax]
                    if per[ax]:
                        v %= dims[ax]
                    c.append(v)
                exp = OUTSIDE if any(not (0 <= c[ax] < dims[ax]) for ax in range(3)) else (c[0] * ny + c[1]) * nz + c[2]
                if ngb[s][d] != exp:
                    return tag + "neighbour %s (%d) of subgrid %d at %s is %d, the lattice neighbour is %d" % (NAMES[d], d, s, pos, ngb[s][d], exp)
            for d in range(27):
                b = ngb[s][d]
                if b != OUTSIDE and ngb[b][OPP[d]] != s:
                    return tag + "wiring not mutual: subgrid %d --%s--> %d but %d --%s--> %d" % (s, NAMES[d], b, b, NAMES[OPP[d]], ngb[b][OPP[d]])
        ncop = [0] * n
        for c in range(n, T):
            o = orig[c]
            if not (0 <= o < n):
                return tag + "copy %d has original %d out of range" % (c, o)
            ncop[o] += 1
            if ngb[c][0] != c:
                return tag + "self slot of copy %d is %d" % (c, ngb[c][0])
            for d in range(1, 27):
                v, tv = ngb[c][d], ngb[o][d]
                if tv == OUTSIDE:
                    if v != OUTSIDE:
                        return tag + "copy %d of %d: neighbour %s is %d but the original has no neighbour there" % (c, o, NAMES[d], v)
                elif not (0 <= v < T):
                    return tag + "copy %d of %d: neighbour %s = %d is not a subgrid index (T=%d)" % (c, o, NAMES[d], v, T)
                elif orig[v] != tv:
                    return tag + "copy %d of %d: neighbour %s is %d, a copy of %d, but the true neighbour is %d" % (c, o, NAMES[d], v, orig[v], tv)
        for s in range(n):
            if orig[s] != s:
                return tag + "original_of(%d) = %d" % (s, orig[s])
            if ncop[s] != (1 << lv[s]) - 1:
                return tag + "subgrid %d with level %d has %d copies" % (s, lv[s], ncop[s])
            mine = [c for c in range(n, T) if orig[c] == s]
            exp = None if not mine else (mine[0], len(mine))
            if ph["C"][s] != exp or (mine and mine != list(range(mine[0], mine[0] + len(mine)))):
                return tag + "get_copies(%d) = %r, copies are %r" % (s, ph["C"][s], mine)
        w = [wbase + s * (s + 3) for s in range(T)]
        for key, f in (("F", lambda x: x), ("H", lambda x: 2 * x + 1)):
            if ph[key] is None or len(ph[key]) != T:
                return tag + "update_original_counters: no result"
            for s in range(T):
                exp = f(w[s]) + (sum(f(w[c]) for c in range(n, T) if orig[c] == s) if s < n else 0)
                if ph[key][s] != str(exp):
                    return tag + "update_original_counters: counter %s of subgrid %d is %s, own + copies' contributions = %d" % (key, s, ph[key][s], exp)
        for key, f in (("PX", lambda s: wbase + 2 * s + 1), ("PN", lambda s: wbase + 3 * s + 2), ("PT", lambda s: 5 * s + 7)):
            if ph[key] is None or len(ph[key]) != T:
                return tag + "update_copy_properties: no result"
            for s in range(T):
                if ph[key][s] != str(f(orig[s])):
                    return tag + "update_copy_properties: state %s of subgrid %d is %s, its original %d has %d" % (key, s, ph[key][s], orig[s], f(orig[s]))
        for key in ("PJ", "PH"):
            if ph[key] is None or len(ph[key]) != T:
                return tag + "update_copy_properties: no result"
            for s in range(n, T):
                if ph[key][s] != "0":
                    return tag + "update_copy_properties: counter of copy %d not reset (%s)" % (s, ph[key][s])
    return None


def split_blocks(out):
    blocks = []
    for l in out:
        if l.startswith("CASE"):
            blocks.append([])
        if blocks:
            blocks[-1].append(l)
    return blocks


def run_impl_per_case(exe, lines):
    """run the harness case by case (used when the batch run died): returns list of blocks"""
    res = []
    for l in lines:
        rc, out = vf.run_lines([exe], l + "\n", timeout=120, env={"OMP_NUM_THREADS": "2"})
        res.append(out)
    return res


def nontrivial(line):
    a = [int(x) for x in line.split()]
    n = a[0] * a[1] * a[2]
    small_periodic = any(a[ax] <= 2 and a[3 + ax] for ax in range(3))
    copies = any(a[10:10 + n]) or (a[10 + n] and any(a[11 + n:11 + 2 * n]))
    return small_periodic, bool(copies)


def extract_model(d):
    """extraction needs only the executable model (C03_Defs), so it still runs when a proof obligation breaks"""
    ok, log = vf.coq_make(["Cxx/C03_Defs.vo"], timeout=600)
    if not ok:
        return False, log
    rc, out = vf.sh(["timeout", "600", "coqc", "-Q", vf.COQ, "CMI", "-w", "none", "-o", os.path.join(d, "Extract_C03.vo"),
                     os.path.join(vf.COQ, "Extract", "Extract_C03.v")], cwd=d, timeout=630)
    return rc == 0, log + out


# ----------------------------------------------------------------------------------------------------------------
# layers 2 and 4: single packets traced through the REAL DensitySubGridCreator/DensitySubGrid exactly as the task loop of
# PhotonTraversalTaskContext does (harness/c03/trace_harness.cpp) vs. the extracted binary64 model of Cxx/C03_TraceDefs.v
# (ocaml/c03t_driver.ml), plus an oracle for the PROPERTY on the real outputs: the same ray through layout L and through the
# undivided grid 1x1x1 ends the same way, credits the same length to every global cell, ends at the same place with the same
# optical depth left; and every hand-over inside the split run is consistent (S lines).
TH = lambda x: "%016x" % vf.dbl_bits(x)
TD = lambda s: vf.bits_dbl(int(s, 16))
T_HUGE = 1e300
T_EPS = 2.0 ** -52
T_FLAGS = MPI + ["-ffp-contract=off"]
T_MAXCALLS = 1200
T_FUELSHOWN = 64
R2 = math.sqrt(0.5)
R3 = 1.0 / math.sqrt(3.0)


class TLay:
    """bookkeeping of one layout of a scene (pure lattice arithmetic, independent of the Coq model)"""

    def __init__(self, sc, m, lv=None):
        self.sc, self.m, self.lv = sc, tuple(m), (list(lv) if lv else None)
        N = sc["N"]
        self.c = tuple(N[k] // m[k] for k in range(3))
        self.nsub = m[0] * m[1] * m[2]
        self.orig = list(range(self.nsub))
        if self.lv:
            for i, l in enumerate(self.lv):
                self.orig += [i] * ((1 << l) - 1)
        self.T = len(self.orig)
        self.ss = [sc["sides"][k] / m[k] for k in range(3)]          # as the creator computes _subgrid_sides

    def name(self):
        return "%dx%dx%d" % self.m + ("+copies" if self.lv and any(self.lv) else "")

    def lattice(self, s):
        my, mz = self.m[1], self.m[2]
        return (s // (my * mz), (s // mz) % my, s % mz)

    def gcoords(self, sub, cell):
        """global cell coordinates of local cell `cell` of subgrid `sub` (original or copy); None if invalid"""
        if not (0 <= sub < self.T):
            return None
        c = self.c
        if not (0 <= cell < c[0] * c[1] * c[2]):
            return None
        j = self.lattice(self.orig[sub])
        l = (cell // (c[1] * c[2]), (cell // c[2]) % c[1], cell % c[2])
        return tuple(j[k] * c[k] + l[k] for k in range(3))

    def anchor_of(self, j):
        a = self.sc["anchor"]
        return [a[k] + j[k] * self.ss[k] for k in range(3)]

    def header(self):
        sc = self.sc
        l = ["G " + " ".join(TH(x) for x in sc["anchor"] + sc["sides"]) + " %d %d %d %d %d %d %d %d %d" % (tuple(sc["N"]) + self.m + tuple(sc["per"])),
             sc["Fline"]]
        if self.lv:
            l.append("C " + " ".join(str(x) for x in self.lv))
        return l


def t_gidx(sc, X):
    N = sc["N"]
    return (X[0] * N[1] + X[1]) * N[2] + X[2]


def t_pkt_line(p):
    return "P %d " % p["sel"] + " ".join(TH(x) for x in p["pos"] + p["dir"] + [p["tau"], p["w"], p["energy"]] + p["sigma"])


def t_locate_ok(sc, m, pos):
    """would get_subgrid(position) return an original subgrid of layout m? (same binary64 operations)"""
    for k in range(3):
        ss = sc["sides"][k] / m[k]
        j = math.floor((pos[k] - sc["anchor"][k]) / ss)
        if not (0 <= j < m[k]):
            return False
    return True


# ---- scenes ------------------------------------------------------------------------------------------------------
def t_divisor_layouts(N):
    dv = [[d for d in range(1, N[k] + 1) if N[k] % d == 0] for k in range(3)]
    return [m for m in itertools.product(*dv)]


def t_cells(rng, sc, mode, periodic):
    """cell contents (n, xH, xHe) in global order; densities scaled so that a cell has optical depth ~ 1/4 at n = x = sigma = 1"""
    N = sc["N"]
    nc = N[0] * N[1] * N[2]
    cs = [sc["sides"][k] / N[k] for k in range(3)]
    scale = 0.25 / min(cs)
    cells = []
    zeros_ok = (not periodic) or all(N[k] >= 6 or not sc["per"][k] for k in range(3))
    for i in range(nc):
        if periodic:
            nd = 0.0 if (zeros_ok and mode in (2, 5) and rng.below(6) == 0) else 10.0 ** (rng.uniform() - 0.5)
            xH = 0.3 + 0.7 * rng.uniform()
            xHe = rng.choice([0.0, 1.0, rng.uniform()])
        else:
            if mode == 0:
                nd = 0.0
            elif mode == 1:
                nd = 1.0
            elif mode == 2:
                nd = 0.0 if rng.below(3) == 0 else 10.0 ** (rng.uniform() * 4 - 2)
            elif mode == 5:
                nd = 0.0 if rng.below(6) else 10.0 ** (rng.uniform() * 2 - 1)          # mostly empty
            else:
                nd = 10.0 ** (rng.uniform() * 4 - 2)
            xH = [0.0, 1.0, 1e-6, rng.uniform(), rng.uniform()][rng.below(5)]
            xHe = [rng.uniform(), 0.0, 1.0, 1e-4, rng.uniform()][rng.below(5)]
        cells.append((nd * scale, xH, xHe))
    if periodic:
        # every line of cells along a periodic axis keeps at least one opaque cell, so that axis-parallel rays terminate
        for ax in range(3):
            if not sc["per"][ax]:
                continue
            o = [k for k in range(3) if k != ax]
            for u in range(N[o[0]]):
                for v in range(N[o[1]]):
                    X = [0, 0, 0]
                    X[o[0]], X[o[1]] = u, v
                    idx = []
                    for t in range(N[ax]):
                        X[ax] = t
                        idx.append(t_gidx(sc, X))
                    if all(cells[g][0] == 0.0 for g in idx):
                        g = idx[rng.below(len(idx))]
                        cells[g] = (scale, cells[g][1], cells[g][2])
    return cells


def t_kmax(sc):
    sc["kmaxH"] = max(c[0] * c[1] for c in sc["cells"])
    sc["kmaxHe"] = max(c[0] * c[2] for c in sc["cells"])


def t_scene(rng, tag, anchor, sides, N, per, layouts, cmode, copies=None):
    sc = {"tag": tag, "anchor": [float(x) for x in anchor], "sides": [float(x) for x in sides], "N": tuple(N), "per": tuple(int(x) for x in per)}
    periodic = any(sc["per"])
    sc["cells"] = t_cells(rng, sc, cmode, periodic)
    sc["Fline"] = "F " + " ".join(TH(x) for c in sc["cells"] for x in c)
    t_kmax(sc)
    sc["lays"] = [TLay(sc, (1, 1, 1))] + [TLay(sc, m) for m in layouts if tuple(m) != (1, 1, 1)]
    if copies:
        for (m, lv) in copies:
            sc["lays"].append(TLay(sc, m, lv))
    sc["packets"] = []
    return sc


def t_sigma(rng, nions, periodic):
    sm = rng.below(6)
    sig = []
    for i in range(nions):
        if sm == 0:
            v = 1.0 if i == 0 else 0.0
        elif sm == 1:
            v = 10.0 ** (rng.uniform() * 2 - 1) if rng.below(4) else 0.0
        else:
            v = 10.0 ** (rng.uniform() * 2 - 1)
        sig.append(v)
    if sm == 5 and not periodic:
        sig[0] = 0.0
    if periodic:
        sig[0] = 0.5 + 1.5 * rng.uniform()
    sig[nions - 1] = 1.0            # probe ion: with weight 1 its mean-intensity increment is the path length
    return sig


def t_tau1(rng, sc):
    """first-pass target: beyond everything in an open box; a few box crossings' worth in a periodic one"""
    if not any(sc["per"]):
        return T_HUGE
    return (0.05 + 2.5 * rng.uniform()) * 0.25 * 0.65 * max(sc["N"]) * (1 if rng.below(4) else 2)


def t_mkpkt(rng, sc, nions, pos, d, kind, tau=None, sel=0):
    periodic = any(sc["per"])
    return {"sel": sel, "pos": [float(x) for x in pos], "dir": [float(x) for x in d], "tau": t_tau1(rng, sc) if tau is None else tau, "w": 1.0,
            "energy": rng.choice([3.288e15, 4.0e15, 5.948e15, 1.0e16, 1.0e15]), "sigma": t_sigma(rng, nions, periodic), "kind": kind, "pass": 1}


def t_norm(v):
    n = math.sqrt(sum(x * x for x in v))
    return [x / n for x in v]


def t_plane(sc, k, i):
    return sc["anchor"][k] + i * (sc["sides"][k] / sc["N"][k])


def t_valid(sc, pos):
    return all(t_locate_ok(sc, L.m, pos) for L in sc["lays"])


def t_corpus_packets(rng, sc, nions):
    """hand-picked rays, instantiated for the scene's geometry"""
    N = sc["N"]
    cs = [sc["sides"][k] / N[k] for k in range(3)]
    mid = [N[k] // 2 for k in range(3)]
    ctr = [sc["anchor"][k] + (mid[k] + 0.5) * cs[k] for k in range(3)]                 # a cell centre near the middle
    crn = [t_plane(sc, k, mid[k]) for k in range(3)]                                   # a cell corner near the middle
    # a plane that is a subgrid face in as many layouts as possible: index = multiple of the largest cells-per-subgrid
    sf = []
    for k in range(3):
        cands = [i for i in range(1, N[k]) if any(i % L.c[k] == 0 and L.m[k] > 1 for L in sc["lays"])]
        sf.append(t_plane(sc, k, cands[len(cands) // 2]) if cands else crn[k])
    P = []

    def add(pos, d, kind, tau=None):
        if t_valid(sc, pos) and any(x != 0.0 for x in d):
            P.append(t_mkpkt(rng, sc, nions, pos, d, kind, tau))
    e = [[1.0, 0.0, 0.0], [0.0, 1.0, 0.0], [0.0, 0.0, 1.0]]
    for k in range(3):
        for s in (1.0, -1.0):
            add(ctr, [s * x for x in e[k]], "axis from a cell centre")
            q = list(ctr)
            q[k] = crn[k]
            add(q, [s * x for x in e[k]], "axis, starting on a cell face")            # perpendicular to the face it starts on
            q = list(ctr)
            q[k] = sf[k]
            add(q, [s * x for x in e[k]], "axis, starting on a subgrid face")
    for sx, sy, sz in itertools.product((1.0, -1.0), repeat=3):
        add(crn, t_norm([sx * cs[0], sy * cs[1], sz * cs[2]]), "space diagonal of the cells from a cell corner")
        add(sf, t_norm([sx * cs[0], sy * cs[1], sz * cs[2]]), "space diagonal of the cells from a subgrid corner")
    for sx, sy, sz in ((1, 1, 1), (-1, 1, -1), (1, -1, -1), (-1, -1, 1)):
        add(ctr, t_norm([sx * cs[0], sy * cs[1], sz * cs[2]]), "space diagonal of the cells from a cell centre (through corners)")
        add(ctr, [sx * R3, sy * R3, sz * R3], "space diagonal (1,1,1)/sqrt3 from a cell centre")
    for k in range(3):
        o = [a for a in range(3) if a != k]
        for s0, s1 in ((1, 1), (1, -1), (-1, 1), (-1, -1)):
            d = [0.0, 0.0, 0.0]
            d[o[0]], d[o[1]] = s0 * R2, s1 * R2
            add(ctr, d, "face diagonal from a cell centre")
            dd = [0.0, 0.0, 0.0]
            dd[o[0]], dd[o[1]] = s0 * cs[o[0]], s1 * cs[o[1]]
            q = list(ctr)
            q[o[0]], q[o[1]] = crn[o[0]], crn[o[1]]
            add(q, t_norm(dd), "cell face diagonal from a point on a cell edge (through edges)")
        # along a cell edge / inside a cell face plane (zero direction component on a plane: ties)
        q = list(crn)
        q[k] = ctr[k]
        add(q, e[k], "along a cell edge")
        q = list(sf)
        q[k] = ctr[k]
        add(q, [-x for x in e[k]], "along a subgrid edge")
        q = list(ctr)
        q[k] = crn[k]
        d = [R2, R2, R2]
        d[k] = 0.0
        add(q, d, "inside a cell face plane")
    for eps in (1e-1, 1e-2, 1e-3, 1e-8):
        for k in range(3):
            d = [eps, -eps * 0.5, eps]
            d[k] = 1.0 if k != 1 else -1.0
            add(ctr, t_norm(d), "grazing %g from a cell centre" % eps)
        d = [1.0, eps, 0.0]
        q = list(ctr)
        q[1] = crn[1]
        add(q, t_norm(d), "grazing %g leaving a cell wall" % eps)
        add(q, t_norm([-1.0, -eps, 0.0]), "grazing %g into a cell wall" % eps)
    # on the lower faces / corner of the box
    lo = [t_plane(sc, k, 0) for k in range(3)]
    add(lo, t_norm([cs[0], cs[1], cs[2]]), "from the lower box corner inwards")
    add(lo, t_norm([-1.0, -1.0, -1.0]), "from the lower box corner outwards")
    q = list(ctr)
    q[0] = lo[0]
    add(q, [-1.0, 0.0, 0.0], "from the lower box face outwards")
    add(q, [1.0, 0.0, 0.0], "from the lower box face inwards")
    # one ulp below the upper box face
    hi = [math.nextafter(sc["anchor"][k] + sc["sides"][k], -math.inf) for k in range(3)]
    q = list(ctr)
    q[2] = hi[2]
    add(q, [0.0, 0.0, 1.0], "one ulp below the upper box face, outwards")
    add(q, t_norm([0.3, 0.0, -1.0]), "one ulp below the upper box face, inwards")
    return P


def t_random_packet(rng, sc, nions):
    N = sc["N"]
    a, sides = sc["anchor"], sc["sides"]
    cs = [sides[k] / N[k] for k in range(3)]
    sg = lambda: rng.choice([-1.0, 1.0])
    dm = rng.below(9)
    if dm == 0:
        d = [0.0, 0.0, 0.0]
        d[rng.below(3)] = sg()
        dk = "axis"
    elif dm == 1:
        k = rng.below(3)
        d = [sg() * R2, sg() * R2, sg() * R2]
        d[k] = 0.0
        dk = "face diagonal"
    elif dm == 2:
        d = [sg() * R3, sg() * R3, sg() * R3]
        dk = "space diagonal"
    elif dm == 3:
        d = [sg() * cs[0], sg() * cs[1], sg() * cs[2]]
        if rng.below(3) == 0:
            d[rng.below(3)] = 0.0
        d = t_norm(d)
        dk = "cell diagonal"
    elif dm == 4:
        v = list(rng.choice([[0.6, 0.8, 0.0], [1.0 / 3, 2.0 / 3, 2.0 / 3], [2.0 / 7, 3.0 / 7, 6.0 / 7], [3.0 / 13, 4.0 / 13, 12.0 / 13]]))
        r = rng.below(3)
        v = v[r:] + v[:r]
        d = [sg() * x for x in v]
        dk = "rational"
    elif dm in (5, 6):
        d = t_norm([rng.uniform() - 0.5 for _ in range(3)])
        dk = "random"
    elif dm == 7:
        d = [sg() * (0.1 + rng.uniform()) for _ in range(3)]
        d[rng.below(3)] = sg() * 10.0 ** (-1 - 2 * rng.uniform())
        d = t_norm(d)
        dk = "grazing"
    else:
        d = [sg() * (0.1 + rng.uniform()) for _ in range(3)]
        d[rng.below(3)] = sg() * 1e-8
        if rng.below(2):
            d[rng.below(3)] = 0.0
        if all(abs(x) <= 1e-8 for x in d):
            d[rng.below(3)] = 1.0
        d = t_norm(d)
        dk = "grazing 1e-8"
    L = sc["lays"][rng.below(len(sc["lays"]))]
    for attempt in range(20):
        pm = rng.below(9)
        pos = []
        nwall = {1: 1, 2: 2, 3: 3, 4: 1, 7: 3}.get(pm, 0)
        axes = [0, 1, 2]
        for i in range(3):                      # random order of the axes that sit on walls
            j = i + rng.below(3 - i)
            axes[i], axes[j] = axes[j], axes[i]
        on = set(axes[:nwall])
        for k in range(3):
            if k in on:
                if pm in (4, 7) and L.m[k] > 1:
                    i = L.c[k] * (1 + rng.below(L.m[k] - 1))           # a subgrid face of layout L
                else:
                    i = rng.below(N[k])
                x = t_plane(sc, k, i)
                if pm == 6:
                    x = math.nextafter(x, rng.choice([-math.inf, math.inf]))
            elif pm == 0:
                x = a[k] + (rng.below(N[k]) + 0.5) * cs[k]
            else:
                x = a[k] + rng.uniform() * sides[k]
            pos.append(x)
        if pm == 6:
            k = rng.below(3)
            pos[k] = math.nextafter(t_plane(sc, k, rng.below(N[k])), rng.choice([-math.inf, math.inf]))
        if t_valid(sc, pos):
            pk = {0: "cell centre", 1: "on a cell face", 2: "on a cell edge", 3: "on a cell corner", 4: "on a subgrid face", 5: "random", 6: "one ulp off a wall",
                  7: "on a subgrid corner", 8: "random"}[pm]
            return t_mkpkt(rng, sc, nions, pos, d, dk + " / " + pk)
    pos = [a[k] + (N[k] // 2 + 0.5) * cs[k] for k in range(3)]
    return t_mkpkt(rng, sc, nions, pos, d, dk + " / cell centre")


def t_gen_scenes(ck, nions):
    rng = ck.rng
    q = ck.quick
    S = []
    allp = list(itertools.product((0, 1), repeat=3))
    # --- corpus: hand-picked geometries
    C = [
        ("2^k box 8^3, cells 1, anchor 0: every crossing exact", [0, 0, 0], [8, 8, 8], (8, 8, 8), (0, 0, 0), [(2, 2, 2), (4, 4, 4), (8, 8, 8), (1, 2, 4), (8, 1, 1)], 2),
        ("2^k box 8^3 fully periodic (1 and 2 subgrids on periodic axes)", [0, 0, 0], [8, 8, 8], (8, 8, 8), (1, 1, 1), [(2, 2, 2), (2, 1, 1), (1, 1, 2), (1, 2, 1), (8, 8, 8), (4, 2, 1)], 2),
        ("2^k box 4x8x2 cells of size 0.5, anchor (-2,1,0), periodic in x", [-2, 1, 0], [2, 4, 1], (4, 8, 2), (1, 0, 0), [(1, 2, 1), (2, 2, 2), (4, 8, 2), (2, 1, 1)], 3),
        ("box 0.3^3 at 0, 12^3 cells (nothing representable)", [0, 0, 0], [0.3, 0.3, 0.3], (12, 12, 12), (0, 0, 0), [(2, 2, 2), (3, 4, 2), (12, 1, 1), (1, 1, 12), (6, 2, 3), (4, 4, 4), (2, 3, 4), (12, 12, 12)], 2),
        ("box 0.3^3 at 0, 12^3 cells, periodic in y and z", [0, 0, 0], [0.3, 0.3, 0.3], (12, 12, 12), (0, 1, 1), [(2, 2, 2), (3, 1, 2), (1, 2, 1), (4, 4, 4), (1, 1, 12)], 2),
        ("non-cubic box (1/7, 0.3, 1.1), 6x4x2 cells", [0, 0, 0], [1.0 / 7.0, 0.3, 1.1], (6, 4, 2), (0, 0, 0), [(2, 2, 2), (6, 4, 2), (3, 1, 1), (1, 4, 1), (6, 1, 2)], 3),
        ("non-cubic box (1/7, 0.3, 1.1), 6x4x2 cells, fully periodic", [0.1, -0.7, 1.0 / 3.0], [1.0 / 7.0, 0.3, 1.1], (6, 4, 2), (1, 1, 1), [(2, 2, 2), (6, 4, 2), (3, 1, 1), (1, 4, 1), (2, 1, 2)], 3),
        ("unit-test box anchor -1.543e17 side 3.086e17, 8^3 cells", [-1.543e17] * 3, [3.086e17] * 3, (8, 8, 8), (0, 0, 0), [(2, 2, 2), (8, 8, 8), (4, 2, 1), (1, 1, 8)], 2),
        ("unit-test box, 8^3 cells, periodic in x and z", [-1.543e17] * 3, [3.086e17] * 3, (8, 8, 8), (1, 0, 1), [(2, 2, 2), (1, 2, 2), (2, 4, 1), (8, 8, 8)], 3),
        ("box 7x5x3 at (-1,2,0.5), cells 1 (prime cell counts)", [-1.0, 2.0, 0.5], [7, 5, 3], (7, 5, 3), (0, 0, 0), [(7, 5, 3), (1, 5, 1), (7, 1, 1), (1, 1, 3)], 4),
        ("box 0.7^3 at (0.1,0.2,0.3), 6^3 cells, periodic in x", [0.1, 0.2, 0.3], [0.7, 0.7, 0.7], (6, 6, 6), (1, 0, 0), [(2, 2, 2), (1, 3, 3), (6, 1, 1), (3, 2, 1), (6, 6, 6)], 2),
        ("empty box 2^k 4^3 (no opacity at all)", [0, 0, 0], [4, 4, 4], (4, 4, 4), (0, 0, 0), [(2, 2, 2), (4, 4, 4), (1, 4, 2)], 0),
    ]
    for i, (tag, an, si, N, per, lays, cm) in enumerate(C):
        if q and len(lays) > 4:
            keep = lays[:2] + [lays[2 + rng.below(len(lays) - 2)]] + [lays[-1]]
            lays = [m for j, m in enumerate(keep) if m not in keep[:j]]
        sc = t_scene(rng, "corpus: " + tag, an, si, N, per, lays, cm)
        sc["packets"] = t_corpus_packets(rng, sc, nions)
        sc["corpus"] = True
        S.append(sc)
    # --- copies: geometry of the original, neighbour table of the copy
    CP = [
        ("copies: 2x2x2 of 8^3, levels 0..2", [0, 0, 0], [1, 1, 1], (8, 8, 8), (0, 0, 0), (2, 2, 2), [1, 0, 2, 1, 0, 0, 1, 2]),
        ("copies: 2x1x2 of 0.3-box 12^3 periodic in x, levels 1,2,0,1", [0, 0, 0], [0.3, 0.3, 0.3], (12, 12, 12), (1, 0, 0), (2, 1, 2), [1, 2, 0, 1]),
        ("copies: 3x2x1 of 6x4x2, fully periodic, all level 1", [0.1, -0.7, 1.0 / 3.0], [1.0 / 7.0, 0.3, 1.1], (6, 4, 2), (1, 1, 1), (3, 2, 1), [1] * 6),
    ]
    for (tag, an, si, N, per, m, lv) in CP:
        sc = t_scene(rng, tag, an, si, N, per, [m], 2, copies=[(m, lv)])
        for j in range(10 if q else 40):
            p = t_random_packet(rng, sc, nions)
            p["sel"] = rng.below(4)
            sc["packets"].append(p)
        sc["corpus"] = False
        S.append(sc)
    # --- structured random rays over many layouts of the same global grid
    grids = [(12, 12, 12), (12, 12, 12), (8, 8, 8), (6, 4, 2), (4, 6, 12), (12, 12, 12), (9, 6, 3)]
    nsc = 28 if q else 280
    for i in range(nsc):
        N = grids[i % len(grids)]
        per = allp[i % 8] if i < 16 else allp[rng.below(8)]
        gm = i % 5
        if gm == 0:
            cs0 = 2.0 ** (rng.below(5) - 3)
            an, si = [float(rng.below(5) - 2) for _ in range(3)], [cs0 * N[k] for k in range(3)]
        elif gm == 1:
            cs0 = rng.choice([1.0 / 3.0, 0.1, 0.7, 1.0 / 7.0, 3.3e16])
            an, si = [0.0, 0.0, 0.0], [cs0 * N[k] for k in range(3)]
        elif gm == 2:
            an, si = [-1.543e17] * 3, [3.086e17] * 3
        elif gm == 3:
            an, si = [(rng.uniform() - 0.5) * 4 for _ in range(3)], [0.25 + 2 * rng.uniform() for _ in range(3)]
        else:
            an, si = [0.0, 0.0, 0.0], [1.0, 1.0, 1.0]
        alll = [m for m in t_divisor_layouts(N) if m != (1, 1, 1)]
        lays = []
        for j in range(3 if q else 4):
            m = alll[rng.below(len(alll))]
            if m not in lays:
                lays.append(m)
        if i % 7 == 0 and tuple(N) not in lays:
            lays[-1] = tuple(N)                 # one cell per subgrid
        sc = t_scene(rng, "random %d: %dx%dx%d cells, periodic %s" % (i, N[0], N[1], N[2], per), an, si, N, per, lays, rng.below(6))
        for j in range(12 if q else 16):
            sc["packets"].append(t_random_packet(rng, sc, nions))
        sc["corpus"] = False
        S.append(sc)
    return S


# ---- running ------------------------------------------------------------------------------------------------------
def t_build(ck, d):
    """returns (model ok, harness ok)"""
    ok0, log0 = vf.coq_make(["Cxx/C03_TraceDefs.vo", "Cxx/C03_Gen.vo"], timeout=600)
    ok1, log1 = False, ""
    if ok0:
        rc, log1 = vf.sh(["timeout", "600", "coqc", "-Q", vf.COQ, "CMI", "-w", "none", "-o", os.path.join(d, "Extract_C03T.vo"),
                          os.path.join(vf.COQ, "Extract", "Extract_C03T.v")], cwd=d, timeout=630)
        ok1 = rc == 0
    ok2, log2 = (False, "") if not ok1 else vf.ocaml_build(d, ["c03t_model"], os.path.join(vf.VERIF, "ocaml/c03t_driver.ml"), "tmodel", floats=True)
    ok3, log3 = t_build_impl(d)
    if not ok3:
        ck.breaks.append("trace harness does not compile against %s/src:\n%s" % (vf.REPO, log3[-2000:]))
    if not (ok0 and ok1 and ok2):
        ck.breaks.append("trace model extraction/build failed:\n" + (log0[-1500:] if not ok0 else "") + (log1 + log2)[-2000:])
    return ok0 and ok1 and ok2, ok3


def t_build_impl(d):
    return vf.cxx_build(os.path.join(HARN, "trace_harness.cpp"), os.path.join(d, "timpl"), openmp=True, extra=T_FLAGS)


def t_parse_out(out, plan, model):
    """plan: list of ('H', n) / ('P',).  returns list aligned with plan: header -> list of lines, packet -> dict(T,S,E,V) or None"""
    res = []
    i = 0
    n = len(out)
    for it in plan:
        if it[0] == "H":
            res.append(out[i:i + it[1]] if i + it[1] <= n else None)
            i += it[1]
            continue
        if i >= n or not out[i].startswith("T "):
            res.append(None)
            continue
        f = out[i].split()
        try:
            k = int(f[2])
            if f[1] == "fuel":
                k = min(k, T_FUELSHOWN)
        except (IndexError, ValueError):
            res.append(None)
            continue
        if i + 1 + k + 1 > n:
            res.append(None)
            i = n
            continue
        rec = {"T": out[i], "S": out[i + 1:i + 1 + k], "E": out[i + 1 + k], "V": None}
        i += k + 2
        if model and i < n and out[i].startswith("#V"):
            rec["V"] = out[i]
            i += 1
        if not rec["E"].startswith("E ") or any(not s.startswith("S ") for s in rec["S"]):
            res.append(None)
            i = n
            continue
        res.append(rec)
    return res


def t_run(d, okm, oki, scenes, select=None):
    """runs every (scene, layout) on harness and model.  returns dict (scene idx, layout idx, packet idx) -> (rec_impl, rec_model)
    and a list of problems"""
    lines, plan, owner = [], [], []
    for si, sc in enumerate(scenes):
        pk = [(pi, p) for pi, p in enumerate(sc["packets"]) if select is None or select(p)]
        if not pk:
            continue
        for li, L in enumerate(sc["lays"]):
            h = L.header()
            lines += h
            plan.append(("H", len(h)))
            owner.append(None)
            for pi, p in pk:
                lines.append(t_pkt_line(p))
                plan.append(("P",))
                owner.append((si, li, pi))
    text = "\n".join(lines) + "\n"
    problems = []
    ri = rm = None
    if oki:
        rc, out_i = vf.run_lines([os.path.join(d, "timpl")], text, timeout=3000, env={"OMP_NUM_THREADS": "2"})
        ri = t_parse_out(out_i, plan, False)
        if rc != 0:
            problems.append("trace harness exited with %d after %d output lines" % (rc, len(out_i)))
    if okm:
        rc, out_m = vf.run_lines([os.path.join(d, "tmodel")], text, timeout=3000)
        rm = t_parse_out(out_m, plan, True)
        if rc != 0:
            problems.append("trace model driver exited with %d after %d output lines: %r" % (rc, len(out_m), out_m[-1:]))
    res = {}
    for k, o in enumerate(owner):
        if o is None:
            if ri is not None and rm is not None and ri[k] != rm[k]:
                problems.append("set-up lines differ: impl=%r model=%r" % (ri[k], rm[k]))
            continue
        res[o] = (ri[k] if ri is not None else None, rm[k] if rm is not None else None)
    return res, problems


def t_parse_rec(rec, nions, nheat=2):
    f = rec["T"].split()
    R = {"end": f[1], "ncalls": int(f[2]), "pos": [TD(x) for x in f[3:6]], "tau": TD(f[6]), "steps": [], "est": {}}
    for l in rec["S"]:
        g = l.split()
        if len(g) != 18:
            R["steps"].append(None)
            continue
        R["steps"].append({"sub": int(g[1]), "in": int(g[2]), "ppos": [TD(x) for x in g[3:6]], "ptau": TD(g[6]), "rel": [TD(x) for x in g[7:10]],
                           "idx": [int(x) for x in g[10:13]], "out": int(g[13]), "qpos": [TD(x) for x in g[14:17]], "qtau": TD(g[17]),
                           "bits": (g[3:7], g[14:18])})
    e = rec["E"].split()
    k = int(e[1])
    per = 2 + nions + nheat
    for i in range(k):
        b = 2 + i * per
        R["est"][(int(e[b]), int(e[b + 1]))] = [TD(x) for x in e[b + 2:b + per]]
    return R


# ---- the oracle ---------------------------------------------------------------------------------------------------
def t_tols(sc, p):
    scale = max(max(sc["sides"]), max(abs(x) for x in sc["anchor"]))
    nz = [abs(x) for x in p["dir"] if x != 0.0]
    dmin = min(nz) if nz else 1.0
    return scale, 1e-12 * scale / min(1.0, dmin)


def t_is_tie(sc, p):
    """a direction component is EXACTLY 0 and the start coordinate of that axis lies on (within 8 ulp of) a cell-face plane of the global
    grid; decided in rational arithmetic on the doubles"""
    for k in range(3):
        if p["dir"][k] != 0.0:
            continue
        side, N = Fr(sc["sides"][k]), sc["N"][k]
        q = (Fr(p["pos"][k]) - Fr(sc["anchor"][k])) * N / side
        j = round(q)
        dist = abs(q - j) * side / N
        if dist <= Fr(8 * T_EPS) * Fr(max(abs(p["pos"][k]), abs(sc["anchor"][k]), sc["sides"][k])):
            return True
    return False


def t_kappa(sc, p, X):
    nd, xH, xHe = sc["cells"][t_gidx(sc, X)]
    return nd * (p["sigma"][0] * xH + p["sigma"][1] * xHe)


def t_lengths(L, R, nions):
    """per GLOBAL cell path length from the probe ion; None + text on an invalid index"""
    out = {}
    for (sub, cell), vals in R["est"].items():
        X = L.gcoords(sub, cell)
        if X is None:
            return None, "estimators of subgrid %d cell %d changed: no such cell" % (sub, cell)
        out[X] = out.get(X, 0.0) + vals[nions - 1]
    return out, None


T_WORST = {}          # clause -> largest (deviation / tolerance) seen on a passing comparison (diagnostics for the coverage record)


T_STAT = [True]       # diagnostics only for rays whose smallest non-zero direction component is >= 1e-4 (the tolerance scales with 1/that)


def t_w(label, r):
    if T_STAT[0] and r > T_WORST.get(label, 0.0):
        T_WORST[label] = r
    return r


def t_handover_oracle(sc, L, p, R):
    """consistency of one traced run of the real code in itself (S lines).  returns (None | text, worst deviation / tolerance)"""
    N, per, a, sides = sc["N"], sc["per"], sc["anchor"], sc["sides"]
    scale, tol_len = t_tols(sc, p)
    tolc = 1e-12 * scale
    worst = 0.0
    cs = [sides[k] / N[k] for k in range(3)]
    if R["end"] == "err":
        return "the task loop was handed a subgrid index that does not exist (after %d calls)" % R["ncalls"], 1e9
    if len(R["steps"]) != (min(R["ncalls"], T_FUELSHOWN) if R["end"] == "fuel" else R["ncalls"]) or any(s is None for s in R["steps"]):
        return "malformed trace", 1e9
    prev = None
    for k, st in enumerate(R["steps"]):
        if not (0 <= st["sub"] < L.T):
            return "call %d: subgrid index %d out of range" % (k, st["sub"]), 1e9
        j = L.lattice(L.orig[st["sub"]])
        sa = L.anchor_of(j)
        if prev is None:
            if st["in"] != 0:
                return "call 0: input direction %d, expected INSIDE" % st["in"], 1e9
            if st["bits"][0][:3] != [TH(x) for x in p["pos"]] or st["bits"][0][3] != TH(p["tau"]):
                return "call 0: packet differs from the one that was sent", 1e9
        else:
            o = prev["out"]
            if not (1 <= o < 27):
                return "call %d: interact returned %d" % (k - 1, o), 1e9
            off = OFF[o]
            if st["bits"][0] != prev["bits"][1]:
                return "hand-over %d: packet position/optical depth changed between the calls" % k, 1e9
            if st["in"] != OPP[o]:
                return "hand-over %d: left through %s, handed to the neighbour as %s instead of %s" % (k, NAMES[o], NAMES[st["in"]] if 0 <= st["in"] < 27 else st["in"], NAMES[OPP[o]]), 1e9
            pj = L.lattice(L.orig[prev["sub"]])
            for ax in range(3):
                e = pj[ax] + off[ax]
                if per[ax]:
                    e %= L.m[ax]
                if e != j[ax]:
                    return "hand-over %d: left subgrid at lattice %s through %s, arrived in the subgrid at %s" % (k, pj, NAMES[o], j), 1e9
            for ax in range(3):
                if off[ax] != 0:
                    exp = 0 if off[ax] > 0 else L.c[ax] - 1
                    if st["idx"][ax] != exp:
                        return "hand-over %d: crossed axis %d through %s, start index %d instead of %d (the cell adjacent to the one left)" % (k, ax, NAMES[o], st["idx"][ax], exp), 1e9
                # physical start position = exit position (modulo the box side on periodic axes)
                dlt = (sa[ax] + st["rel"][ax]) - prev["qpos"][ax]
                if per[ax]:
                    dlt -= round(dlt / sides[ax]) * sides[ax]
                worst = max(worst, t_w("hand-over position", abs(dlt) / tolc))
                if abs(dlt) > tolc:
                    return "hand-over %d: left at coordinate %d = %r, the neighbour starts at %r" % (k, ax, prev["qpos"][ax], sa[ax] + st["rel"][ax]), abs(dlt) / tolc
        # the start cell contains the start point (closed cell, within the tolerance)
        for ax in range(3):
            lo, hi = st["idx"][ax] * cs[ax], (st["idx"][ax] + 1) * cs[ax]
            dv = max(lo - st["rel"][ax], st["rel"][ax] - hi, 0.0)
            worst = max(worst, t_w("start cell contains start point", dv / tolc))
            if dv > tolc:
                return "call %d: start cell index %d on axis %d (cell [%r, %r]) does not contain the start coordinate %r (relative to the subgrid)" % (
                    k, st["idx"][ax], ax, lo, hi, st["rel"][ax]), dv / tolc
        # the target may grow by a step of about -1 ulp length (trunc(x * inv) can round up to the next cell); not by more
        grow = st["qtau"] - st["ptau"]
        tolg = 1e-12 * abs(st["ptau"]) + tol_len * (sc["kmaxH"] * p["sigma"][0] + sc["kmaxHe"] * p["sigma"][1]) + 1e-300
        if grow > 0.0:
            worst = max(worst, t_w("optical depth does not grow", grow / tolg))
        if grow > tolg:
            return "call %d: target optical depth grew from %r to %r" % (k, st["ptau"], st["qtau"]), grow / tolg
        prev = st
    if prev is not None:
        if R["end"] in ("absorbed", "escaped") and ([TH(x) for x in R["pos"]] != prev["bits"][1][:3] or TH(R["tau"]) != prev["bits"][1][3]):
            return "final packet differs from what the last call left", 1e9
        if R["end"] == "absorbed" and prev["out"] != 0:
            return "absorbed although the last call returned %d" % prev["out"], 1e9
        if R["end"] == "escaped":
            o = prev["out"]
            if not (1 <= o < 27):
                return "escaped although the last call returned %d" % o, 1e9
            pj = L.lattice(L.orig[prev["sub"]])
            ends = [ax for ax in range(3) if OFF[o][ax] != 0 and not per[ax] and not (0 <= pj[ax] + OFF[o][ax] < L.m[ax])]
            if not ends:
                return "escaped through %s of the subgrid at %s although the box does not end there" % (NAMES[o], pj), 1e9
            for ax in ends:
                plane = a[ax] + sides[ax] if OFF[o][ax] > 0 else a[ax]
                dv = abs(prev["qpos"][ax] - plane)
                worst = max(worst, t_w("escape on the box face", dv / tolc))
                if dv > tolc:
                    return "escaped through %s at coordinate %d = %r, the box face is at %r" % (NAMES[o], ax, prev["qpos"][ax], plane), dv / tolc
    if R["end"] == "absorbed":
        for ax in range(3):
            dv = max(a[ax] - R["pos"][ax], R["pos"][ax] - (a[ax] + sides[ax]), 0.0)
            if dv > tolc:
                return "absorbed outside the box (coordinate %d = %r)" % (ax, R["pos"][ax]), dv / tolc
    return None, worst


def t_pair_oracle(sc, L, p, RL, RB, nions):
    """layout independence on the real outputs: run through layout L vs. run through the undivided grid.
    returns (None | 'skip:...' | text, worst deviation / tolerance)"""
    B = sc["lays"][0]
    per, a, sides, d = sc["per"], sc["anchor"], sc["sides"], p["dir"]
    scale, tol_len = t_tols(sc, p)
    for (nm, R) in (("layout " + L.name(), RL), ("undivided grid", RB)):
        if R["end"] == "err":
            return "%s: the task loop was handed a subgrid index that does not exist" % nm, 1e9
    if RL["end"] == "fuel" and RB["end"] == "fuel":
        return "skip:fuel", 0.0
    if RL["end"] == "fuel" and RB["end"] != "fuel" and 2 * (RB["ncalls"] + 1) * sum(L.m) + 10 >= T_MAXCALLS:
        return "skip:fuel", 0.0            # the undivided run wrapped so often that the split run legitimately needs more calls than the cap
    if RL["end"] == "fuel" or RB["end"] == "fuel":
        return "layout %s: %s after %d interact calls (cap), undivided grid: %s after %d" % (L.name(), RL["end"], RL["ncalls"], RB["end"], RB["ncalls"]), 1e9
    lenL, w1 = t_lengths(L, RL, nions)
    lenB, w2 = t_lengths(B, RB, nions)
    if w1 or w2:
        return w1 or w2, 1e9
    sL, sB = sum(lenL.values()), sum(lenB.values())
    wraps = 1.0 + max(sL, sB) / min(sides)
    tl = tol_len * wraps
    worst = 0.0
    for (nm, ln) in (("layout " + L.name(), lenL), ("undivided grid", lenB)):
        for X, v in ln.items():
            if v < -tl:
                return "%s: negative length %r credited to global cell %s" % (nm, v, X), abs(v) / tl
    (Rl, ll, sl, nl), (Rs, ls, ss, nsn) = ((RL, lenL, sL, "layout " + L.name()), (RB, lenB, sB, "undivided grid"))
    if sl < ss:
        (Rl, ll, sl, nl), (Rs, ls, ss, nsn) = (Rs, ls, ss, nsn), (Rl, ll, sl, nl)
    cells = set(ll) | set(ls)
    kap = {X: t_kappa(sc, p, X) for X in cells}
    dtau = 1e-12 * (p["tau"] if p["tau"] < 1e290 else 0.0) + tl * sum(kap.values()) + 1e-300
    excess_tau = 0.0
    tail = False
    worst_cell = None
    both_escaped = RL["end"] == "escaped" and RB["end"] == "escaped"
    lab = "length per global cell" + ("" if both_escaped else " (absorbed rays: includes where the packet stops)")
    for X in cells:
        e = ll.get(X, 0.0) - ls.get(X, 0.0)
        if e < -tl:
            return "%s credits %r to global cell %s, %s credits %r (path of the %s is the longer one)" % (nsn, ls.get(X, 0.0), X, nl, ll.get(X, 0.0), nl), abs(e) / tl
        if e > tl:
            tail = True
            excess_tau += e * kap[X]
            if worst_cell is None or e > worst_cell[1]:
                worst_cell = (X, e)
        else:
            r = t_w(lab, abs(e) / tl)
            if both_escaped:
                worst = max(worst, r)
    if tail:
        X, e = worst_cell
        if both_escaped:
            return "global cell %s: %s credits %r, %s credits %r (difference %r, tolerance %r)" % (X, nl, ll.get(X, 0.0), nsn, ls.get(X, 0.0), e, tl), e / tl
        # an absorbed packet may stop earlier/later by what is optically nothing (target reached at a cell wall in front of empty cells)
        worst = max(worst, t_w("optical depth of an early/late stop", excess_tau / dtau))
        if excess_tau > dtau:
            return "global cell %s: %s credits %r, %s credits %r; the extra path has optical depth %r (tolerance %r)" % (
                X, nl, ll.get(X, 0.0), nsn, ls.get(X, 0.0), excess_tau, dtau), max(e / tl, excess_tau / dtau)
    if RL["end"] != RB["end"]:
        esc = RL if RL["end"] == "escaped" else RB
        worst = max(worst, t_w("optical depth left when only one run is absorbed", abs(esc["tau"]) / dtau))
        if not (abs(esc["tau"]) <= dtau):
            return "layout %s: %s, undivided grid: %s (optical depth left %r / %r)" % (L.name(), RL["end"], RB["end"], RL["tau"], RB["tau"]), abs(esc["tau"]) / dtau
    elif both_escaped:
        dv = abs(RL["tau"] - RB["tau"])
        worst = max(worst, t_w("optical depth left (both escaped)", dv / dtau))
        if dv > dtau:
            return "escaped with optical depth %r left, undivided grid %r (tolerance %r)" % (RL["tau"], RB["tau"], dtau), dv / dtau
    # end position: long = short + (s_long - s_short) d, modulo the box side on periodic axes
    ds = sl - ss
    tp = tl + 4 * T_EPS * scale
    for ax in range(3):
        dv = Rl["pos"][ax] - Rs["pos"][ax] - ds * d[ax]
        if per[ax]:
            r = round(dv / sides[ax])
            if r != 0 and not tail:
                onface = min(abs(Rl["pos"][ax] - a[ax]), abs(Rl["pos"][ax] - (a[ax] + sides[ax]))) <= tp
                if not onface or abs(r) > 1:
                    return "end position coordinate %d: %r vs %r in the undivided grid" % (ax, RL["pos"][ax], RB["pos"][ax]), 1e9
            dv -= r * sides[ax]
        worst = max(worst, t_w("end position", abs(dv) / tp))
        if abs(dv) > tp:
            return "end position coordinate %d: %r vs %r in the undivided grid (tolerance %r)" % (ax, RL["pos"][ax], RB["pos"][ax], tp), abs(dv) / tp
    # sum of the lengths = distance travelled (each run)
    for (nm, R, s) in (("layout " + L.name(), RL, sL), ("undivided grid", RB, sB)):
        for ax in range(3):
            dv = s * d[ax] - (R["pos"][ax] - p["pos"][ax])
            if per[ax]:
                dv -= round(dv / sides[ax]) * sides[ax]
            worst = max(worst, t_w("sum of lengths = distance", abs(dv) / tp))
            if abs(dv) > tp:
                return "%s: credited lengths sum to %r but coordinate %d moved from %r to %r" % (nm, s, ax, p["pos"][ax], R["pos"][ax]), abs(dv) / tp
    return None, worst


# ---- second pass: targets at / around the partial sums of the optical depth ----------------------------------------
def t_second_pass(rng, sc, L, p, rec_m, R):
    """packets with the geometry of p and targets chosen from the visits of the first pass (model's #V line, layout L)"""
    if rec_m is None or rec_m.get("V") is None or R["end"] not in ("absorbed", "escaped"):
        return []
    f = rec_m["V"].split()[2:]
    vis = []
    for x in f:
        s, c, l = x.split(":")
        X = L.gcoords(int(s), int(c))
        if X is None:
            return []
        vis.append((int(s), X, TD(l)))
    sH, sHe = p["sigma"][0], p["sigma"][1]
    ps, td, bnd = [], 0.0, []
    for i, (s, X, l) in enumerate(vis):
        nd, xH, xHe = sc["cells"][t_gidx(sc, X)]
        td += l * nd * (sH * xH + sHe * xHe)
        ps.append(td)
        if i + 1 < len(vis) and vis[i + 1][0] != s:
            bnd.append(i)              # last visit before a hand-over
    out = []

    def mk(t, kind):
        if t > 0.0 and t < 1e290 and t == t:
            q = dict(p)
            q["tau"], q["pass"], q["kind"] = t, 2, p["kind"] + " | " + kind
            out.append(q)
    pos = [t for t in ps if t > 0.0]
    if not pos:
        if rng.below(3) == 0:
            mk(rng.choice([1e-3, 1.0]), "no opacity on the path")
        return out
    # absorbed inside the first cell with opacity / inside the last cell before the end
    if rng.below(2):
        mk(pos[0] * rng.uniform(), "absorbed inside the first opaque cell")
    if len(ps) >= 2 and ps[-1] > ps[-2] and rng.below(2):
        mk(ps[-2] + (ps[-1] - ps[-2]) * rng.uniform(), "absorbed inside the last cell before the box boundary" if R["end"] == "escaped" else "absorbed inside the last cell of the first pass")
    # at / one ulp around a partial sum: at a subgrid boundary if there is one, else at a cell boundary
    cand = [ps[i] for i in bnd if ps[i] > 0.0]
    if cand and rng.below(4):
        t = rng.choice(cand)
        mk(rng.choice([t, math.nextafter(t, 0.0), math.nextafter(t, math.inf)]), "partial sum at a subgrid boundary")
    else:
        t = rng.choice(pos)
        mk(rng.choice([t, math.nextafter(t, 0.0), math.nextafter(t, math.inf)]), "partial sum at a cell boundary")
    if rng.below(3) == 0:
        k = rng.below(len(ps))
        lo = ps[k - 1] if k > 0 else 0.0
        if ps[k] > lo:
            mk(lo + (ps[k] - lo) * rng.uniform(), "inside a cell")
    if R["end"] == "escaped" and rng.below(3) == 0:
        mk(ps[-1] * (1.0 + rng.uniform()), "beyond the total")
    return out


def t_readable(sc, L, p):
    return {"scene": sc["tag"], "anchor": sc["anchor"], "sides": sc["sides"], "cells": list(sc["N"]), "periodic": list(sc["per"]), "layout": list(L.m),
            "copy_levels": L.lv, "start_copy_selector": p["sel"], "position": p["pos"], "direction": p["dir"], "target_optical_depth": p["tau"],
            "sigma_H": p["sigma"][0], "sigma_He": p["sigma"][1], "kind": p["kind"]}


def t_replay_dict(sc, L, p, why, extra=None):
    r = {"kind": "trace", "failing_clause": why, "grid_layout": L.header(), "grid_undivided": sc["lays"][0].header(), "packet": t_pkt_line(p),
         "readable": t_readable(sc, L, p)}
    if extra:
        r.update(extra)
    return r


def t_scene_of_lines(hl):
    """rebuild (scene, layout) from stored G/F/C lines"""
    g = hl[0].split()
    v = [TD(x) for x in g[1:7]]
    ints = [int(x) for x in g[7:16]]
    sc = {"tag": "replay", "anchor": v[0:3], "sides": v[3:6], "N": tuple(ints[0:3]), "per": tuple(ints[6:9]), "Fline": hl[1]}
    f = hl[1].split()[1:]
    sc["cells"] = [(TD(f[3 * i]), TD(f[3 * i + 1]), TD(f[3 * i + 2])) for i in range(len(f) // 3)]
    t_kmax(sc)
    lv = [int(x) for x in hl[2].split()[1:]] if len(hl) > 2 else None
    L = TLay(sc, tuple(ints[3:6]), lv)
    sc["lays"] = [TLay(sc, (1, 1, 1)), L]
    return sc, L


def t_pkt_of_line(l):
    q = l.split()
    v = [TD(x) for x in q[2:]]
    return {"sel": int(q[1]), "pos": v[0:3], "dir": v[3:6], "tau": v[6], "w": v[7], "energy": v[8], "sigma": v[9:], "kind": "replay", "pass": 0}


def t_eval(sc, L, p, recL, recB, nions):
    """all oracle clauses for one ray on the real outputs.  returns (why | None, ratio, tie, skipped)"""
    if recL is None:
        return "no (complete) answer from the real code for layout %s (it aborted or crashed)" % L.name(), 1e9, False, None
    RL = t_parse_rec(recL, nions)
    nzd = [abs(x) for x in p["dir"] if x != 0.0]
    T_STAT[0] = bool(nzd) and min(nzd) >= 1e-4
    why, ratio = t_handover_oracle(sc, L, p, RL)
    if why:
        return "hand-over: " + why, ratio, False, None
    if L is sc["lays"][0]:
        return None, ratio, False, None
    if recB is None:
        return "no (complete) answer from the real code for the undivided grid", 1e9, False, None
    RB = t_parse_rec(recB, nions)
    why2, ratio2 = t_pair_oracle(sc, L, p, RL, RB, nions)
    ratio = max(ratio, ratio2)
    if why2 and why2.startswith("skip:"):
        return None, ratio, False, why2[5:]
    if why2:
        tie = t_is_tie(sc, p)
        return "layout independence: " + why2, ratio2, tie, None
    return None, ratio, False, None


def run_trace(ck):
    d = ck.scratch
    cov = ck.coverage
    t0 = time.time()
    okm, oki = t_build(ck, d)
    nions = 14
    if oki:
        rc, info = vf.run_lines([os.path.join(d, "timpl"), "--info"], "")
        kv = dict(zip(info[0].split()[0::2], info[0].split()[1::2])) if info else {}
        nions = int(kv.get("nions", 14))
        if kv.get("helium") != "1" or kv.get("variable_abundances") != "0" or kv.get("lockfree") != "0" or kv.get("heatingterms") != "2" \
                or kv.get("ion_H") != "0" or kv.get("ion_He") != "1" or kv.get("assertions") != "0" or nions < 3:
            ck.breaks.append("configuration of %s differs from the one modelled (HAS_HELIUM, no VARIABLE_ABUNDANCES, 2 heating terms, assertions off): %r" % (vf.REPO, kv))
    rng = ck.rng
    scenes = t_gen_scenes(ck, nions)
    res1, prob1 = t_run(d, okm, oki, scenes)
    # second pass
    n1 = [len(sc["packets"]) for sc in scenes]
    for si, sc in enumerate(scenes):
        new = []
        for pi in range(n1[si]):
            p = sc["packets"][pi]
            li = rng.below(len(sc["lays"]))
            ri, rm = res1.get((si, li, pi), (None, None))
            src = rm if rm is not None else None
            if src is None:
                if rng.below(2):
                    q = dict(p)
                    q["tau"], q["pass"] = 10.0 ** (rng.uniform() * 4 - 3), 2
                    new.append(q)
                continue
            R = t_parse_rec(src, nions)
            qs = t_second_pass(rng, sc, sc["lays"][li], p, src, R)
            if ck.quick and len(qs) > 2 and not sc.get("corpus"):
                qs = qs[:2]
            if ck.quick and sc.get("corpus") and len(qs) > 1:
                qs = [qs[rng.below(len(qs))]]
            new += qs
        sc["packets"] += new
    res2, prob2 = t_run(d, okm, oki, scenes, select=lambda p: p["pass"] == 2)
    res = dict(res1)
    res.update(res2)
    for pr in prob1 + prob2:
        ck.breaks.append("C03 trace: " + pr)
    # ---- evaluate
    ntr = nmis = norac = ntie_skip = ntie_ok = nfuel = nfail = nmarg = 0
    viol_done = 0
    hist_lay, hist_out, hist_end, hist_kind, hist_wrap = {}, {}, {}, {}, {}
    first_last = {"absorbed in the first cell": 0, "absorbed in the last cell before the box boundary": 0, "absorbed elsewhere": 0}
    maxcalls = 0
    maxratio = 0.0
    sigs = set()
    samples, marginal, tie_examples = [], [], []
    failing = []
    for (si, li, pi), (ri, rm) in sorted(res.items()):
        sc = scenes[si]
        L = sc["lays"][li]
        p = sc["packets"][pi]
        ntr += 1
        mism = None
        if okm and oki:
            a = None if ri is None else [ri["T"]] + ri["S"] + [ri["E"]]
            b = None if rm is None else [rm["T"]] + rm["S"] + [rm["E"]]
            if a != b:
                nmis += 1
                if a is None or b is None:
                    mism = "impl=%r model=%r" % (a and a[0], b and b[0])
                else:
                    j = vf.first_diff(a, b)
                    mism = "output line %d: impl=%r model=%r" % (j, a[j][:300] if j < len(a) else None, b[j][:300] if j < len(b) else None)
        why = ratio = None
        if oki:
            rB = res.get((si, 0, pi), (None, None))[0]
            why, ratio, tie, skipped = t_eval(sc, L, p, ri, rB, nions)
            norac += 1
            if skipped:
                nfuel += 1
            if why and tie:
                ntie_skip += 1
                if len(tie_examples) < 3:
                    tie_examples.append({"why": why[:300], "input": t_readable(sc, L, p)})
                why = None
            elif why is None and ratio is not None:
                if T_STAT[0]:
                    maxratio = max(maxratio, ratio)
                if li != 0 and t_is_tie_fast(p):
                    if "_tie" not in p:
                        p["_tie"] = t_is_tie(sc, p)
                    if p["_tie"]:
                        ntie_ok += 1
            if why:
                nfail += 1
                failing.append((si, li, pi, why, ratio))
        if mism is not None and viol_done < 3:
            viol_done += 1
            desc = "trace model and real code disagree on layout %s of scene %r, packet %r: %s" % (L.name(), sc["tag"], p["kind"], mism)
            if why:
                ck.violation("C03 fails on the real code: %s (%s)" % (why, desc), t_replay_dict(sc, L, p, why, {"impl_out": ri, "model_out": rm}),
                             key={"kind": "trace", "clause": why.split(":")[0]})
                p["_reported"] = True
            else:
                ck.breaks.append("correspondence C03 trace model <-> real code: " + desc + " input=" + json.dumps(t_readable(sc, L, p)))
        # statistics
        if ri is not None:
            f = ri["T"].split()
            hist_lay[L.name()] = hist_lay.get(L.name(), 0) + 1
            hist_end[f[1]] = hist_end.get(f[1], 0) + 1
            nc = int(f[2])
            maxcalls = max(maxcalls, nc)
            outs = [int(s.split()[13]) for s in ri["S"] if len(s.split()) == 18]
            wrapped = 0
            for s in ri["S"][:-1] if f[1] != "fuel" else ri["S"]:
                g = s.split()
                if len(g) == 18 and 0 <= int(g[13]) < 27:
                    o = int(g[13])
                    hist_out[NAMES[o]] = hist_out.get(NAMES[o], 0) + 1
                    j = L.lattice(L.orig[int(g[1])]) if 0 <= int(g[1]) < L.T else None
                    if j and any(OFF[o][ax] != 0 and sc["per"][ax] and not (0 <= j[ax] + OFF[o][ax] < L.m[ax]) for ax in range(3)):
                        wrapped += 1
            wk = "0" if wrapped == 0 else ("1" if wrapped == 1 else ("2-5" if wrapped <= 5 else "6+"))
            hist_wrap[wk] = hist_wrap.get(wk, 0) + 1
            kd = p["kind"].split(" | ")[0].split(" / ")[0]
            hist_kind[kd] = hist_kind.get(kd, 0) + 1
            if f[1] == "absorbed" and p["pass"] == 2:
                kk = p["kind"].split(" | ")[-1]
                if "first" in kk:
                    first_last["absorbed in the first cell"] += 1
                elif "before the box boundary" in kk:
                    first_last["absorbed in the last cell before the box boundary"] += 1
                else:
                    first_last["absorbed elsewhere"] += 1
            if nc >= 2 or f[1] == "absorbed":
                sigs.add((si, li, tuple(outs), f[1], tuple((x > 0) - (x < 0) for x in p["dir"]), p["pass"]))
            if len(samples) < 2 and nc >= 3 and li > 0:
                samples.append({"input": t_readable(sc, L, p), "impl_out": [ri["T"]] + [s[:200] for s in ri["S"][:3]]})
    # oracle failures on the real outputs: violations (concrete inputs); a deviation below 100 x the tolerance while the model still
    # corresponds bit for bit and nothing else broke is listed as marginal instead (round-off of the comparison, not of the property)
    failing.sort(key=lambda x: -x[4])
    for (si, li, pi, why, ratio) in failing:
        sc = scenes[si]
        L = sc["lays"][li]
        p = sc["packets"][pi]
        if p.get("_reported"):
            continue
        hard = ratio >= 100.0 or nmis > 0 or bool(ck.breaks)
        if hard:
            if viol_done < 6:
                viol_done += 1
                ri = res[(si, li, pi)][0]
                ck.violation("C03 fails on the real code: %s (scene %r, layout %s, packet %r)" % (why, sc["tag"], L.name(), p["kind"]),
                             t_replay_dict(sc, L, p, why, {"impl_out": ri}), key={"kind": "trace", "clause": why.split(":")[0]})
        else:
            nmarg += 1
            if len(marginal) < 5:
                marginal.append({"why": why[:400], "ratio": ratio, "input": t_readable(sc, L, p)})
    if nmarg:
        ck.notes.append("trace oracle: %d rays deviate from the undivided grid by 1..100 x the tolerance while model and code agree bit for bit (listed in coverage trace_oracle_marginal)" % nmarg)
    cov["evaluations"] = cov.get("evaluations", 0) + ntr
    cov["distinct_nontrivial"] = cov.get("distinct_nontrivial", 0) + len(sigs)
    cov["trace_rule"] = ("trace evaluations = (ray, layout) pairs: one packet traced by the REAL DensitySubGridCreator::get_subgrid / DensitySubGrid::interact / get_neighbour / "
                         "TravelDirections::output_to_input_direction in the order of PhotonTraversalTaskContext::execute, compared line by line (end decision, number of interact calls, per call: subgrid, input "
                         "direction, packet before, relative start position and start index computed by the real update_photon_position/get_start_index, returned direction, packet after; every changed "
                         "(subgrid, cell) estimator: %d mean intensities + 2 heating terms, all doubles as bit patterns) with the extracted binary64 model f_trace_packet / f_trace_copies; AND the oracle on the "
                         "real outputs: hand-over consistency of every call (opposite input direction, lattice-adjacent subgrid, adjacent start cell on crossed axes, start cell contains the exit point, "
                         "physical position preserved modulo the box side) and layout independence against the undivided grid 1x1x1 of the same scene (end decision, per global cell length from a probe ion "
                         "with sigma = weight = 1, end position, optical depth left, sum of lengths = distance). Tolerance: 1e-12 x max(box side, |anchor|) / min(1, smallest non-zero |direction component|) "
                         "for lengths and positions (x (1 + path/min side) for wrapped paths); optical depths: 1e-12 x target + length tolerance x sum of the opacities of the visited cells; an absorbed "
                         "packet may stop earlier/later than in the undivided grid only by a stretch whose optical depth is below that bound (target reached at a wall in front of empty cells). "
                         "Rays with a direction component exactly 0 that start within 8 ulp of a cell-face plane of that axis are ties (floor of the plane coordinate): a disagreement there is counted, not "
                         "reported. Scenes: %d hand-picked geometries (2^k boxes where every crossing is exact, 0.3 / 1/7 / 0.7 boxes, non-cubic, anchors off 0, the unit-test box, prime cell counts, empty box; "
                         "open, partly and fully periodic incl. 1 and 2 subgrids on a periodic axis) each with ~100 hand-picked rays (axes, face/space/cell diagonals through corners and edges, along edges, in "
                         "face planes, starts on cell/subgrid faces and corners, grazing 1e-1..1e-3 and 1e-8, box corner/faces, one ulp below the upper face), 3 scenes with copies, then random scenes over the "
                         "grids 12^3, 8^3, 6x4x2, 4x6x12, 9x6x3 with random divisor layouts (incl. one cell per subgrid), all 8 periodicity triples, 5 box modes, 6 density modes incl. empty cells; second pass "
                         "re-sends rays with targets inside the first opaque cell, inside the last cell, at / one ulp around partial sums at subgrid and cell boundaries, inside a cell, beyond the total. "
                         "non-trivial = >= 2 interact calls or absorbed; distinct = distinct (scene, layout, sequence of exit codes, end, direction signs, pass)") % (
                             nions, sum(1 for s in scenes if s.get("corpus")))
    cov["trace_evaluations"] = ntr
    cov["trace_distinct_nontrivial"] = len(sigs)
    cov["trace_distinct_rays"] = sum(len(sc["packets"]) for sc in scenes)
    cov["trace_scenes"] = len(scenes)
    cov["trace_mismatches"] = nmis
    cov["trace_oracle_evaluations"] = norac
    cov["trace_oracle_failures"] = nfail
    cov["trace_oracle_marginal"] = marginal
    cov["trace_oracle_max_deviation_over_tolerance"] = maxratio
    cov["trace_oracle_max_deviation_over_tolerance_per_clause"] = dict(T_WORST)
    cov["trace_ties_disagreeing_skipped"] = ntie_skip
    cov["trace_ties_agreeing"] = ntie_ok
    cov["trace_tie_examples"] = tie_examples
    cov["trace_both_fuel_skipped"] = nfuel
    cov["trace_histogram_layout"] = hist_lay
    cov["trace_histogram_end"] = hist_end
    cov["trace_histogram_handover_exit_code"] = hist_out
    cov["trace_edge_corner_handovers"] = sum(v for k, v in hist_out.items() if k.startswith("EDGE") or k.startswith("CORNER"))
    cov["trace_histogram_periodic_wraps_per_ray"] = hist_wrap
    cov["trace_histogram_ray_kind"] = hist_kind
    cov["trace_second_pass_absorbed"] = first_last
    cov["trace_max_interact_calls"] = maxcalls
    cov["trace_wall_s"] = round(time.time() - t0, 1)
    cov["samples"] = list(cov.get("samples", [])) + samples
    ck.log("trace: %d (ray, layout) pairs, %d mismatches model<->code, oracle %d failures (%d marginal), max deviation/tolerance %.3g, ties skipped %d, %.1fs" % (
        ntr, nmis, nfail, nmarg, maxratio, ntie_skip, time.time() - t0))
    ck.assumptions += [
        "trace (layers 2/4): the harness reproduces the task loop for ONE packet (source task: get_subgrid(position), INSIDE; traversal task: interact, store_photon = neighbour exists, "
        "buffer direction = output_to_input_direction); buffers, queues, threads and MPI are not involved (C01 covers the bookkeeping)",
        "trace: harness compiled with -O1 -ffp-contract=off; at most %d interact calls per packet ('fuel' in both model and harness)" % T_MAXCALLS,
        "trace: start positions are inside the box (get_subgrid of a position on/after the upper box face indexes outside the subgrid array in the real code; not generated)",
    ]


def t_is_tie_fast(p):
    return any(x == 0.0 for x in p["dir"])


def replay_trace(ck, r):
    d = ck.scratch
    ok3, log3 = t_build_impl(d)
    if not ok3:
        print(log3[-2000:])
        return 2
    sc, L = t_scene_of_lines(r["grid_layout"])
    p = t_pkt_of_line(r["packet"])
    nions = len(p["sigma"])
    lines = list(r["grid_layout"]) + [r["packet"]] + list(r["grid_undivided"]) + [r["packet"]]
    rc, out = vf.run_lines([os.path.join(d, "timpl")], "\n".join(lines) + "\n", env={"OMP_NUM_THREADS": "2"})
    plan = [("H", len(r["grid_layout"])), ("P",), ("H", len(r["grid_undivided"])), ("P",)]
    pr = t_parse_out(out, plan, False)
    print(json.dumps(r.get("readable"), indent=1))
    for nm, rec in (("layout " + L.name(), pr[1]), ("undivided grid", pr[3])):
        print("---", nm)
        if rec is None:
            print("no complete answer (exit code %d)" % rc)
        else:
            print(rec["T"])
            for s in rec["S"][:40]:
                g = s.split()
                if len(g) == 18:
                    print("  call sub=%s in=%s pos=(%s) tau=%r start rel=(%s) idx=%s -> out=%s pos=(%s) tau=%r" % (
                        g[1], NAMES[int(g[2])] if 0 <= int(g[2]) < 27 else g[2], ", ".join(repr(TD(x)) for x in g[3:6]), TD(g[6]), ", ".join(repr(TD(x)) for x in g[7:10]),
                        g[10:13], NAMES[int(g[13])] if 0 <= int(g[13]) < 27 else g[13], ", ".join(repr(TD(x)) for x in g[14:17]), TD(g[17])))
                else:
                    print("  " + s[:200])
            if len(rec["S"]) > 40:
                print("  ... %d more calls" % (len(rec["S"]) - 40))
    why, ratio, tie, skipped = t_eval(sc, L, p, pr[1], pr[3], nions)
    if why is None:
        whyb, ratio, tie, skipped = t_eval(sc, sc["lays"][0], p, pr[3], pr[3], nions)
        why = whyb and "undivided grid: " + whyb
    if why and tie:
        print("REPLAY: tie (direction component 0 on a cell-face plane): " + why)
        return 0
    print("REPLAY:", why or "property holds on this input")
    return 1 if why else 0


# ----------------------------------------------------------------------------------------------------------------
def run(ck):
    d = ck.scratch
    cov = ck.coverage
    # 1. regenerate the tables from the repo under test
    okg, tlines, glog = regenerate(d)
    if not okg:
        ck.breaks.append("regeneration of coq/Cxx/C03_Gen.v failed: " + glog)
    ck.log("tables regenerated from %s: %d evaluations" % (vf.REPO, max(0, len(tlines) - 1)))
    # 2. prove
    ntab = len(TABLES)
    ok_proof = ck.prove(extra_obligations=ntab)
    if ok_proof and okg:
        cov["discharged"] += ntab
    cov["regenerated_tables"] = TABLES
    if not ck.quick and ok_proof:
        with vf.Lock("coq"):
            rc, out = vf.sh(["timeout", "900", "coqchk", "-silent", "-o", "-Q", ".", "CMI", "CMI.Props.Properties_C03"], cwd=vf.COQ, timeout=930)
        cov["coqchk"] = " ".join(out.split())[-400:]
        if rc != 0:
            ck.breaks.append("coqchk rejects Props/Properties_C03.vo:\n" + out[-1500:])
    cov["table_evaluations"] = {k: sum(1 for l in tlines if l.startswith(k + " ")) for k in ("named", "o2i", "mask", "exit", "compat", "entry")}
    # search-on-break for layer 1: independent oracle on what the real functions returned
    tbad = table_oracle(tlines) if tlines else []
    for b in tbad[:5]:
        ck.violation("C03 direction tables: %s(%s) returns %s, expected %s (%s)" % (b["function"], ", ".join(str(x) for x in b["input"]), b["returned"], b["expected"], b["why"]),
                     {"kind": "table", "function": b["function"], "input": b["input"], "returned": b["returned"], "expected": b["expected"]},
                     key={"kind": "table", "function": b["function"]})
    if tbad:
        ck.notes.append("table oracle: %d entries violate the property" % len(tbad))
        if ok_proof:
            ck.breaks.append("table oracle rejects %d entries although the Coq obligations check (oracle and spec disagree)" % len(tbad))
    # 3. correspondence of the wiring model with the real creator
    ok1, log1 = extract_model(d)
    ok2, log2 = (False, "") if not ok1 else vf.ocaml_build(d, ["c03_model"], os.path.join(vf.VERIF, "ocaml/c03_driver.ml"), "model")
    ok3, log3 = vf.cxx_build(os.path.join(HARN, "wiring.cpp"), os.path.join(d, "impl"), openmp=True, extra=MPI)
    if not ok3:
        ck.breaks.append("harness does not compile against %s/src/DensitySubGridCreator.hpp:\n%s" % (vf.REPO, log3[-2000:]))
    if not (ok1 and ok2):
        ck.breaks.append("model extraction/build failed:\n" + (log1 + log2)[-2000:])
    lines = gen_cases(ck)
    text = "\n".join(lines) + "\n"
    impl_blocks = None
    if ok3:
        rc_i, out_i = vf.run_lines([os.path.join(d, "impl")], text, timeout=1200, env={"OMP_NUM_THREADS": "4"})
        impl_blocks = split_blocks(out_i)
        if rc_i != 0 or len(impl_blocks) != len(lines):
            ck.breaks.append("implementation harness exited with %d after %d of %d cases" % (rc_i, len(impl_blocks), len(lines)))
            impl_blocks = run_impl_per_case(os.path.join(d, "impl"), lines)
    mism = 0
    evals = 0
    if ok1 and ok2 and impl_blocks is not None:
        rc_m, out_m = vf.run_lines([os.path.join(d, "model")], text, timeout=1200)
        model_blocks = split_blocks(out_m)
        if rc_m != 0 or len(model_blocks) != len(lines):
            ck.breaks.append("model driver exited with %d after %d of %d cases" % (rc_m, len(model_blocks), len(lines)))
        sigs = set()
        hist = {"axis with <=2 subgrids and periodic": 0, "with copies": 0, "update_copies exercised": 0, "plain": 0}
        for k, l in enumerate(lines):
            bi = impl_blocks[k] if k < len(impl_blocks) else []
            bm = model_blocks[k] if k < len(model_blocks) else []
            evals += sum(1 for x in bi if x.startswith("S "))
            sp, cp = nontrivial(l)
            a = l.split()
            n = int(a[0]) * int(a[1]) * int(a[2])
            if sp:
                hist["axis with <=2 subgrids and periodic"] += 1
            if cp:
                hist["with copies"] += 1
            if a[10 + n] == "1":
                hist["update_copies exercised"] += 1
            if sp or cp:
                sigs.add(" ".join(a[:6] + a[10:]))
            else:
                hist["plain"] += 1
            if bi != bm:
                mism += 1
                if mism <= 3:
                    j = vf.first_diff(bi, bm)
                    why = wiring_oracle(l, bi)
                    desc = "model and DensitySubGridCreator disagree on case %r at output line %d: impl=%r model=%r" % (
                        l[:200], j, bi[j][:300] if j < len(bi) else None, bm[j][:300] if j < len(bm) else None)
                    if why:
                        ck.violation("C03 fails on the real DensitySubGridCreator: %s (%s)" % (why, desc), {"kind": "wiring", "line": l, "failing_clause": why},
                                     key={"kind": "wiring", "clause": why.split(":")[0]})
                    else:
                        ck.breaks.append("correspondence C03 model <-> DensitySubGridCreator.hpp: " + desc)
        cov["evaluations"] = evals
        cov["distinct_nontrivial"] = len(sigs)
        cov["rule"] = ("cases = one creator each: corpus of %d hand-picked layouts, then ALL layouts 1..%d per axis x 8 periodicity triples with random cells per subgrid (1..3 per axis) "
                       "and random copy-level vectors (6 modes: none, uniform 0..2, sparse, all equal, alternating 0/3, 0..3), half of them followed by update_copies with a second level vector, "
                       "then random larger layouts (an axis up to 7), all from SplitMix64(VERIF_SEED). evaluations = subgrids (originals and copies, both phases) whose 27 neighbour slots, original index, "
                       "get_copies result, folded counters and pushed state were compared line by line between the real creator and the extracted model; a case is non-trivial when some axis has <= 2 subgrids "
                       "and is periodic (a subgrid is its own neighbour / the same neighbour on both sides) or when it has copies; distinct = distinct (layout, periodicity, level vectors)") % (len(CORPUS), 3 if ck.quick else 4)
        cov["cases"] = len(lines)
        cov["case_mismatches"] = mism
        cov["case_histogram"] = hist
        cov["neighbour_slots_compared"] = evals * 27
        cov["samples"] = [{"case": lines[k][:200], "impl_out": impl_blocks[k][:4]} for k in (1, 2) if k < len(impl_blocks)]
    # search on break for layer 3: evaluate the property oracle on every dump of the real creator
    if ck.breaks and impl_blocks is not None:
        found = 0
        for k, l in enumerate(lines):
            why = wiring_oracle(l, impl_blocks[k] if k < len(impl_blocks) else [])
            if why:
                found += 1
                if found <= 3 and not any(isinstance(v["replay"], dict) and v["replay"].get("line") == l for v in ck.violations):
                    ck.violation("C03 fails on the real DensitySubGridCreator: " + why, {"kind": "wiring", "line": l, "failing_clause": why},
                                 key={"kind": "wiring", "clause": why.split(":")[0]})
        ck.notes.append("search-on-break: wiring oracle evaluated on %d dumps of the real creator, %d fail; table oracle on %d table entries, %d fail" % (len(lines), found, len(tlines), len(tbad)))
    # 4. layers 2 and 4: packets traced through the real creator vs. the extracted binary64 model + layout-independence oracle
    run_trace(ck)
    ck.assumptions += [
        "layers 2 and 4 (hand-over lemma, layout independence) are theorems about the REAL-NUMBER instance of the trace model Cxx/C03_TraceDefs.v (Cxx/C03_TraceProofs.v, Props/Properties_C03.v: "
        "C03_handover_same_point_adjacent_cell_same_depth, C03_trace_refines_reference, C03_layout_independence, C03_split_equals_undivided, C03_termination_transfer, C03_trace_through_copies); premises: source position "
        "in the half-open box, a non-zero direction component with cell size/|d| < DBL_MAX, non-negative opacities, positive target, both traces end within their fuel. The binary64 execution of the real code is tied to "
        "the model by run_trace (bit-exact comparison of every interact call and every estimator; its own assumptions are the entries appended by run_trace, listed before this one); agreement of layouts up to round-off "
        "is evidence from the split-vs-undivided oracle, not a theorem.",
        "direction tables: the Coq file C03_Gen.v holds what the real functions return on their whole finite domain (direction vectors are represented by 3 magnitudes per sign pattern: 1, the smallest denormal, infinity; "
        "zero as +0 and -0; NaN components are outside the domain); the dumper and the line->Coq formatter are trusted",
        "get_start_index is tabulated for a position in the middle cell of 1^3, 3^3 and 5^3 cells (it only selects between 0, n-1 and the computed index); exit classification is tabulated for 5 cell layouts "
        "and proved for all cell counts >= 1 on the model (mask arithmetic with C++ truncating division)",
        "wiring model: indices are mathematical integers; theorems assume the total number of subgrids (with copies) < 0xffffffff (the OUTSIDE sentinel, uint_least32_t slots) and copy levels <= 30 (1 << level in int)",
        "update_original_counters/update_copy_properties run their outer loop in parallel in the real code; the model runs it sequentially in index order (each iteration writes only its own original resp. its own copies)",
        "a per-subgrid integer counter stands for every per-cell mean-intensity/heating counter; the harness sets all cells of a subgrid to the same exactly representable value and checks they stay uniform",
        "update_copies leaves stale entries in _copies for subgrids that no longer have copies; all readers guard with _originals, the model's get_copies gives 'none' and the harness reports the public get_copies() range (compared on every run)",
    ]
    ck.resolve_breaks_without_input()


def replay(ck, rp):
    d = ck.scratch
    r = rp["replay"]
    if r.get("kind") == "table":
        ok, lines, log = dump_tables(d)
        bad = [b for b in table_oracle(lines) if b["function"] == r["function"] and [str(x) for x in b["input"]] == [str(x) for x in r["input"]]]
        for b in bad:
            print("%s(%s) = %s, expected %s (%s)" % (b["function"], b["input"], b["returned"], b["expected"], b["why"]))
        print("REPLAY:", "property fails on this input" if bad else "property holds on this input")
        return 1 if bad else 0
    if r.get("kind") == "wiring":
        ok3, log3 = vf.cxx_build(os.path.join(HARN, "wiring.cpp"), os.path.join(d, "impl"), openmp=True, extra=MPI)
        rc, out = vf.run_lines([os.path.join(d, "impl")], r["line"] + "\n", env={"OMP_NUM_THREADS": "2"})
        why = wiring_oracle(r["line"], out)
        print("\n".join(out[:60]))
        print("REPLAY:", why or "property holds on this input")
        return 1 if why else 0
    if r.get("kind") == "trace":
        return replay_trace(ck, r)
    print("REPLAY: nothing to replay (no failing input was found)")
    return 0
