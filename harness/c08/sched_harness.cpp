// C08 harness: the REAL containers (AtomicValue, ThreadLock, LockFree, ThreadSafeVector,
// MemorySpace, Task, TaskQueue) driven by real threads under a DETERMINISTIC scheduler.
// The yield hook (CMI_VERIF_YIELD, src/VerifHooks.hpp) is called immediately before every atomic
// operation; the function installed here blocks the calling thread until the scheduler hands it
// the baton, so exactly one thread runs between two yields.  After every step the scheduler (all
// client threads blocked) prints the atomic operation that was performed, the value of the atomic
// variable before and after, the return value if the client operation completed, and the complete
// shared state.  Input and output format: see ocaml/c08_driver.ml (identical text).
// Barriers ("|" in a program) end a parallel region; when every thread is idle and waits at a barrier
// (or has finished) the scheduler thread itself - the master thread, outside the parallel region, no
// yield points - calls the next NON-THREAD-SAFE pool method of qprog: clear(), clear_after(offset),
// get_free_elements(size), provided the contract of the method holds, and releases the barriers.
#include <algorithm>
#include <atomic>
#include <chrono>
#include <cinttypes>
#include <condition_variable>
#include <cstdio>
#include <cstdlib>
#include <cstring>
#include <deque>
#include <fstream>
#include <iostream>
#include <map>
#include <mutex>
#include <sstream>
#include <string>
#include <thread>
#include <vector>
#include <cmath>
#include <mpi.h>
#define private public
#include "VerifHooks.hpp"
#include "AtomicValue.hpp"
#include "LockFree.hpp"
#include "ThreadLock.hpp"
#include "ThreadSafeVector.hpp"
#include "Task.hpp"
#include "TaskQueue.hpp"
#include "MemorySpace.hpp"
#undef private

#ifndef CMI_VERIF_YIELD
#error "yield hook not present"
#endif

// ---------------------------------------------------------------- pool adapters
struct IPool {
  virtual ~IPool() {}
  virtual size_t get_safe() = 0;
  virtual size_t get_unsafe() = 0;
  virtual void free_slot(size_t i) = 0;
  virtual void q_clear() = 0;
  virtual void q_clear_after(size_t off) = 0;
  virtual void q_get_block(size_t n) = 0;
  virtual AtomicValue< size_t > &cursor() = 0;
  virtual AtomicValue< size_t > &taken() = 0;
  virtual AtomicValue< size_t > &maxtaken() = 0;
  virtual AtomicValue< size_t > &total() = 0;
  virtual AtomicValue< bool > *flags() = 0;
};
template < typename T > struct VecPool : public IPool {
  ThreadSafeVector< T > v;
  VecPool(size_t n) : v(n, "pool") {}
  size_t get_safe() { return v.get_free_element_safe(); }
  size_t get_unsafe() { return v.get_free_element(); }
  void free_slot(size_t i) { v.free_element(i); }
  void q_clear() { v.clear(); }
  void q_clear_after(size_t off) { v.clear_after(off); }
  void q_get_block(size_t n) { v.get_free_elements(n); }
  AtomicValue< size_t > &cursor() { return v._current_index; }
  AtomicValue< size_t > &taken() { return v._number_taken; }
  AtomicValue< size_t > &maxtaken() { return v._max_number_taken; }
  AtomicValue< size_t > &total() { return v._total_number_taken; }
  AtomicValue< bool > *flags() { return v._locks; }
};
// The buffers of a MemorySpace are part of the slot that is handed out: a buffer that get_free_buffer() returns is empty, and nobody but
// its holder changes it until the holder gives it back.  Every holder stamps its buffer with a packet count of its own (1..7) and
// looks at it again when it frees the slot.
struct MemPool : public IPool {
  MemorySpace m;
  size_t n;
  std::vector< uint_fast32_t > marks;
  uint_fast32_t stamp;
  MemPool(size_t n_) : m(n_), n(n_), marks(n_, 0), stamp(0) {}
  void mark(size_t i) {
    marks[i] = 1 + (stamp++ % 7);
    m[i].grow(marks[i]);
  }
  void wipe() {
    for (size_t i = 0; i < n; ++i) {
      marks[i] = 0;
      m[i].reset();
    }
  }
  size_t get_safe() {
    const size_t i = m.get_free_buffer();
    if (i < n) {
      if (m[i].size() != 0) {
        printf("! MemorySpace::get_free_buffer handed out buffer %zu while it still holds %u packets of its previous holder (a freed buffer "
               "must be empty before it can be taken again)\n",
               i, (unsigned)m[i].size());
        fflush(stdout);
      }
      mark(i);
    }
    return i;
  }
  size_t get_unsafe() {
    const size_t i = m._memory_space.get_free_element();
    if (i < n) {
      m[i].reset();
      mark(i);
    }
    return i;
  }
  void free_slot(size_t i) {
    if (i < n && marks[i] != 0 && m[i].size() != marks[i]) {
      printf("! the holder of MemorySpace buffer %zu stored %u packets in it and finds %u when it gives the buffer back: somebody else "
             "wrote to a buffer that was handed out\n",
             i, (unsigned)marks[i], (unsigned)m[i].size());
      fflush(stdout);
    }
    if (i < n) marks[i] = 0;
    m.free_buffer(i);
  }
  void q_clear() {
    m._memory_space.clear();
    wipe();
  }
  void q_clear_after(size_t off) {
    m._memory_space.clear_after(off);
    for (size_t i = off; i < n; ++i) {
      marks[i] = 0;
      m[i].reset();
    }
  }
  void q_get_block(size_t nb) { m._memory_space.get_free_elements(nb); }
  AtomicValue< size_t > &cursor() { return m._memory_space._current_index; }
  AtomicValue< size_t > &taken() { return m._memory_space._number_taken; }
  AtomicValue< size_t > &maxtaken() { return m._memory_space._max_number_taken; }
  AtomicValue< size_t > &total() { return m._memory_space._total_number_taken; }
  AtomicValue< bool > *flags() { return m._memory_space._locks; }
};

// ---------------------------------------------------------------- scheduler state
struct Abort {};
struct Op {
  char kind;
  long a, b;
  std::string text;
};
struct ThreadState {
  std::vector< std::string > prog;
  size_t pos;
  bool idle, quit, done, has_ret;
  const char *name;
  const volatile void *obj;
  Op cur;
  std::string ret;
  std::deque< size_t > held, hlocks, htasks; // newest first
  ThreadState() : pos(0), idle(true), quit(false), done(false), has_ret(false), name(""), obj(nullptr) {}
};
struct ObjInfo {
  std::string name;
  int type; // 0 bool, 1 size_t
};

static std::mutex mtx;
static std::condition_variable cv;
static int turn = -1;
static bool aborting = false;
static std::vector< ThreadState > T;
static thread_local int my_id = -1;
static std::map< const void *, ObjInfo > registry;

static void hang(const char *what) {
  printf("! hang: %s\n", what);
  fflush(stdout);
  _exit(3);
}

static void yield_fn(const char *name, const volatile void *obj) {
  if (my_id < 0) {
    return;
  }
  std::unique_lock< std::mutex > lk(mtx);
  T[my_id].name = name;
  T[my_id].obj = obj;
  turn = -1;
  cv.notify_all();
  cv.wait(lk, [&] { return turn == my_id; });
  if (aborting) {
    throw Abort();
  }
}

// ---------------------------------------------------------------- the case
struct Case {
  std::string id;
  int nthr, psize, nlocks, nctr, ntasks, nq, kind;
  unsigned long long cur0;
  std::vector< std::pair< int, std::pair< int, int > > > tasks;
  std::map< int, std::vector< std::string > > progs;
  std::vector< int > sched;
  std::vector< std::string > qprog;
  long cap;
  Case() : nthr(0), psize(1), nlocks(0), nctr(0), ntasks(0), nq(0), kind(0), cur0(0), cap(0) {}
};

static IPool *pool;
static ThreadLock *locks;
static AtomicValue< size_t > *ctr;
static AtomicValue< size_t > *mxc;
static size_t *lfc;
static ThreadSafeVector< Task > *tasktab;
static std::vector< TaskQueue * > queues;
static Case *C;

static void remove1(std::deque< size_t > &d, size_t x) {
  for (auto it = d.begin(); it != d.end(); ++it) {
    if (*it == x) {
      d.erase(it);
      return;
    }
  }
}

static std::string num(unsigned long long v) {
  std::ostringstream s;
  s << v;
  return s.str();
}

// next operation of idle thread t (drops tokens that are not applicable); false: program finished
static bool peek(int t, Op &op, bool consume) {
  ThreadState &ts = T[t];
  size_t pos = ts.pos;
  while (pos < ts.prog.size()) {
    const std::string &tok = ts.prog[pos];
    if (tok == "|") {
      break; // barrier: the thread waits here (tokens dropped on the way stay dropped)
    }
    ++pos;
    const char k = tok[0];
    long a = 0, b = 0;
    const std::string rest = tok.substr(1);
    const size_t colon = rest.find(':');
    if (rest.size() > 0) {
      a = atol(rest.substr(0, colon).c_str());
    }
    unsigned long long bb = 0;
    if (colon != std::string::npos) {
      bb = strtoull(rest.substr(colon + 1).c_str(), nullptr, 10);
      b = bb;
    }
    op.kind = k;
    op.a = a;
    op.b = b;
    bool ok = true;
    switch (k) {
    case 'g': op.text = "get"; break;
    case 'G': op.text = "getu"; break;
    case 'f':
      if (ts.held.empty()) { ok = false; } else { op.a = ts.held[a % ts.held.size()]; op.text = "free:" + num(op.a); }
      break;
    case 'l': op.text = "lock:" + num(a); break;
    case 't': op.text = "trylock:" + num(a); break;
    case 'u':
      if (ts.hlocks.empty()) { ok = false; } else { op.a = ts.hlocks[a % ts.hlocks.size()]; op.text = "unlock:" + num(op.a); }
      break;
    case 'i': op.text = "preinc:" + num(a); break;
    case 'p': op.text = "postinc:" + num(a); break;
    case 'm': op.text = "max:" + num(a) + ":" + num(bb); break;
    case 'a': op.text = "lfadd:" + num(a) + ":" + num(bb); break;
    case 's': op.text = "ctrsub:" + num(a) + ":" + num(bb); break; // AtomicValue::pre_subtract (not an operation of the model: oracle only)
    case 'e': op.text = "ctradd:" + num(a) + ":" + num(bb); break; // AtomicValue::pre_add
    case 'A': op.text = "add:" + num(a) + ":" + num(bb); break;
    case 'T': op.text = "gettask:" + num(a); break;
    case 'Y': op.text = "trygettask:" + num(a); break;
    case 'D': op.text = "lockdep:" + num(a); break;
    case 'U':
      if (ts.htasks.empty()) { ok = false; } else { op.a = ts.htasks[a % ts.htasks.size()]; op.text = "unlockdep:" + num(op.a); }
      break;
    default:
      printf("! bad token %s\n", tok.c_str());
      fflush(stdout);
      _exit(2);
    }
    if (ok) {
      if (consume) {
        ts.pos = pos;
      }
      return true;
    }
  }
  if (consume) {
    ts.pos = pos;
  }
  return false;
}

// executed by client thread t while it holds the baton
static void perform(int t, const Op &op) {
  ThreadState &ts = T[t];
  std::string ret = "-";
  switch (op.kind) {
  case 'g': {
    const size_t r = pool->get_safe();
    if (r < (size_t)C->psize) ts.held.push_front(r);
    ret = num(r);
    break;
  }
  case 'G': {
    const size_t r = pool->get_unsafe();
    if (r < (size_t)C->psize) ts.held.push_front(r);
    ret = num(r);
    break;
  }
  case 'f':
    pool->free_slot(op.a);
    remove1(ts.held, op.a);
    break;
  case 'l':
    locks[op.a].lock();
    ts.hlocks.push_front(op.a);
    break;
  case 't': {
    const bool b = locks[op.a].try_lock();
    if (b) ts.hlocks.push_front(op.a);
    ret = b ? "1" : "0";
    break;
  }
  case 'u':
    locks[op.a].unlock();
    remove1(ts.hlocks, op.a);
    break;
  case 'i': ret = num(ctr[op.a].pre_increment()); break;
  case 'p': ret = num(ctr[op.a].post_increment()); break;
  case 's': ret = num(ctr[op.a].pre_subtract((size_t)op.b)); break;
  case 'e': ret = num(ctr[op.a].pre_add((size_t)op.b)); break;
  case 'm': mxc[op.a].max((size_t)op.b); break;
  case 'a': LockFree::add(lfc[op.a], (size_t)op.b); break;
  case 'A': queues[op.a]->add_task(op.b); break;
  case 'T': {
    const size_t k = queues[op.a]->get_task(*tasktab);
    if (k != NO_TASK) { ts.htasks.push_front(k); ret = num(k); } else { ret = "none"; }
    break;
  }
  case 'Y': {
    const size_t k = queues[op.a]->try_get_task(*tasktab);
    if (k != NO_TASK) { ts.htasks.push_front(k); ret = num(k); } else { ret = "none"; }
    break;
  }
  case 'D': {
    const bool b = tasktab->_vector[op.a].lock_dependency();
    if (b) ts.htasks.push_front(op.a);
    ret = b ? "1" : "0";
    break;
  }
  case 'U':
    tasktab->_vector[op.a].unlock_dependency();
    remove1(ts.htasks, op.a);
    break;
  }
  ts.ret = ret;
  ts.has_ret = true;
}

static void thread_main(int id) {
  my_id = id;
  try {
    while (true) {
      {
        std::unique_lock< std::mutex > lk(mtx);
        cv.wait(lk, [&] { return turn == id; });
        if (T[id].quit || aborting) {
          break;
        }
        T[id].idle = false;
      }
      perform(id, T[id].cur);
      {
        std::unique_lock< std::mutex > lk(mtx);
        T[id].idle = true;
        turn = -1;
        cv.notify_all();
      }
    }
  } catch (Abort &) {
  }
  std::unique_lock< std::mutex > lk(mtx);
  T[id].done = true;
  turn = -1;
  cv.notify_all();
}

static unsigned long long read_obj(const volatile void *p, int type) {
  if (type == 0) {
    return ((const std::atomic< bool > *)p)->load() ? 1 : 0;
  }
  return ((const std::atomic< size_t > *)p)->load();
}

static void print_state() {
  std::string s = "= F:";
  for (int i = 0; i < C->psize; ++i) s += pool->flags()[i]._value.load() ? "1" : "0";
  s += " C:" + num(pool->cursor()._value.load()) + " N:" + num(pool->taken()._value.load()) +
       " M:" + num(pool->maxtaken()._value.load()) + " T:" + num(pool->total()._value.load());
  s += " L:";
  for (int i = 0; i < C->nlocks; ++i) s += locks[i]._lock._value.load() ? "1" : "0";
  s += " X:";
  for (int i = 0; i < C->nctr; ++i) s += (i ? "," : "") + num(ctr[i]._value.load());
  s += " Y:";
  for (int i = 0; i < C->nctr; ++i) s += (i ? "," : "") + num(((std::atomic< size_t > *)&lfc[i])->load());
  s += " Z:";
  for (int i = 0; i < C->nctr; ++i) s += (i ? "," : "") + num(mxc[i]._value.load());
  s += " Q:";
  for (int i = 0; i < C->nq; ++i) {
    if (i) s += ";";
    s += queues[i]->_queue_lock._lock._value.load() ? "1:" : "0:";
    for (size_t j = 0; j < queues[i]->_current_queue_size; ++j) s += (j ? "," : "") + num(queues[i]->_queue[j]);
  }
  s += " I:";
  for (int t = 0; t < C->nthr; ++t) s += T[t].idle ? "1" : "0";
  puts(s.c_str());
}

static long steps;

// hand the baton to thread t and wait until it comes back
static void run_thread(int t) {
  std::unique_lock< std::mutex > lk(mtx);
  turn = t;
  cv.notify_all();
  if (!cv.wait_for(lk, std::chrono::seconds(20), [&] { return turn == -1; })) {
    hang("a thread did not reach its next yield point within 20 s");
  }
}

static bool step_thread(int t) {
  ThreadState &ts = T[t];
  std::string name, objn;
  unsigned long long before = 0, after = 0;
  const volatile void *obj = nullptr;
  int type = 1;
  if (ts.idle) {
    Op op;
    if (!peek(t, op, true)) {
      return false;
    }
    ts.cur = op;
    name = "start";
    objn = op.text;
  } else {
    name = ts.name;
    obj = ts.obj;
    auto it = registry.find((const void *)obj);
    if (it == registry.end()) {
      objn = "unknown";
      obj = nullptr;
    } else {
      objn = it->second.name;
      type = it->second.type;
      before = read_obj(obj, type);
    }
  }
  ts.has_ret = false;
  run_thread(t);
  if (obj != nullptr) {
    after = read_obj(obj, type);
  }
  ++steps;
  printf("s %d %s %s %llu %llu%s\n", t, name.c_str(), objn.c_str(), before, after,
         ts.has_ret ? (" ret " + ts.ret).c_str() : "");
  print_state();
  return true;
}

// 0: an operation is available, 1: at a barrier, 2: program finished (idle threads only)
static int next_state(int t) {
  Op op;
  if (peek(t, op, true)) {
    // peek consumed the operation: undo (the dropped tokens before it stay dropped)
    --T[t].pos;
    return 0;
  }
  return (T[t].pos < T[t].prog.size() && T[t].prog[T[t].pos] == "|") ? 1 : 2;
}

static size_t qpos;

// serial section: every thread idle and at a barrier or finished
static bool maybe_serial() {
  if (steps >= C->cap) return false;
  bool at_barrier = false;
  std::vector< int > st(C->nthr, 2);
  for (int t = 0; t < C->nthr; ++t) {
    if (!T[t].idle) return false;
    st[t] = next_state(t);
    if (st[t] == 0) return false;
    if (st[t] == 1) at_barrier = true;
  }
  if (!at_barrier && qpos >= C->qprog.size()) return false;
  if (qpos < C->qprog.size()) {
    const std::string tok = C->qprog[qpos++];
    const std::string rest = tok.substr(1);
    const size_t colon = rest.find(':');
    const size_t a = rest.size() ? strtoull(rest.substr(0, colon).c_str(), nullptr, 10) : 0;
    const size_t b = colon != std::string::npos ? strtoull(rest.substr(colon + 1).c_str(), nullptr, 10) : 0;
    const size_t psize = C->psize;
    std::string text;
    bool ok = true;
    switch (tok[0]) {
    case 'c':
      text = "clear";
      if (ok) {
        pool->q_clear();
        for (int t = 0; t < C->nthr; ++t) T[t].held.clear();
      }
      break;
    case 'k':
      text = "clear_after:" + num(a);
      ok = a <= psize;
      for (size_t i = 0; ok && i < a; ++i) ok = pool->flags()[i]._value.load();
      if (ok) {
        pool->q_clear_after(a);
        for (int t = 0; t < C->nthr; ++t) {
          std::deque< size_t > keep;
          for (size_t x : T[t].held)
            if (x < a) keep.push_back(x);
          T[t].held = keep;
        }
      }
      break;
    case 'n':
      text = "get_free_elements:" + num(a) + ":" + num(b);
      ok = a < (size_t)C->nthr && b <= psize;
      for (size_t i = 0; ok && i < psize; ++i) ok = !pool->flags()[i]._value.load();
      if (ok) {
        pool->q_get_block(b);
        for (size_t i = 0; i < b; ++i) T[a].held.push_front(i);
      }
      break;
    default:
      printf("! bad quiescent token %s\n", tok.c_str());
      fflush(stdout);
      _exit(2);
    }
    std::string h = "H:";
    for (int t = 0; t < C->nthr; ++t) {
      if (t) h += ";";
      bool first = true;
      for (size_t x : T[t].held) {
        h += (first ? "" : ",") + num(x);
        first = false;
      }
    }
    printf("q %s %s %s\n", text.c_str(), ok ? "ok" : "skipped", h.c_str());
    print_state();
  }
  for (int t = 0; t < C->nthr; ++t) {
    if (st[t] == 1) ++T[t].pos;
  }
  return true;
}

static void run_case(Case &c) {
  C = &c;
  if (c.kind == 1) {
    pool = new MemPool(c.psize);
  } else {
    pool = new VecPool< Task >(c.psize);
  }
  pool->cursor().set(c.cur0);
  locks = new ThreadLock[std::max(c.nlocks, 1)];
  ctr = new AtomicValue< size_t >[std::max(c.nctr, 1)];
  mxc = new AtomicValue< size_t >[std::max(c.nctr, 1)];
  lfc = new size_t[std::max(c.nctr, 1)];
  for (int i = 0; i < std::max(c.nctr, 1); ++i) lfc[i] = 0;
  tasktab = new ThreadSafeVector< Task >(std::max(c.ntasks, 1), "tasks");
  for (auto &tk : c.tasks) {
    if (tk.second.first >= 0) tasktab->_vector[tk.first].set_dependency(&locks[tk.second.first]);
    if (tk.second.second >= 0) tasktab->_vector[tk.first].set_extra_dependency(&locks[tk.second.second]);
  }
  queues.clear();
  for (int i = 0; i < c.nq; ++i) queues.push_back(new TaskQueue(256, "queue"));
  registry.clear();
  for (int i = 0; i < c.psize; ++i) registry[(const void *)&pool->flags()[i]._value] = ObjInfo{"flag:" + num(i), 0};
  registry[(const void *)&pool->cursor()._value] = ObjInfo{"cursor", 1};
  registry[(const void *)&pool->taken()._value] = ObjInfo{"taken", 1};
  registry[(const void *)&pool->maxtaken()._value] = ObjInfo{"maxtaken", 1};
  registry[(const void *)&pool->total()._value] = ObjInfo{"total", 1};
  for (int i = 0; i < c.nlocks; ++i) registry[(const void *)&locks[i]._lock._value] = ObjInfo{"lock:" + num(i), 0};
  for (int i = 0; i < c.nctr; ++i) registry[(const void *)&ctr[i]._value] = ObjInfo{"ctr:" + num(i), 1};
  for (int i = 0; i < c.nctr; ++i) registry[(const void *)&lfc[i]] = ObjInfo{"lfc:" + num(i), 1};
  for (int i = 0; i < c.nctr; ++i) registry[(const void *)&mxc[i]._value] = ObjInfo{"mx:" + num(i), 1};
  for (int i = 0; i < c.nq; ++i) registry[(const void *)&queues[i]->_queue_lock._lock._value] = ObjInfo{"qlock:" + num(i), 0};

  T.clear();
  T.resize(c.nthr);
  for (int t = 0; t < c.nthr; ++t) {
    if (c.progs.count(t)) T[t].prog = c.progs[t];
  }
  turn = -1;
  aborting = false;
  steps = 0;
  qpos = 0;
  std::vector< std::thread > threads;
  for (int t = 0; t < c.nthr; ++t) threads.emplace_back(thread_main, t);

  printf("case %s\n", c.id.c_str());
  print_state();
  for (int t : c.sched) {
    while (maybe_serial()) {
    }
    if (t >= 0 && t < c.nthr && steps < c.cap) step_thread(t);
  }
  bool progress = true;
  while (progress && steps < c.cap) {
    progress = false;
    if (maybe_serial()) progress = true;
    for (int t = 0; t < c.nthr; ++t) {
      if (steps < c.cap && step_thread(t)) progress = true;
    }
  }
  bool unfinished = false;
  for (int t = 0; t < c.nthr; ++t) {
    Op op;
    if (!T[t].idle || peek(t, op, false)) unfinished = true;
  }
  printf("end %s steps=%ld %s\n", c.id.c_str(), steps, unfinished ? "capped" : "complete");
  // release every thread: blocked ones unwind by an exception thrown from the yield point
  {
    std::unique_lock< std::mutex > lk(mtx);
    aborting = true;
  }
  for (int t = 0; t < c.nthr; ++t) {
    std::unique_lock< std::mutex > lk(mtx);
    if (!T[t].done) {
      T[t].quit = true;
      turn = t;
      cv.notify_all();
      if (!cv.wait_for(lk, std::chrono::seconds(20), [&] { return T[t].done; })) {
        hang("a thread could not be released");
      }
    }
  }
  for (auto &th : threads) th.join();
  delete pool;
  delete[] locks;
  delete[] ctr;
  delete[] mxc;
  delete[] lfc;
  delete tasktab;
  for (auto q : queues) delete q;
  queues.clear();
}

int main(int argc, char **argv) {
  CMIVerifYieldHolder< 0 >::function = yield_fn;
  printf("sizeof_size_t %zu sizeof_atomic_bool %zu\n", sizeof(size_t), sizeof(AtomicValue< bool >));
  Case *c = new Case();
  std::string line;
  while (std::getline(std::cin, line)) {
    std::istringstream is(line);
    std::string w;
    if (!(is >> w)) continue;
    if (w == "case") {
      delete c;
      c = new Case();
      is >> c->id;
    } else if (w == "cfg") {
      is >> c->nthr >> c->psize >> c->cur0 >> c->nlocks >> c->nctr >> c->ntasks >> c->nq >> c->kind;
    } else if (w == "task") {
      int k, a, b;
      is >> k >> a >> b;
      c->tasks.push_back(std::make_pair(k, std::make_pair(a, b)));
    } else if (w == "prog") {
      int t;
      is >> t;
      std::string tok;
      while (is >> tok) c->progs[t].push_back(tok);
    } else if (w == "qprog") {
      std::string tok;
      while (is >> tok) c->qprog.push_back(tok);
    } else if (w == "sched") {
      int t;
      while (is >> t) c->sched.push_back(t);
    } else if (w == "tail") {
      is >> c->cap;
    } else if (w == "end") {
      run_case(*c);
      fflush(stdout);
    }
  }
  return 0;
}
