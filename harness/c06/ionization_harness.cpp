// C06 harness: the real IonizationStateCalculator / TemperatureCalculator functions on inputs
// given as bit patterns (16 hex digits per double), one request per line, one reply per line.
// The two .cpp files under test are compiled INTO this translation unit so that they get this
// harness' flags (-fno-builtin -ffp-contract=off: pow/exp/log/sqrt are real libm calls).
// The oracle classes (rates, cross sections, line cooling) are compiled in the same way, so the harness
// needs no libSharedEngine.a (a git worktree of the repo cannot build it: CMake wants .git/HEAD).
//
//   H aH jH nH                         -> H r             compute_ionization_state_hydrogen
//   E aH aHe jH jHe nH AHe T           -> E h0 he0 | E ABORT   compute_ionization_states_hydrogen_helium
//   M T j[12] ne nh0 nhe0 nhp          -> M f[12]         compute_ionization_states_metals (Verner rates at T)
//   R T                                -> R alpha[14] ctrH[14] ctrHe[14] ctiH[14]   (0 where the code never asks)
//   X nu                               -> X sigma[14]     VernerCrossSections
//   C jfac hfac mean[14] heat[2] n T AHe   -> C f[14] hH hHe | C ABORT
//                                         IonizationStateCalculator::calculate_ionization_state (one cell)
//   T eps maxit pah crfac crlim crscale tmin A[6] jfac hfac mean[14] heat[2] n Tinit crfcell z
//                                      -> T Tout f[14] hH hHe | T ABORT   TemperatureCalculator::calculate_temperature
//   OT <same fields as T>              -> OT ok           set up the ORACLE cell (no computation)
//   B T crfac                          -> B h0 he0 gain loss | B ABORT
//                                         compute_cooling_and_heating_balance on the oracle cell
//   F                                  -> F f[14]         ionic fractions held by the oracle cell
// abort() inside the code under test is caught (SIGABRT -> siglongjmp) and reported as ABORT.
#include <algorithm>
#include <cinttypes>
#include <cmath>
#include <csetjmp>
#include <csignal>
#include <cstdio>
#include <cstring>
#include <fstream>
#include <iostream>
#include <map>
#include <sstream>
#include <string>
#include <vector>

#include "IonizationStateCalculator.cpp"
#include "TemperatureCalculator.cpp"

#include "ChargeTransferRates.cpp"
#include "LineCoolingData.cpp"
#include "VernerCrossSections.cpp"
#include "VernerRecombinationRates.cpp"

static double b2d(uint64_t b) { double d; std::memcpy(&d, &b, 8); return d; }
static uint64_t d2b(double d) { uint64_t b; std::memcpy(&b, &d, 8); return b; }

static sigjmp_buf jb;
static void on_abort(int) { siglongjmp(jb, 1); }

static bool rd(std::istringstream &s, double &d) {
  uint64_t w;
  if (!(s >> std::hex >> w))
    return false;
  d = b2d(w);
  return true;
}
static void pr(double d) { printf(" %016" PRIx64, d2b(d)); }

struct TCase {
  double eps, maxit, pah, crfac, crlim, crscale, tmin, A[6], jfac, hfac, mean[14], heat[2], n, Tinit, crfcell, z;
  bool read(std::istringstream &s) {
    bool ok = rd(s, eps) && rd(s, maxit) && rd(s, pah) && rd(s, crfac) && rd(s, crlim) && rd(s, crscale) && rd(s, tmin);
    for (int i = 0; i < 6; ++i) ok = ok && rd(s, A[i]);
    ok = ok && rd(s, jfac) && rd(s, hfac);
    for (int i = 0; i < 14; ++i) ok = ok && rd(s, mean[i]);
    ok = ok && rd(s, heat[0]) && rd(s, heat[1]) && rd(s, n) && rd(s, Tinit) && rd(s, crfcell) && rd(s, z);
    return ok;
  }
  void fill(IonizationVariables &iv) const {
    for (int i = 0; i < 14; ++i) { iv.set_mean_intensity(i, mean[i]); iv.set_ionic_fraction(i, 0.); }
    iv.set_heating(HEATINGTERM_H, heat[0]);
    iv.set_heating(HEATINGTERM_He, heat[1]);
    iv.set_number_density(n);
    iv.set_temperature(Tinit);
    iv.set_cosmic_ray_factor(crfcell);
  }
};

int main() {
  static_assert(NUMBER_OF_IONNAMES == 14, "model assumes the 14 default ions");
  struct sigaction sa;
  std::memset(&sa, 0, sizeof sa);
  sa.sa_handler = on_abort;
  sa.sa_flags = SA_NODEFER;
  sigaction(SIGABRT, &sa, nullptr);

  VernerRecombinationRates rr;
  ChargeTransferRates ctr;
  VernerCrossSections xs;
  LineCoolingData lcd;

  TCase oc;                       // oracle case
  IonizationVariables ocell;      // oracle cell
  Abundances oab(0., 0., 0., 0., 0., 0.);
  double oj[14], oh[2];

  std::string line;
  while (std::getline(std::cin, line)) {
    std::istringstream s(line);
    std::string op;
    if (!(s >> op))
      continue;
    if (op == "H") {
      double a, j, n;
      rd(s, a); rd(s, j); rd(s, n);
      printf("H");
      pr(IonizationStateCalculator::compute_ionization_state_hydrogen(a, j, n));
      printf("\n");
    } else if (op == "E") {
      double v[7];
      for (int i = 0; i < 7; ++i) rd(s, v[i]);
      double h0 = -1., he0 = -1.;
      if (sigsetjmp(jb, 1) == 0) {
        IonizationStateCalculator::compute_ionization_states_hydrogen_helium(v[0], v[1], v[2], v[3], v[4], v[5], v[6], h0, he0);
        printf("E"); pr(h0); pr(he0); printf("\n");
      } else
        printf("E ABORT\n");
    } else if (op == "M") {
      double T, j[12], ne, nh0, nhe0, nhp;
      rd(s, T);
      for (int i = 0; i < 12; ++i) rd(s, j[i]);
      rd(s, ne); rd(s, nh0); rd(s, nhe0); rd(s, nhp);
      IonizationVariables iv;
      if (sigsetjmp(jb, 1) == 0) {
        IonizationStateCalculator::compute_ionization_states_metals(j, ne, T, T * 1.e-4, nh0, nhe0, nhp, rr, ctr, iv);
        printf("M");
        for (int i = 2; i < 14; ++i) pr(iv.get_ionic_fraction(i));
        printf("\n");
      } else
        printf("M ABORT\n");
    } else if (op == "R") {
      double T;
      rd(s, T);
      const double T4 = T * 1.e-4;
      if (sigsetjmp(jb, 1) == 0) {
        printf("R");
        for (int i = 0; i < 14; ++i) pr(rr.get_recombination_rate(i, T));
        // charge transfer: only the (ion, function) pairs the code under test asks for
        const bool rH[14] = {0, 0, 0, 1, 1, 1, 1, 1, 1, 0, 1, 1, 1, 1};
        const bool rHe[14] = {0, 0, 0, 1, 0, 1, 1, 0, 1, 0, 1, 0, 1, 1};
        const bool iH[14] = {0, 0, 0, 0, 1, 0, 0, 1, 0, 0, 0, 0, 0, 0};
        for (int i = 0; i < 14; ++i) pr(rH[i] ? ctr.get_charge_transfer_recombination_rate_H(i, T4) : 0.);
        for (int i = 0; i < 14; ++i) pr(rHe[i] ? ctr.get_charge_transfer_recombination_rate_He(i, T4) : 0.);
        for (int i = 0; i < 14; ++i) pr(iH[i] ? ctr.get_charge_transfer_ionization_rate_H(i, T4) : 0.);
        printf("\n");
      } else
        printf("R ABORT\n");
    } else if (op == "X") {
      double nu;
      rd(s, nu);
      printf("X");
      for (int i = 0; i < 14; ++i) pr(xs.get_cross_section(i, nu));
      printf("\n");
    } else if (op == "C") {
      double jfac, hfac, mean[14], heat[2], n, T, AHe;
      rd(s, jfac); rd(s, hfac);
      for (int i = 0; i < 14; ++i) rd(s, mean[i]);
      rd(s, heat[0]); rd(s, heat[1]); rd(s, n); rd(s, T); rd(s, AHe);
      Abundances ab(AHe, 0., 0., 0., 0., 0.);
      IonizationStateCalculator calc(1., ab, rr, ctr);
      IonizationVariables iv;
      for (int i = 0; i < 14; ++i) iv.set_mean_intensity(i, mean[i]);
      iv.set_heating(HEATINGTERM_H, heat[0]);
      iv.set_heating(HEATINGTERM_He, heat[1]);
      iv.set_number_density(n);
      iv.set_temperature(T);
      if (sigsetjmp(jb, 1) == 0) {
        calc.calculate_ionization_state(jfac, hfac, iv);
        printf("C");
        for (int i = 0; i < 14; ++i) pr(iv.get_ionic_fraction(i));
        pr(iv.get_heating(HEATINGTERM_H)); pr(iv.get_heating(HEATINGTERM_He));
        printf("\n");
      } else
        printf("C ABORT\n");
    } else if (op == "T") {
      TCase tc;
      if (!tc.read(s)) { printf("T BADINPUT\n"); fflush(stdout); continue; }
      Abundances ab(tc.A[0], tc.A[1], tc.A[2], tc.A[3], tc.A[4], tc.A[5]);
      TemperatureCalculator calc(true, 0, 1., ab, tc.eps, (uint_fast32_t)tc.maxit, tc.pah, tc.crfac, tc.crlim, tc.crscale,
                                 tc.tmin, lcd, rr, ctr, nullptr);
      IonizationVariables iv;
      tc.fill(iv);
      if (sigsetjmp(jb, 1) == 0) {
        calc.calculate_temperature(iv, tc.jfac, tc.hfac, CoordinateVector<>(0., 0., tc.z));
        printf("T"); pr(iv.get_temperature());
        for (int i = 0; i < 14; ++i) pr(iv.get_ionic_fraction(i));
        pr(iv.get_heating(HEATINGTERM_H)); pr(iv.get_heating(HEATINGTERM_He));
        printf("\n");
      } else
        printf("T ABORT\n");
    } else if (op == "OT") {
      if (!oc.read(s)) { printf("OT BADINPUT\n"); fflush(stdout); continue; }
      oab = Abundances(oc.A[0], oc.A[1], oc.A[2], oc.A[3], oc.A[4], oc.A[5]);
      ocell = IonizationVariables();
      oc.fill(ocell);
      for (int i = 0; i < 14; ++i) oj[i] = oc.jfac * oc.mean[i];
      for (int i = 0; i < 2; ++i) oh[i] = oc.hfac * oc.heat[i];
      printf("OT ok\n");
    } else if (op == "B") {
      double T, crfac;
      rd(s, T); rd(s, crfac);
      double h0 = -1., he0 = -1., gain = -1., loss = -1.;
      if (sigsetjmp(jb, 1) == 0) {
        TemperatureCalculator::compute_cooling_and_heating_balance(h0, he0, gain, loss, T, ocell, CoordinateVector<>(0., 0., oc.z), oj,
                                                                   oab, oh, oc.pah, crfac, oc.crscale, lcd, rr, ctr);
        printf("B"); pr(h0); pr(he0); pr(gain); pr(loss); printf("\n");
      } else
        printf("B ABORT\n");
    } else if (op == "F") {
      printf("F");
      for (int i = 0; i < 14; ++i) pr(ocell.get_ionic_fraction(i));
      printf("\n");
    } else
      printf("? %s\n", line.c_str());
    fflush(stdout);
  }
  return 0;
}
