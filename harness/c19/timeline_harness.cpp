// C19 correspondence harness: drives the real TimeLine with the operations read from stdin.
#include <cinttypes>
#include <cstdio>
#include <cstring>
#include <fstream>
#include <iostream>
#include <sstream>
#include <string>
#include <vector>
#include <algorithm>
#include <map>
#define private public
#include "TimeLine.hpp"
#undef private

static double b2d(uint64_t b) { double d; std::memcpy(&d, &b, 8); return d; }
static uint64_t d2b(double d) { uint64_t b; std::memcpy(&b, &d, 8); return b; }

int main(int argc, char **argv) {
  std::string tmp = argc > 1 ? argv[1] : "c19_restart.tmp";
  TimeLine *tl = nullptr;
  bool ended = false;
  char op;
  while (std::cin >> op) {
    if (op == 'C') {
      uint64_t s, e, mn, mx;
      std::cin >> std::hex >> s >> e >> mn >> mx;
      delete tl;
      tl = new TimeLine(b2d(s), b2d(e), b2d(mn), b2d(mx));
      ended = false;
      printf("C %" PRIu64 " %" PRIu64 " %" PRIu64 " %016" PRIx64 " %016" PRIx64 "\n", tl->_minimum_timestep,
             tl->_maximum_timestep, tl->_current_time, d2b(tl->_conversion_factors[0]),
             d2b(tl->_conversion_factors[1]));
    } else if (op == 'A') {
      uint64_t r;
      std::cin >> std::hex >> r;
      if (ended) {
        printf("A skipped\n");
        continue;
      }
      double actual = 0., now = 0.;
      const uint64_t before = tl->_current_time;
      const bool ret = tl->advance(b2d(r), actual, now);
      if (!ret)
        ended = true;
      printf("A %d %016" PRIx64 " %016" PRIx64 " %" PRIu64 " %" PRIu64 "\n", ret ? 1 : 0, d2b(actual), d2b(now),
             tl->_current_time - before, tl->_current_time);
    } else if (op == 'R') {
      {
        RestartWriter w(tmp);
        tl->write_restart_file(w);
      }
      std::ifstream f(tmp, std::ios::binary);
      std::vector<unsigned char> bytes((std::istreambuf_iterator<char>(f)), std::istreambuf_iterator<char>());
      printf("R %zu", bytes.size());
      for (size_t i = 0; i + 8 <= bytes.size(); i += 8) {
        uint64_t w;
        std::memcpy(&w, &bytes[i], 8);
        printf(" %016" PRIx64, w);
      }
      printf("\n");
      {
        RestartReader r(tmp);
        TimeLine *n = new TimeLine(r);
        delete tl;
        tl = n;
      }
    }
  }
  delete tl;
  std::remove(tmp.c_str());
  return 0;
}
