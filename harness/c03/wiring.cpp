// C03 correspondence harness: builds a real DensitySubGridCreator<DensitySubGrid> per input line and dumps the neighbour
// table of every subgrid and copy, the originals/copies arrays, and the effect of update_original_counters and
// update_copy_properties.  Same line protocol as ocaml/c03_driver.ml.
//
// input line:  nx ny nz px py pz cx cy cz w0 lv[0..N-1] u [lv2[0..N-1] if u = 1]
#include <cinttypes>
#include <cstdio>
#include <cstring>
#include <iostream>
#include <sstream>
#include <string>
#include <vector>
#define private public
#define protected public
#include "DensitySubGridCreator.hpp"
#include "HomogeneousDensityFunction.hpp"
#undef private
#undef protected

typedef DensitySubGridCreator< DensitySubGrid > Creator;

static long lval(double v) { return (long)v; }

// print v if all cells carry the same integer value, NONUNIFORM otherwise
template < typename F > static void cellval(DensitySubGrid &g, F f, std::string &out) {
  const size_t nc = g.get_number_of_cells();
  const double v0 = f(g._ionization_variables[0]);
  bool uni = (v0 == (double)lval(v0));
  for (size_t i = 1; i < nc; ++i)
    uni = uni && f(g._ionization_variables[i]) == v0;
  char b[64];
  if (uni)
    sprintf(b, " %ld", lval(v0));
  else
    sprintf(b, " NONUNIFORM");
  out += b;
}

static void dump(Creator &c, long w0, const char *tag) {
  const size_t N = c.number_of_original_subgrids();
  const size_t T = c.number_of_actual_subgrids();
  printf("%s N %zu T %zu NO %zu\n", tag, N, T, c._originals.size());
  for (size_t s = 0; s < T; ++s) {
    DensitySubGrid &g = *c.get_subgrid(s);
    long orig = (s < N) ? (long)s : ((s - N < c._originals.size()) ? (long)c._originals[s - N] : -1);
    printf("S %zu O %ld :", s, orig);
    for (int d = 0; d < TRAVELDIRECTION_NUMBER; ++d)
      printf(" %" PRIuFAST32, g.get_neighbour(d));
    printf("\n");
  }
  // per original: first copy as the code's public iterator interface reports it, and the number of copies
  for (size_t i = 0; i < N; ++i) {
    auto pr = c.get_subgrid(i).get_copies();
    const size_t a = pr.first.get_index(), b = pr.second.get_index();
    if (a == b)
      printf("C %zu none 0\n", i);
    else
      printf("C %zu %zu %zu\n", i, a, b - a);
  }
  // folding: mean intensity w_s = w0 + s*(s+3), heating 2*w_s+1
  for (size_t s = 0; s < T; ++s) {
    DensitySubGrid &g = *c.get_subgrid(s);
    const double w = (double)(w0 + (long)s * ((long)s + 3));
    for (size_t i = 0; i < g.get_number_of_cells(); ++i) {
      g._ionization_variables[i].set_mean_intensity(ION_H_n, w);
      g._ionization_variables[i].set_heating(HEATINGTERM_H, 2. * w + 1.);
      g._ionization_variables[i].set_ionic_fraction(ION_H_n, (double)(w0 + 2 * (long)s + 1));
      g._ionization_variables[i].set_number_density((double)(w0 + 3 * (long)s + 2));
      g._ionization_variables[i].set_temperature((double)(5 * (long)s + 7));
    }
  }
  c.update_original_counters();
  std::string l1 = "F", l2 = "H";
  for (size_t s = 0; s < T; ++s) {
    DensitySubGrid &g = *c.get_subgrid(s);
    cellval(g, [](IonizationVariables &v) { return v.get_mean_intensity(ION_H_n); }, l1);
    cellval(g, [](IonizationVariables &v) { return v.get_heating(HEATINGTERM_H); }, l2);
  }
  printf("%s\n%s\n", l1.c_str(), l2.c_str());
  c.update_copy_properties();
  std::string p1 = "PX", p2 = "PN", p3 = "PT", p4 = "PJ", p5 = "PH";
  for (size_t s = 0; s < T; ++s) {
    DensitySubGrid &g = *c.get_subgrid(s);
    cellval(g, [](IonizationVariables &v) { return v.get_ionic_fraction(ION_H_n); }, p1);
    cellval(g, [](IonizationVariables &v) { return v.get_number_density(); }, p2);
    cellval(g, [](IonizationVariables &v) { return v.get_temperature(); }, p3);
    cellval(g, [](IonizationVariables &v) { return v.get_mean_intensity(ION_H_n); }, p4);
    cellval(g, [](IonizationVariables &v) { return v.get_heating(HEATINGTERM_H); }, p5);
  }
  printf("%s\n%s\n%s\n%s\n%s\n", p1.c_str(), p2.c_str(), p3.c_str(), p4.c_str(), p5.c_str());
}

int main() {
  std::string line;
  while (std::getline(std::cin, line)) {
    std::istringstream is(line);
    long nx, ny, nz, px, py, pz, cx, cy, cz, w0;
    if (!(is >> nx >> ny >> nz >> px >> py >> pz >> cx >> cy >> cz >> w0))
      continue;
    const size_t N = nx * ny * nz;
    std::vector< uint_fast8_t > lv(N, 0), lv2(N, 0);
    for (size_t i = 0; i < N; ++i) {
      long l;
      is >> l;
      lv[i] = l;
    }
    long u = 0;
    is >> u;
    if (u)
      for (size_t i = 0; i < N; ++i) {
        long l;
        is >> l;
        lv2[i] = l;
      }
    printf("CASE %ld %ld %ld %ld %ld %ld %ld %ld %ld %ld\n", nx, ny, nz, px, py, pz, cx, cy, cz, w0);
    const CoordinateVector<> anchor(0., 0., 0.);
    const CoordinateVector<> sides((double)(nx * cx), (double)(ny * cy), (double)(nz * cz));
    Creator creator(Box<>(anchor, sides), CoordinateVector< int_fast32_t >(nx * cx, ny * cy, nz * cz),
                    CoordinateVector< int_fast32_t >(nx, ny, nz), CoordinateVector< bool >(px != 0, py != 0, pz != 0));
    HomogeneousDensityFunction df(1., 8000.);
    creator.initialize(df);
    creator.create_copies(lv);
    dump(creator, w0, "A");
    if (u) {
      creator.update_copies(lv2);
      dump(creator, w0 + 1, "U");
    }
    fflush(stdout);
  }
  return 0;
}
