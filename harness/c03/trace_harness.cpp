// C03 trace harness (layers 2 and 4): builds a REAL DensitySubGridCreator<DensitySubGrid> and traces single packets through
// it exactly as the task loop of src/PhotonTraversalTaskContext.hpp (execute) does:
//     igrid = creator.get_subgrid(position).get_index(); input = TRAVELDIRECTION_INSIDE            (source tasks)
//     loop: result = subgrid[igrid].interact(photon, input)
//           result == TRAVELDIRECTION_INSIDE -> absorbed
//           ngb = subgrid[igrid].get_neighbour(result); ngb == NEIGHBOUR_OUTSIDE -> escaped       (store_photon: no buffer)
//           igrid = ngb; input = TravelDirections::output_to_input_direction(result)             (same PhotonPacket object)
// Same line protocol as ocaml/c03t_driver.ml.  Doubles are the 16 hex digits of their bit pattern, integers decimal.
//   G ax ay az sx sy sz Nx Ny Nz mx my mz px py pz    new grid: box anchor, box sides, GLOBAL number of cells, number of
//                                                     subgrids, periodicity flags              -> "G <nsub> <cells per subgrid>"
//   F {n xH xHe}*Nx*Ny*Nz                             cell contents in GLOBAL cell order ((X*Ny)+Y)*Nz+Z -> "F <ncells>"
//   C lv_0 .. lv_{nsub-1}                             create_copies(levels) (after F)                -> "C <total subgrids>"
//   P sel px py pz dx dy dz tau w energy s_0 .. s_{NIONS-1}
//        sel = 0: start in get_subgrid(position); sel = k > 0: in its copy number ((k-1) mod ncopies)+1 (the original if none)
// answer to P:
//   T <absorbed|escaped|fuel|err> <ncalls> px py pz tau                  packet at the end (fuel: more than 1200 calls; only the
//                                                                        first 64 S lines are printed then)
//   S <sub> <input> px py pz tau  rx ry rz  i j k  <out> qx qy qz tau'   one per interact call: packet before the call, what the
//        first lines of interact compute (position - _anchor after update_photon_position; get_start_index), returned
//        direction, packet after the call
//   E <k> {sub cell J_0 .. J_{NIONS-1} h_0 ..}*k                         every (subgrid, cell) whose estimators changed
#include <cinttypes>
#include <cmath>
#include <cstdio>
#include <cstdlib>
#include <cstring>
#include <iostream>
#include <sstream>
#include <string>
#include <vector>
#define private public
#define protected public
#include "DensitySubGridCreator.hpp"
#include "HomogeneousDensityFunction.hpp"
#include "PhotonPacket.hpp"
#include "TravelDirections.hpp"
#undef private
#undef protected

typedef DensitySubGridCreator< DensitySubGrid > Creator;

static const long MAXCALLS = 1200;   // interact calls per packet ('fuel' beyond)
static const long FUELSHOWN = 64;    // a packet that ends with 'fuel' prints only its first FUELSHOWN calls

static double b2d(uint64_t b) { double d; std::memcpy(&d, &b, 8); return d; }
static uint64_t d2b(double d) { uint64_t b; std::memcpy(&b, &d, 8); return b; }
static double rd(std::istream &s) { uint64_t b = 0; s >> std::hex >> b; return b2d(b); }
static void hx(std::string &o, double v) { char b[32]; snprintf(b, sizeof b, " %016" PRIx64, d2b(v)); o += b; }
static void in(std::string &o, long v) { char b[32]; snprintf(b, sizeof b, " %ld", v); o += b; }

static void reset_estimators(Creator &c) {
  const size_t T = c.number_of_actual_subgrids();
  for (size_t s = 0; s < T; ++s) {
    DensitySubGrid &g = *c.get_subgrid(s);
    for (auto it = g.begin(); it != g.end(); ++it) {
      IonizationVariables &iv = it.get_ionization_variables();
      for (int i = 0; i < NUMBER_OF_IONNAMES; ++i)
        iv.set_mean_intensity(i, 0.);
      for (int i = 0; i < NUMBER_OF_HEATINGTERMS; ++i)
        iv.set_heating(i, 0.);
    }
  }
}

int main(int argc, char **argv) {
  if (argc > 1 && std::string(argv[1]) == "--info") {
    int helium = 0, varab = 0, lockfree = 0, asserts = 0;
#ifdef HAS_HELIUM
    helium = 1;
#endif
#ifdef VARIABLE_ABUNDANCES
    varab = 1;
#endif
#ifdef USE_LOCKFREE
    lockfree = 1;
#endif
#ifdef ACTIVATE_ASSERTIONS
    asserts = 1;
#endif
    printf("nions %d helium %d variable_abundances %d lockfree %d heatingterms %d ion_H %d ion_He %d intsize %zu assertions %d maxcalls %ld\n",
           (int)NUMBER_OF_IONNAMES, helium, varab, lockfree, (int)NUMBER_OF_HEATINGTERMS, (int)ION_H_n,
#ifdef HAS_HELIUM
           (int)ION_He_n,
#else
           -1,
#endif
           sizeof(int_fast32_t), asserts, MAXCALLS);
    return 0;
  }
  Creator *creator = nullptr;
  long N[3] = {1, 1, 1}, m[3] = {1, 1, 1}, c[3] = {1, 1, 1};
  bool copies_made = false;
  std::string line;
  while (std::getline(std::cin, line)) {
    if (line.empty())
      continue;
    std::istringstream s(line);
    char op;
    s >> op;
    if (op == 'G') {
      double box[6];
      for (int i = 0; i < 6; ++i)
        box[i] = rd(s);
      long p[3];
      s >> std::dec >> N[0] >> N[1] >> N[2] >> m[0] >> m[1] >> m[2] >> p[0] >> p[1] >> p[2];
      delete creator;
      creator = new Creator(Box<>(CoordinateVector<>(box[0], box[1], box[2]), CoordinateVector<>(box[3], box[4], box[5])),
                            CoordinateVector< int_fast32_t >(N[0], N[1], N[2]), CoordinateVector< int_fast32_t >(m[0], m[1], m[2]),
                            CoordinateVector< bool >(p[0] != 0, p[1] != 0, p[2] != 0));
      HomogeneousDensityFunction df(1., 8000.);
      creator->initialize(df);
      copies_made = false;
      for (int i = 0; i < 3; ++i)
        c[i] = creator->_subgrid_number_of_cells[i];
      reset_estimators(*creator);
      printf("G %ld %ld\n", (long)creator->number_of_original_subgrids(), c[0] * c[1] * c[2]);
    } else if (op == 'F') {
      const long ncell = N[0] * N[1] * N[2];
      std::vector< double > v(3 * ncell);
      for (long i = 0; i < 3 * ncell; ++i)
        v[i] = rd(s);
      const size_t ns = creator->number_of_original_subgrids();
      long done = 0;
      for (size_t sg = 0; sg < ns; ++sg) {
        // lattice position of the subgrid: the creator's own function
        const CoordinateVector< int_fast32_t > j = creator->get_grid_position(sg);
        DensitySubGrid &g = *creator->get_subgrid(sg);
        for (auto it = g.begin(); it != g.end(); ++it) {
          const long l = it.get_index();
          const long lx = l / (c[1] * c[2]), ly = (l / c[2]) % c[1], lz = l % c[2];
          const long gc = ((j[0] * c[0] + lx) * N[1] + (j[1] * c[1] + ly)) * N[2] + (j[2] * c[2] + lz);
          IonizationVariables &iv = it.get_ionization_variables();
          iv.set_number_density(v[3 * gc]);
          iv.set_ionic_fraction(ION_H_n, v[3 * gc + 1]);
#ifdef HAS_HELIUM
          iv.set_ionic_fraction(ION_He_n, v[3 * gc + 2]);
#endif
          ++done;
        }
      }
      printf("F %ld\n", done);
    } else if (op == 'C') {
      const size_t ns = creator->number_of_original_subgrids();
      std::vector< uint_fast8_t > lv(ns, 0);
      for (size_t i = 0; i < ns; ++i) {
        long l = 0;
        s >> std::dec >> l;
        lv[i] = l;
      }
      if (copies_made)
        creator->update_copies(lv);
      else
        creator->create_copies(lv);
      copies_made = true;
      reset_estimators(*creator);
      printf("C %ld\n", (long)creator->number_of_actual_subgrids());
    } else if (op == 'P') {
      long sel;
      s >> std::dec >> sel;
      double v[9];
      for (int i = 0; i < 9; ++i)
        v[i] = rd(s);
      PhotonPacket photon;
      photon.set_position(CoordinateVector<>(v[0], v[1], v[2]));
      photon.get_direction() = CoordinateVector<>(v[3], v[4], v[5]);   // set_direction would renormalise
      photon.set_target_optical_depth(v[6]);
      photon.set_weight(v[7]);
      photon.set_energy(v[8]);
      for (int i = 0; i < NUMBER_OF_IONNAMES; ++i)
        photon.set_photoionization_cross_section(i, rd(s));
      const size_t ns = creator->number_of_original_subgrids();
      const size_t T = creator->number_of_actual_subgrids();
      // SourceDiscretePhotonTaskContext / SourceContinuousPhotonTaskContext: subgrid of the position, direction INSIDE
      size_t igrid = creator->get_subgrid(photon.get_position()).get_index();
      std::string steps;
      size_t shown = std::string::npos;
      const char *end = "err";
      long ncalls = 0;
      if (igrid < ns) {
        if (sel > 0) {
          auto pr = creator->get_subgrid(igrid).get_copies();
          const size_t a = pr.first.get_index(), b = pr.second.get_index();
          if (b > a)
            igrid = a + (size_t)((sel - 1) % (long)(b - a));
        }
        int_fast32_t input = TRAVELDIRECTION_INSIDE;
        while (true) {
          if (ncalls == MAXCALLS) {
            end = "fuel";
            break;
          }
          if (igrid >= T) {
            end = "err";
            break;
          }
          DensitySubGrid &g = *creator->get_subgrid(igrid);
          if (ncalls == FUELSHOWN)
            shown = steps.size();
          steps += "S";
          in(steps, (long)igrid);
          in(steps, (long)input);
          const CoordinateVector<> p0 = photon.get_position();
          hx(steps, p0[0]); hx(steps, p0[1]); hx(steps, p0[2]);
          hx(steps, photon.get_target_optical_depth());
          // what the first lines of interact compute, with the real member functions
          CoordinateVector<> rel = photon.get_position() - g._anchor;
          g.update_photon_position(input, rel);
          CoordinateVector< int_fast32_t > ti;
          g.get_start_index(rel, input, ti);
          hx(steps, rel[0]); hx(steps, rel[1]); hx(steps, rel[2]);
          in(steps, (long)ti[0]); in(steps, (long)ti[1]); in(steps, (long)ti[2]);
          const int_fast32_t result = g.interact(photon, input);
          ++ncalls;
          in(steps, (long)result);
          const CoordinateVector<> p1 = photon.get_position();
          hx(steps, p1[0]); hx(steps, p1[1]); hx(steps, p1[2]);
          hx(steps, photon.get_target_optical_depth());
          steps += "\n";
          if (result == TRAVELDIRECTION_INSIDE) {
            end = "absorbed";
            break;
          }
          if (result < 0 || result >= TRAVELDIRECTION_NUMBER) {
            end = "err";
            break;
          }
          const uint_fast32_t ngb = g.get_neighbour(result);
          if (ngb == NEIGHBOUR_OUTSIDE) {
            end = "escaped";
            break;
          }
          igrid = ngb;
          input = TravelDirections::output_to_input_direction(result);
        }
      }
      std::string t = "T ";
      t += end;
      in(t, ncalls);
      const CoordinateVector<> pe = photon.get_position();
      hx(t, pe[0]); hx(t, pe[1]); hx(t, pe[2]);
      hx(t, photon.get_target_optical_depth());
      fputs(t.c_str(), stdout);
      fputs("\n", stdout);
      if (std::string(end) == "fuel" && shown != std::string::npos)
        steps.resize(shown);
      fputs(steps.c_str(), stdout);
      // estimators: every (subgrid, cell) that changed, then back to 0
      std::string e;
      long k = 0;
      const uint64_t z = d2b(0.);
      for (size_t sg = 0; sg < T; ++sg) {
        DensitySubGrid &g = *creator->get_subgrid(sg);
        for (auto it = g.begin(); it != g.end(); ++it) {
          IonizationVariables &iv = it.get_ionization_variables();
          bool changed = false;
          for (int i = 0; i < NUMBER_OF_IONNAMES; ++i)
            changed |= d2b(iv.get_mean_intensity(i)) != z;
          for (int i = 0; i < NUMBER_OF_HEATINGTERMS; ++i)
            changed |= d2b(iv.get_heating(i)) != z;
          if (changed) {
            ++k;
            in(e, (long)sg);
            in(e, (long)it.get_index());
            for (int i = 0; i < NUMBER_OF_IONNAMES; ++i) {
              hx(e, iv.get_mean_intensity(i));
              iv.set_mean_intensity(i, 0.);
            }
            for (int i = 0; i < NUMBER_OF_HEATINGTERMS; ++i) {
              hx(e, iv.get_heating(i));
              iv.set_heating(i, 0.);
            }
          }
        }
      }
      printf("E %ld%s\n", k, e.c_str());
    } else {
      printf("? %s\n", line.c_str());
    }
  }
  fflush(stdout);
  delete creator;
  return 0;
}
