// C03 table dumper (engine E-D): evaluates the direction functions of src/TravelDirections.hpp and the
// direction-dependent index functions of src/DensitySubGrid.hpp on their whole finite domain and prints one
// line per evaluation ("<table> <arguments...> <returned value(s)>").  props/c03.py turns the lines into the Coq
// file coq/Cxx/C03_Gen.v.  Nothing here is computed by the harness itself except the enumeration of the domain;
// every table entry is the value returned by the real function.  The arguments are printed and flushed BEFORE the
// call, so that when the real function aborts (cmac_error) the unfinished last line names the failing input.
#include <cinttypes>
#include <cmath>
#include <cstdio>
#include <cstring>
#include <limits>
#include <string>
#include <vector>
#define private public
#define protected public
#include "DensitySubGrid.hpp"
#include "TravelDirections.hpp"
#undef private
#undef protected

// enumerator list: value comes from the real enum, the offset is parsed from the enumerator NAME (P = +1, N = -1)
#define DIRLIST(X)                                                                                                     \
  X(TRAVELDIRECTION_INSIDE) X(TRAVELDIRECTION_CORNER_PPP) X(TRAVELDIRECTION_CORNER_PPN) X(TRAVELDIRECTION_CORNER_PNP)   \
  X(TRAVELDIRECTION_CORNER_PNN) X(TRAVELDIRECTION_CORNER_NPP) X(TRAVELDIRECTION_CORNER_NPN)                              \
  X(TRAVELDIRECTION_CORNER_NNP) X(TRAVELDIRECTION_CORNER_NNN) X(TRAVELDIRECTION_EDGE_X_PP)                               \
  X(TRAVELDIRECTION_EDGE_X_PN) X(TRAVELDIRECTION_EDGE_X_NP) X(TRAVELDIRECTION_EDGE_X_NN) X(TRAVELDIRECTION_EDGE_Y_PP)   \
  X(TRAVELDIRECTION_EDGE_Y_PN) X(TRAVELDIRECTION_EDGE_Y_NP) X(TRAVELDIRECTION_EDGE_Y_NN) X(TRAVELDIRECTION_EDGE_Z_PP)   \
  X(TRAVELDIRECTION_EDGE_Z_PN) X(TRAVELDIRECTION_EDGE_Z_NP) X(TRAVELDIRECTION_EDGE_Z_NN) X(TRAVELDIRECTION_FACE_X_P)    \
  X(TRAVELDIRECTION_FACE_X_N) X(TRAVELDIRECTION_FACE_Y_P) X(TRAVELDIRECTION_FACE_Y_N) X(TRAVELDIRECTION_FACE_Z_P)       \
  X(TRAVELDIRECTION_FACE_Z_N)

struct Named {
  const char *name;
  long value;
};
#define X(n) {#n, (long)n},
static const Named NAMED[] = {DIRLIST(X)};
#undef X

static int sgn_of(char c) { return c == 'P' ? 1 : (c == 'N' ? -1 : 99); }

// offset implied by the enumerator name
static void name_offset(const std::string &n, int o[3]) {
  o[0] = o[1] = o[2] = 0;
  const std::string p = "TRAVELDIRECTION_";
  std::string r = n.substr(p.size());
  if (r == "INSIDE")
    return;
  if (r.compare(0, 7, "CORNER_") == 0) {
    o[0] = sgn_of(r[7]);
    o[1] = sgn_of(r[8]);
    o[2] = sgn_of(r[9]);
  } else if (r.compare(0, 5, "EDGE_") == 0) {
    const int ax = r[5] - 'X';
    int k = 0;
    for (int a = 0; a < 3; ++a)
      if (a != ax)
        o[a] = sgn_of(r[7 + (k++)]);
  } else if (r.compare(0, 5, "FACE_") == 0) {
    o[r[5] - 'X'] = sgn_of(r[7]);
  } else {
    o[0] = o[1] = o[2] = 99;
  }
}

#define CALL(...)                                                                                                      \
  {                                                                                                                    \
    printf(__VA_ARGS__);                                                                                               \
    fflush(stdout);                                                                                                    \
  }

int main() {
  printf("ndir %ld\n", (long)TRAVELDIRECTION_NUMBER);
  printf("outside %lu\n", (unsigned long)NEIGHBOUR_OUTSIDE);

  // enumerators: value from the enum, offset spelled by the enumerator name
  const size_t nn = sizeof(NAMED) / sizeof(NAMED[0]);
  for (size_t i = 0; i < nn; ++i) {
    int o[3];
    name_offset(NAMED[i].name, o);
    printf("named %ld %d %d %d %s\n", NAMED[i].value, o[0], o[1], o[2], NAMED[i].name);
  }

  // TravelDirections::output_to_input_direction on 0..26
  for (int d = 0; d < TRAVELDIRECTION_NUMBER; ++d) {
    CALL("o2i %d ", d);
    printf("%ld\n", (long)TravelDirections::output_to_input_direction(d));
  }

  // TravelDirections::get_output_direction(mask) on all 64 masks
  for (int m = 0; m < 64; ++m) {
    CALL("mask %d ", m);
    printf("%ld\n", (long)TravelDirections::get_output_direction(m));
  }

  // DensitySubGrid::get_output_direction(three_index) on real subgrids, indices -n, -1, 0, n-1, n per axis
  {
    const int ncs[5][3] = {{1, 1, 1}, {2, 3, 4}, {4, 2, 1}, {3, 3, 3}, {1, 5, 2}};
    for (int c = 0; c < 5; ++c) {
      const double box[6] = {0., 0., 0., 1., 1., 1.};
      DensitySubGrid g(box, CoordinateVector< int_fast32_t >(ncs[c][0], ncs[c][1], ncs[c][2]));
      std::vector< int > idx[3];
      for (int a = 0; a < 3; ++a) {
        const int n = ncs[c][a];
        const int cand[5] = {-n, -1, 0, n - 1, n};
        for (int q = 0; q < 5; ++q) {
          bool seen = false;
          for (size_t r = 0; r < idx[a].size(); ++r)
            seen = seen || idx[a][r] == cand[q];
          if (!seen)
            idx[a].push_back(cand[q]);
        }
      }
      for (size_t i = 0; i < idx[0].size(); ++i)
        for (size_t j = 0; j < idx[1].size(); ++j)
          for (size_t k = 0; k < idx[2].size(); ++k) {
            CALL("exit %d %d %d %d %d %d ", ncs[c][0], ncs[c][1], ncs[c][2], idx[0][i], idx[1][j], idx[2][k]);
            printf("%ld\n",
                   (long)g.get_output_direction(CoordinateVector< int_fast32_t >(idx[0][i], idx[1][j], idx[2][k])));
          }
    }
  }

  // compatibility of a direction vector with an output / input direction.  The vector has components
  // sign * magnitude:  kind 0: magnitude 1, zero = +0.0;  kind 1: magnitude 4.9e-324 (smallest denormal), zero = -0.0;
  // kind 2: magnitude infinity, zero = +0.0
  for (int kind = 0; kind < 3; ++kind) {
    const double mag = kind == 0 ? 1.
                                 : (kind == 1 ? std::numeric_limits< double >::denorm_min()
                                              : std::numeric_limits< double >::infinity());
    const double zero = kind == 1 ? -0. : 0.;
    for (int sx = -1; sx < 2; ++sx)
      for (int sy = -1; sy < 2; ++sy)
        for (int sz = -1; sz < 2; ++sz) {
          const CoordinateVector<> v(sx ? sx * mag : zero, sy ? sy * mag : zero, sz ? sz * mag : zero);
          for (int d = 0; d < TRAVELDIRECTION_NUMBER; ++d) {
            CALL("compat %d %d %d %d %d ", kind, sx, sy, sz, d);
            const bool o = TravelDirections::is_compatible_output_direction(v, d);
            const bool i = TravelDirections::is_compatible_input_direction(v, d);
            printf("%d %d\n", o ? 1 : 0, i ? 1 : 0);
          }
        }
  }

  // entry: three_index set by get_start_index for a position in the middle cell ((n-1)/2 on every axis) of an
  // n x n x n subgrid entered through input direction d, and the effect of update_photon_position on that position:
  // 0 = set to the lower face coordinate 0, 2 = set to the upper face coordinate n*cell_size, 1 = unchanged, 9 = else
  {
    const int ns[3] = {1, 3, 5};
    for (int q = 0; q < 3; ++q) {
      const int n = ns[q];
      const double box[6] = {0., 0., 0., (double)n, (double)n, (double)n};
      DensitySubGrid g(box, CoordinateVector< int_fast32_t >(n, n, n));
      const double mid = 0.5 * n;
      for (int d = 0; d < TRAVELDIRECTION_NUMBER; ++d) {
        CALL("entry %d %d ", n, d);
        CoordinateVector< int_fast32_t > ti(-7, -7, -7);
        const CoordinateVector<> pos(mid, mid, mid);
        g.get_start_index(pos, d, ti);
        CoordinateVector<> p2(mid, mid, mid);
        g.update_photon_position(d, p2);
        int r[3];
        for (int a = 0; a < 3; ++a) {
          const double up = g._number_of_cells[a] * g._cell_size[a];
          r[a] = (p2[a] == mid) ? 1 : (p2[a] == 0. ? 0 : (p2[a] == up ? 2 : 9));
        }
        printf("%ld %ld %ld %d %d %d\n", (long)ti[0], (long)ti[1], (long)ti[2], r[0], r[1], r[2]);
      }
    }
  }
  printf("end\n");
  return 0;
}
