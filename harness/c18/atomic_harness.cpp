// C18 correspondence harness: drives the real VernerCrossSections, VernerRecombinationRates,
// ChargeTransferRates, Utilities::locate and the tabulated spectrum samplers with the operations
// read from stdin.  The implementation files are compiled into this translation unit so that
// the flags -fno-builtin -ffp-contract=off apply to them (bit-exact pow/exp/log10 against OCaml's libm
// calls); the data file locations are passed with -D (the shipped files of the repo under test).
#include <cinttypes>
#include <cstdio>
#include <cstring>
#include <cstdlib>
#include <fstream>
#include <iostream>
#include <sstream>
#include <string>
#include <vector>
#include <algorithm>
#include <map>
#include <cmath>
#define private public
#define protected public
#include "VernerCrossSections.cpp"
#include "VernerRecombinationRates.cpp"
#include "ChargeTransferRates.cpp"
#include "PlanckPhotonSourceSpectrum.cpp"
#include "HydrogenLymanContinuumSpectrum.cpp"
#include "HeliumLymanContinuumSpectrum.cpp"
#include "HeliumTwoPhotonContinuumSpectrum.cpp"
#undef private
#undef protected

static double b2d(uint64_t b) { double d; std::memcpy(&d, &b, 8); return d; }
static uint64_t d2b(double d) { uint64_t b; std::memcpy(&b, &d, 8); return b; }
static void hx(double d) { printf(" %016" PRIx64, d2b(d)); }

// make the next get_uniform_random_double() return exactly x
static void inject(RandomGenerator &rg, double x) {
  rg._ir = 0;
  rg._ir_old = 5;
  rg._xdbl[1] = x;
}

static void vec(const char *k, const char *name, const std::vector< double > &v) {
  printf("T %s %s %zu", k, name, v.size());
  for (double d : v) hx(d);
  printf("\n");
}

int main() {
  VernerCrossSections xs;
  VernerRecombinationRates rr;
  ChargeTransferRates ct;
  PlanckPhotonSourceSpectrum *planck = nullptr;
  HydrogenLymanContinuumSpectrum *hly = nullptr;
  HeliumLymanContinuumSpectrum *hely = nullptr;
  HeliumTwoPhotonContinuumSpectrum *he2q = nullptr;
  RandomGenerator rg(42);
  std::string op;
  while (std::cin >> op) {
    if (op == "K") {
      for (size_t z = 0; z < xs._data_A.size(); ++z)
        for (size_t n = 0; n < xs._data_A[z].size(); ++n)
          for (size_t s = 0; s < xs._data_A[z][n].size(); ++s)
            if (xs._data_A[z][n][s].size() == VERNERDATA_A_NUMELEMENTS) {
              printf("KA %zu %zu %zu", z + 1, n + 1, s + 1);
              for (double d : xs._data_A[z][n][s]) hx(d);
              printf("\n");
            }
      for (size_t z = 0; z < xs._data_B.size(); ++z)
        for (size_t n = 0; n < xs._data_B[z].size(); ++n)
          if (xs._data_B[z][n].size() == VERNERDATA_B_NUMELEMENTS) {
            printf("KB %zu %zu", z + 1, n + 1);
            for (double d : xs._data_B[z][n]) hx(d);
            printf("\n");
          }
      for (size_t n = 0; n < xs._data_C.size(); ++n)
        if (xs._data_C[n].size() == VERNERDATA_C_NUMELEMENTS) {
          printf("KC %zu", n + 1);
          for (double d : xs._data_C[n]) hx(d);
          printf("\n");
        }
      for (int c = 0; c < 2; ++c)
        for (int i = 0; i < 30; ++i)
          for (int j = 0; j <= i; ++j) {
            printf("KR %d %d %d", c, i + 1, j + 1); hx(rr._rrec[c][i][j]); printf("\n");
          }
      for (int c = 0; c < 4; ++c)
        for (int i = 0; i < 30; ++i)
          for (int j = 0; j <= i; ++j) {
            printf("KN %d %d %d", c, i + 1, j + 1); hx(rr._rnew[c][i][j]); printf("\n");
          }
      for (int c = 0; c < 3; ++c)
        for (int j = 0; j < 13; ++j) {
          printf("KF %d %d", c, j + 1); hx(rr._fe[c][j]); printf("\n");
        }
      printf("K end\n");
    } else if (op == "X") {
      int ion; uint64_t e;
      std::cin >> std::dec >> ion >> std::hex >> e;
      printf("X"); hx(xs.get_cross_section(ion, b2d(e))); printf("\n");
    } else if (op == "V") {
      int nz, ne, is; uint64_t e;
      std::cin >> std::dec >> nz >> ne >> is >> std::hex >> e;
      printf("V"); hx(xs.get_cross_section_verner(nz, ne, is, b2d(e))); printf("\n");
    } else if (op == "R") {
      int ion; uint64_t t;
      std::cin >> std::dec >> ion >> std::hex >> t;
      printf("R"); hx(rr.get_recombination_rate(ion, b2d(t))); printf("\n");
    } else if (op == "W") {
      int iz, in; uint64_t t;
      std::cin >> std::dec >> iz >> in >> std::hex >> t;
      printf("W"); hx(rr.get_recombination_rate_verner(iz, in, b2d(t))); printf("\n");
    } else if (op == "C") {
      int kind, ion; uint64_t t;
      std::cin >> std::dec >> kind >> ion >> std::hex >> t;
      double r = kind == 0   ? ct.get_charge_transfer_recombination_rate_H(ion, b2d(t))
                 : kind == 1 ? ct.get_charge_transfer_ionization_rate_H(ion, b2d(t))
                             : ct.get_charge_transfer_recombination_rate_He(ion, b2d(t));
      printf("C"); hx(r); printf("\n");
    } else if (op == "L") {
      size_t n; uint64_t b;
      std::cin >> std::dec >> n;
      std::vector< double > a(n);
      for (size_t i = 0; i < n; ++i) { std::cin >> std::hex >> b; a[i] = b2d(b); }
      std::cin >> std::hex >> b;
      printf("L %" PRIuFAST32 "\n", Utilities::locate(b2d(b), a.data(), n));
    } else if (op == "P") {
      uint64_t t;
      std::cin >> std::hex >> t;
      delete planck;
      planck = new PlanckPhotonSourceSpectrum(b2d(t), -1., nullptr);
      printf("P ok\n");
    } else if (op == "TAB") {
      std::string k;
      std::cin >> k;
      if (k == "P") {
        vec("P", "cdf", planck->_cumulative_distribution);
        vec("P", "logcdf", planck->_log_cumulative_distribution);
        vec("P", "logfreq", planck->_log_frequency);
      } else if (k == "Q") {
        if (!he2q) he2q = new HeliumTwoPhotonContinuumSpectrum();
        vec("Q", "freq", he2q->_frequency);
        vec("Q", "cdf", he2q->_cumulative_distribution);
      } else if (k == "H") {
        if (!hly) hly = new HydrogenLymanContinuumSpectrum(xs);
        vec("H", "freq", hly->_frequency);
        vec("H", "temp", hly->_temperature);
        for (auto &r : hly->_cumulative_distribution) vec("H", "cdf", r);
      } else if (k == "E") {
        if (!hely) hely = new HeliumLymanContinuumSpectrum(xs);
        vec("E", "freq", hely->_frequency);
        vec("E", "temp", hely->_temperature);
        for (auto &r : hely->_cumulative_distribution) vec("E", "cdf", r);
      }
      printf("T end\n");
    } else if (op == "S") {
      std::string k; uint64_t t, x;
      std::cin >> k >> std::hex >> t >> x;
      inject(rg, b2d(x));
      double f = 0.;
      if (k == "P") f = planck->get_random_frequency(rg, b2d(t));
      else if (k == "Q") { if (!he2q) he2q = new HeliumTwoPhotonContinuumSpectrum(); f = he2q->get_random_frequency(rg, b2d(t)); }
      else if (k == "H") { if (!hly) hly = new HydrogenLymanContinuumSpectrum(xs); f = hly->get_random_frequency(rg, b2d(t)); }
      else if (k == "E") { if (!hely) hely = new HeliumLymanContinuumSpectrum(xs); f = hely->get_random_frequency(rg, b2d(t)); }
      printf("S"); hx(f); printf("\n");
    } else {
      printf("? %s\n", op.c_str());
    }
  }
  return 0;
}
