// C18, masked spectra: drives the real MaskedPhotonSourceSpectrum (linked from the repo's library) with the
// operations read from stdin.  Two instances:
//   M  unmasked spectrum = a deterministic staircase (call k returns the centre of bin k mod (nbins-1)), so that the
//      histogram the constructor builds is known exactly; LinearPhotonSourceSpectrumMask
//   N  unmasked spectrum = the real PlanckPhotonSourceSpectrum(40000 K) sampled with the real generator;
//      LinearPhotonSourceSpectrumMask
// ops:  TAB M|N  (build, print the tables)     S M|N <t hex> <x hex>  (sample with the random number x injected)
#include <cinttypes>
#include <cstdio>
#include <cstring>
#include <iostream>
#include <string>
#include <vector>
#define private public
#define protected public
#include "MaskedPhotonSourceSpectrum.hpp"
#include "RandomGenerator.hpp"
#undef private
#undef protected
#include "LinearPhotonSourceSpectrumMask.hpp"
#include "PlanckPhotonSourceSpectrum.hpp"

static double b2d(uint64_t b) { double d; std::memcpy(&d, &b, 8); return d; }
static uint64_t d2b(double d) { uint64_t b; std::memcpy(&b, &d, 8); return b; }
static void hx(double d) { printf(" %016" PRIx64, d2b(d)); }
static void inject(RandomGenerator &rg, double x) {
  rg._ir = 0;
  rg._ir_old = 5;
  rg._xdbl[1] = x;
}
static void vec(const char *k, const char *name, const std::vector< double > &v) {
  printf("T %s %s %zu", k, name, v.size());
  for (double d : v) hx(d);
  printf("\n");
}

class StaircaseSpectrum : public PhotonSourceSpectrum {
  mutable uint_fast32_t _k;
  const uint_fast32_t _nbins;
public:
  StaircaseSpectrum(uint_fast32_t nbins) : _k(0), _nbins(nbins) {}
  virtual ~StaircaseSpectrum() {}
  virtual double get_random_frequency(RandomGenerator &, double) const {
    const double min_frequency = 3.289e15;
    const double bin = (4. * min_frequency - min_frequency) / (_nbins - 1.);
    const double f = min_frequency + ((_k % (_nbins - 1)) + 0.5) * bin;
    ++_k;
    return f;
  }
  virtual double get_total_flux() const { return 100.; }
};

int main() {
  MaskedPhotonSourceSpectrum *m = nullptr, *n = nullptr;
  RandomGenerator rg(42);
  std::string op;
  while (std::cin >> op) {
    if (op == "TAB") {
      std::string k;
      std::cin >> k;
      MaskedPhotonSourceSpectrum *&s = (k == "M") ? m : n;
      if (s == nullptr) {
        if (k == "M") s = new MaskedPhotonSourceSpectrum(new StaircaseSpectrum(50), new LinearPhotonSourceSpectrumMask(), 50, 49 * 40);
        else s = new MaskedPhotonSourceSpectrum(new PlanckPhotonSourceSpectrum(40000., -1., nullptr), new LinearPhotonSourceSpectrumMask(), 200, 200000);
      }
      vec(k.c_str(), "freq", s->_frequency_bins);
      vec(k.c_str(), "cdf", s->_cumulative_distribution);
      vec(k.c_str(), "flux", std::vector< double >(1, s->get_total_flux()));
      auto sp = s->get_spectrum();
      vec(k.c_str(), "spectrum", sp.second);
      printf("T end\n");
    } else if (op == "S") {
      std::string k; uint64_t t, x;
      std::cin >> k >> std::hex >> t >> x;
      MaskedPhotonSourceSpectrum *s = (k == "M") ? m : n;
      inject(rg, b2d(x));
      printf("S"); hx(s->get_random_frequency(rg, b2d(t))); printf("\n");
    } else {
      printf("? %s\n", op.c_str());
    }
  }
  return 0;
}
