// C05 harness: the real HLLCRiemannSolver / ExactRiemannSolver on inputs given as bit patterns.
// input : H|E gamma rhoL uL(3) PL rhoR uR(3) PR n(3) vface(3)
// output: H: m px py pz e          E: m px py pz e | flag rhosol usol Psol   (1-D solve at dxdt=0)
#include <cinttypes>
#include <cstdio>
#include <cstring>
#include <iostream>
#include <string>
#include "ExactRiemannSolver.hpp"
#include "HLLCRiemannSolver.hpp"

static double b2d(uint64_t b) { double d; std::memcpy(&d, &b, 8); return d; }
static uint64_t d2b(double d) { uint64_t b; std::memcpy(&b, &d, 8); return b; }

int main() {
  std::string kind;
  while (std::cin >> kind) {
    uint64_t w[17];
    for (int i = 0; i < 17; ++i)
      std::cin >> std::hex >> w[i];
    const double gamma = b2d(w[0]);
    const double rhoL = b2d(w[1]);
    const CoordinateVector<> uL(b2d(w[2]), b2d(w[3]), b2d(w[4]));
    const double PL = b2d(w[5]);
    const double rhoR = b2d(w[6]);
    const CoordinateVector<> uR(b2d(w[7]), b2d(w[8]), b2d(w[9]));
    const double PR = b2d(w[10]);
    const CoordinateVector<> n(b2d(w[11]), b2d(w[12]), b2d(w[13]));
    const CoordinateVector<> vface(b2d(w[14]), b2d(w[15]), b2d(w[16]));
    double mflux = 0., Eflux = 0.;
    CoordinateVector<> pflux;
    if (kind == "H") {
      HLLCRiemannSolver solver(gamma);
      solver.solve_for_flux(rhoL, uL, PL, rhoR, uR, PR, mflux, pflux, Eflux, n, vface);
      printf("%016" PRIx64 " %016" PRIx64 " %016" PRIx64 " %016" PRIx64 " %016" PRIx64 "\n", d2b(mflux), d2b(pflux[0]),
             d2b(pflux[1]), d2b(pflux[2]), d2b(Eflux));
    } else {
      ExactRiemannSolver solver(gamma);
      solver.solve_for_flux(rhoL, uL, PL, rhoR, uR, PR, mflux, pflux, Eflux, n, vface);
      const CoordinateVector<> uLface = uL - vface;
      const CoordinateVector<> uRface = uR - vface;
      const double vL = CoordinateVector<>::dot_product(uLface, n);
      const double vR = CoordinateVector<>::dot_product(uRface, n);
      double rhosol, usol, Psol;
      const int flag = solver.solve(rhoL, vL, PL, rhoR, vR, PR, rhosol, usol, Psol);
      printf("%016" PRIx64 " %016" PRIx64 " %016" PRIx64 " %016" PRIx64 " %016" PRIx64 " | %d %016" PRIx64 " %016" PRIx64
             " %016" PRIx64 "\n",
             d2b(mflux), d2b(pflux[0]), d2b(pflux[1]), d2b(pflux[2]), d2b(Eflux), flag, d2b(rhosol), d2b(usol),
             d2b(Psol));
    }
  }
  return 0;
}
