// C02 correspondence harness: builds real DensitySubGrid blocks and drives the REAL
// DensitySubGrid::interact with the packets read from stdin.  Line protocol (all doubles as the
// 16 hex digits of their bit pattern, integers in decimal):
//   B ax ay az sx sy sz nx ny nz      new block: box anchor, box sides, number of cells
//   F {n xH xHe}*                     cell contents in one-index order (nx*ny*nz triples)
//   I j0                              value every mean intensity / heating term has before each packet
//   P input px py pz dx dy dz tau w energy s_0 .. s_{NIONS-1}
// answer to P:
//   R out px py pz tau k {cell J_0 .. J_{NIONS-1} hH hHe}*k      (cells whose estimators changed)
#include <cinttypes>
#include <cstdio>
#include <cstdlib>
#include <cstring>
#include <iostream>
#include <sstream>
#include <string>
#include <vector>
#include "DensitySubGrid.hpp"
#include "PhotonPacket.hpp"
#include "TravelDirections.hpp"

static double b2d(uint64_t b) { double d; std::memcpy(&d, &b, 8); return d; }
static uint64_t d2b(double d) { uint64_t b; std::memcpy(&b, &d, 8); return b; }
static double rd(std::istream &s) { uint64_t b; s >> std::hex >> b; return b2d(b); }

int main(int argc, char **argv) {
  if (argc > 1 && std::string(argv[1]) == "--info") {
    int helium = 0, varab = 0, lockfree = 0;
#ifdef HAS_HELIUM
    helium = 1;
#endif
#ifdef VARIABLE_ABUNDANCES
    varab = 1;
#endif
#ifdef USE_LOCKFREE
    lockfree = 1;
#endif
    printf("nions %d helium %d variable_abundances %d lockfree %d heatingterms %d ion_H %d ion_He %d intsize %zu\n",
           (int)NUMBER_OF_IONNAMES, helium, varab, lockfree, (int)NUMBER_OF_HEATINGTERMS, (int)ION_H_n,
#ifdef HAS_HELIUM
           (int)ION_He_n,
#else
           -1,
#endif
           sizeof(int_fast32_t));
    return 0;
  }
  DensitySubGrid *grid = nullptr;
  long ncell = 0;
  double j0 = 0.;
  std::string line;
  std::vector<uint64_t> before;
  const int NE = NUMBER_OF_IONNAMES + NUMBER_OF_HEATINGTERMS;
  while (std::getline(std::cin, line)) {
    if (line.empty())
      continue;
    std::istringstream s(line);
    char op;
    s >> op;
    if (op == 'B') {
      double box[6];
      for (int i = 0; i < 6; ++i)
        box[i] = rd(s);
      long n[3];
      s >> std::dec >> n[0] >> n[1] >> n[2];
      delete grid;
      grid = new DensitySubGrid(box, CoordinateVector< int_fast32_t >(n[0], n[1], n[2]));
      ncell = n[0] * n[1] * n[2];
      j0 = 0.;
      printf("B %ld\n", ncell);
    } else if (op == 'F') {
      long i = 0;
      for (auto it = grid->begin(); it != grid->end(); ++it, ++i) {
        IonizationVariables &iv = it.get_ionization_variables();
        const double nd = rd(s), xH = rd(s), xHe = rd(s);
        iv.set_number_density(nd);
        iv.set_ionic_fraction(ION_H_n, xH);
#ifdef HAS_HELIUM
        iv.set_ionic_fraction(ION_He_n, xHe);
#endif
      }
      printf("F %ld\n", i);
    } else if (op == 'I') {
      j0 = rd(s);
      printf("I\n");
    } else if (op == 'P') {
      long input;
      s >> std::dec >> input;
      double v[9];
      for (int i = 0; i < 9; ++i)
        v[i] = rd(s);
      PhotonPacket photon;
      photon.set_position(CoordinateVector<>(v[0], v[1], v[2]));
      // set_direction would renormalise; write the components as given
      photon.get_direction() = CoordinateVector<>(v[3], v[4], v[5]);
      photon.set_target_optical_depth(v[6]);
      photon.set_weight(v[7]);
      photon.set_energy(v[8]);
      for (int i = 0; i < NUMBER_OF_IONNAMES; ++i)
        photon.set_photoionization_cross_section(i, rd(s));
      before.assign(ncell * NE, d2b(j0));
      for (auto it = grid->begin(); it != grid->end(); ++it) {
        IonizationVariables &iv = it.get_ionization_variables();
        for (int i = 0; i < NUMBER_OF_IONNAMES; ++i)
          iv.set_mean_intensity(i, j0);
        for (int i = 0; i < NUMBER_OF_HEATINGTERMS; ++i)
          iv.set_heating(i, j0);
      }
      const int_fast32_t out = grid->interact(photon, input);
      const CoordinateVector<> p = photon.get_position();
      std::ostringstream o;
      long k = 0, c = 0;
      char buf[64];
      for (auto it = grid->begin(); it != grid->end(); ++it, ++c) {
        IonizationVariables &iv = it.get_ionization_variables();
        bool changed = false;
        for (int i = 0; i < NUMBER_OF_IONNAMES; ++i)
          changed |= d2b(iv.get_mean_intensity(i)) != d2b(j0);
        for (int i = 0; i < NUMBER_OF_HEATINGTERMS; ++i)
          changed |= d2b(iv.get_heating(i)) != d2b(j0);
        if (changed) {
          ++k;
          o << " " << c;
          for (int i = 0; i < NUMBER_OF_IONNAMES; ++i) {
            snprintf(buf, sizeof buf, " %016" PRIx64, d2b(iv.get_mean_intensity(i)));
            o << buf;
          }
          for (int i = 0; i < NUMBER_OF_HEATINGTERMS; ++i) {
            snprintf(buf, sizeof buf, " %016" PRIx64, d2b(iv.get_heating(i)));
            o << buf;
          }
        }
      }
      printf("R %ld %016" PRIx64 " %016" PRIx64 " %016" PRIx64 " %016" PRIx64 " %ld%s\n", (long)out, d2b(p[0]),
             d2b(p[1]), d2b(p[2]), d2b(photon.get_target_optical_depth()), k, o.str().c_str());
    } else {
      printf("? %s\n", line.c_str());
    }
  }
  delete grid;
  return 0;
}
