// C13 correspondence harness: drives the real RandomGenerator with the operations read from
// stdin and, in lock step, gsl_rng_ranlxd2 (the reference RANLUX implementation).
//   S <seed>                      RandomGenerator(seed)            -> "S <state>"
//   X <12 hex> <hex> ir jr iro pr overwrite the private members    -> "X <state>"
//   D <n>                         n x get_uniform_random_double    -> "D <hex>..." , "G ..."
//   I <n>                         n x get_random_integer           -> "I <dec>..." , "G ..."
//   R                             write_restart_file + restart constructor -> "B <state before>", "R <bytes> <words>", "T <state after>"
//   T                             -> "T <state>"
// "G ok" = every value of the preceding line equals what gsl produced; otherwise the first difference.
#include <cinttypes>
#include <cstdio>
#include <cstdlib>
#include <cstring>
#include <fstream>
#include <iostream>
#include <iterator>
#include <new>
#include <string>
#include <vector>
#include <gsl/gsl_rng.h>
#define private public
#include "RandomGenerator.hpp"
#undef private

static double b2d(uint64_t b) { double d; std::memcpy(&d, &b, 8); return d; }
static uint64_t d2b(double d) { uint64_t b; std::memcpy(&b, &d, 8); return b; }

// layout of the state of gsl's rng/ranlxd.c (checked against gsl_rng_size below)
typedef struct {
  double xdbl[12];
  double carry;
  unsigned int ir, jr, ir_old, pr;
} gsl_ranlxd_state;

static void print_state(const char *tag, const RandomGenerator &g) {
  printf("%s", tag);
  for (int i = 0; i < 12; ++i)
    printf(" %016" PRIx64, d2b(g._xdbl[i]));
  printf(" %016" PRIx64 " %" PRIuFAST32 " %" PRIuFAST32 " %" PRIuFAST32 " %" PRIuFAST32 "\n", d2b(g._carry), g._ir, g._jr,
         g._ir_old, g._pr);
}

int main(int argc, char **argv) {
  std::string tmp = argc > 1 ? argv[1] : "c13_restart.tmp";
  RandomGenerator *g = new RandomGenerator();
  gsl_rng *ref = gsl_rng_alloc(gsl_rng_ranlxd2);
  const bool gsl_layout_ok = gsl_rng_size(ref) == sizeof(gsl_ranlxd_state);
  bool ref_valid = false;
  printf("Z %zu %zu %zu\n", sizeof(uint_fast32_t), sizeof(int_fast32_t), sizeof(double));
  char op;
  while (std::cin >> op) {
    if (op == 'S') {
      std::string s;
      std::cin >> s;
      const long long seed = std::strtoll(s.c_str(), nullptr, 10);
      delete g;
      g = new RandomGenerator((int_fast32_t)seed);
      // gsl 2.7.1: "i = seed & 0xffffffffUL" into an int, so seeds with bit 31 set are outside its domain
      ref_valid = (((unsigned long)seed) & 0x80000000UL) == 0;
      gsl_rng_set(ref, (unsigned long)seed);
      print_state("S", *g);
    } else if (op == 'E') {
      // re-seed the EXISTING (used) generator object: must give the same stream as a fresh generator with that seed
      std::string s;
      std::cin >> s;
      const long long seed = std::strtoll(s.c_str(), nullptr, 10);
      g->set_seed((int_fast32_t)seed);
      ref_valid = (((unsigned long)seed) & 0x80000000UL) == 0;
      gsl_rng_set(ref, (unsigned long)seed);
      print_state("E", *g);
    } else if (op == 'X') {
      uint64_t w[13];
      unsigned long a[4];
      for (int i = 0; i < 13; ++i)
        std::cin >> std::hex >> w[i];
      for (int i = 0; i < 4; ++i)
        std::cin >> std::dec >> a[i];
      for (int i = 0; i < 12; ++i)
        g->_xdbl[i] = b2d(w[i]);
      g->_carry = b2d(w[12]);
      g->_ir = a[0];
      g->_jr = a[1];
      g->_ir_old = a[2];
      g->_pr = a[3];
      ref_valid = gsl_layout_ok;
      if (gsl_layout_ok) {
        gsl_ranlxd_state *st = (gsl_ranlxd_state *)gsl_rng_state(ref);
        for (int i = 0; i < 12; ++i)
          st->xdbl[i] = b2d(w[i]);
        st->carry = b2d(w[12]);
        st->ir = a[0];
        st->jr = a[1];
        st->ir_old = a[2];
        st->pr = a[3];
      }
      print_state("X", *g);
    } else if (op == 'D' || op == 'I') {
      unsigned long n;
      std::cin >> std::dec >> n;
      long bad = -1;
      uint64_t badi = 0, badr = 0;
      printf("%c", op);
      for (unsigned long i = 0; i < n; ++i) {
        if (op == 'D') {
          const double v = g->get_uniform_random_double();
          printf(" %016" PRIx64, d2b(v));
          if (ref_valid) {
            const double r = gsl_rng_uniform(ref);
            if (d2b(r) != d2b(v) && bad < 0) { bad = i; badi = d2b(v); badr = d2b(r); }
          }
        } else {
          const int_fast32_t v = g->get_random_integer();
          printf(" %" PRIdFAST32, v);
          if (ref_valid) {
            const int_fast32_t r = gsl_rng_uniform(ref) * 2147483648.0;
            if (r != v && bad < 0) { bad = i; badi = (uint64_t)v; badr = (uint64_t)r; }
          }
        }
      }
      printf("\n");
      if (!ref_valid)
        printf("G na\n");
      else if (bad < 0)
        printf("G ok\n");
      else
        printf("G MISMATCH at=%ld impl=%016" PRIx64 " gsl=%016" PRIx64 "\n", bad, badi, badr);
    } else if (op == 'R') {
      print_state("B", *g);
      {
        RestartWriter w(tmp);
        g->write_restart_file(w);
      }
      {
        std::ifstream f(tmp, std::ios::binary);
        std::vector< unsigned char > bytes((std::istreambuf_iterator< char >(f)), std::istreambuf_iterator< char >());
        printf("R %zu", bytes.size());
        for (size_t i = 0; i + 8 <= bytes.size(); i += 8) {
          uint64_t w;
          std::memcpy(&w, &bytes[i], 8);
          printf(" %016" PRIx64, w);
        }
        printf("\n");
      }
      {
        // the restored object is built in memory filled with 0xff (NaN doubles, huge integers), so a member
        // the restart constructor does not read shows up instead of silently keeping a stale value
        RestartReader r(tmp);
        void *mem = ::operator new(sizeof(RandomGenerator));
        std::memset(mem, 0xff, sizeof(RandomGenerator));
        RandomGenerator *n = new (mem) RandomGenerator(r);
        delete g;
        g = n;
      }
      print_state("T", *g);
    } else if (op == 'T') {
      print_state("T", *g);
    }
  }
  delete g;
  gsl_rng_free(ref);
  std::remove(tmp.c_str());
  return 0;
}
