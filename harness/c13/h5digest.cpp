// C13: digest of every dataset and attribute of an HDF5 snapshot (names, shapes, raw values),
// so that two snapshots can be compared independently of object-header time stamps.
// usage: h5digest <file>     prints one line per dataset/attribute: path kind nbytes fnv64
#include <cinttypes>
#include <cstdio>
#include <cstring>
#include <hdf5.h>
#include <string>
#include <vector>

static uint64_t fnv(const unsigned char *p, size_t n) {
  uint64_t h = 1469598103934665603ULL;
  for (size_t i = 0; i < n; ++i) {
    h ^= p[i];
    h *= 1099511628211ULL;
  }
  return h;
}

static herr_t attr_cb(hid_t loc, const char *name, const H5A_info_t *, void *data) {
  const std::string *path = static_cast<const std::string *>(data);
  hid_t a = H5Aopen(loc, name, H5P_DEFAULT);
  hid_t t = H5Aget_type(a);
  hid_t s = H5Aget_space(a);
  hssize_t n = H5Sget_simple_extent_npoints(s);
  hid_t nt = H5Tget_native_type(t, H5T_DIR_ASCEND);
  size_t sz = H5Tget_size(nt);
  std::vector<unsigned char> buf(static_cast<size_t>(n) * sz + 1, 0);
  if (H5Tis_variable_str(nt) > 0) {
    std::vector<char *> strs(n, nullptr);
    H5Aread(a, nt, strs.data());
    std::string all;
    for (hssize_t i = 0; i < n; ++i) {
      if (strs[i])
        all += strs[i];
      all += '\n';
    }
    printf("%s@%s attr %zu %016" PRIx64 "\n", path->c_str(), name, all.size(),
           fnv(reinterpret_cast<const unsigned char *>(all.data()), all.size()));
  } else {
    H5Aread(a, nt, buf.data());
    printf("%s@%s attr %zu %016" PRIx64 "\n", path->c_str(), name, static_cast<size_t>(n) * sz,
           fnv(buf.data(), static_cast<size_t>(n) * sz));
  }
  H5Tclose(nt);
  H5Sclose(s);
  H5Tclose(t);
  H5Aclose(a);
  return 0;
}

static herr_t obj_cb(hid_t root, const char *name, const H5O_info_t *info, void *) {
  std::string path = std::string("/") + (strcmp(name, ".") == 0 ? "" : name);
  hid_t o = H5Oopen(root, name, H5P_DEFAULT);
  H5Aiterate2(o, H5_INDEX_NAME, H5_ITER_INC, nullptr, attr_cb, &path);
  if (info->type == H5O_TYPE_DATASET) {
    hid_t t = H5Dget_type(o);
    hid_t s = H5Dget_space(o);
    hssize_t n = H5Sget_simple_extent_npoints(s);
    hid_t nt = H5Tget_native_type(t, H5T_DIR_ASCEND);
    size_t sz = H5Tget_size(nt);
    std::vector<unsigned char> buf(static_cast<size_t>(n) * sz + 1, 0);
    H5Dread(o, nt, H5S_ALL, H5S_ALL, H5P_DEFAULT, buf.data());
    printf("%s dataset %zu %016" PRIx64 "\n", path.c_str(), static_cast<size_t>(n) * sz,
           fnv(buf.data(), static_cast<size_t>(n) * sz));
    H5Tclose(nt);
    H5Sclose(s);
    H5Tclose(t);
  }
  H5Oclose(o);
  return 0;
}

int main(int argc, char **argv) {
  if (argc < 2)
    return 2;
  hid_t f = H5Fopen(argv[1], H5F_ACC_RDONLY, H5P_DEFAULT);
  if (f < 0)
    return 1;
#if H5_VERSION_GE(1, 12, 0)
  H5Ovisit3(f, H5_INDEX_NAME, H5_ITER_INC, obj_cb, nullptr, H5O_INFO_BASIC);
#else
  H5Ovisit(f, H5_INDEX_NAME, H5_ITER_INC, obj_cb, nullptr);
#endif
  H5Fclose(f);
  return 0;
}
