// C04/C10 end-to-end harness: real HydroDensitySubGrid blocks (real DensitySubGridCreator::create_subgrid wiring), real Hydro,
// real HydroBoundary; one global initial state on a given subgrid layout; the real sweeps driven sequentially in phase order
// (gradient sweeps -> slope limiter -> prediction (dt/2) -> flux sweeps -> conserved update -> primitive update), per subgrid in
// the order make_hydro_tasks creates the tasks and with the arguments execute_task passes; time step = CFL * min get_timestep.
// input line : NX NY NZ sx sy sz px py pz bkind gamma nsteps cfl init seed mach hx hy hz dump order maxv
//              (gamma, cfl, mach, hx, hy, hz as hex bit patterns; bkind 0 inflow / 1 outflow / 2 reflective; dump 0/1)
// order      : 0 = tasks of a phase in creation order; k > 0 = the k-th pseudo-random order of the tasks inside every phase (a task = one
//              sweep of one subgrid, as in make_hydro_tasks: what different thread counts/schedules change)
// init       : 0 smooth waves, 1 discontinuous blocks, 2 near-vacuum region, 3 independent random cells
// output     : T step dt tot[5] abs[5] minmass minenergy nonfinite negative wallmach nclamp (hex doubles, counts decimal), step 0 = initial;
//              nclamp = number of cells whose mass or energy the positivity clamp of update_conserved_variables reset in that step
//              X digest                                                                   (FNV-1a over all cell states, global cell order)
//              D id cons[5] prim[5]                                                       (if dump: final state)
//              I id cons[5] prim[5]  and  Geo dx[3] 1/dx[3] A[3] 1/V                       (if dump: initial state, geometry of subgrid 0)
//              END
#include <cinttypes>
#include <cmath>
#include <cstdio>
#include <cstring>
#include <iostream>
#include <sstream>
#include <string>
#include <vector>
#define private public
#define protected public
#include "DensitySubGridCreator.hpp"
#include "HydroDensitySubGrid.hpp"
#undef private
#undef protected

static double b2d(uint64_t b) { double d; std::memcpy(&d, &b, 8); return d; }
static uint64_t d2b(double d) { uint64_t b; std::memcpy(&b, &d, 8); return b; }
static double rdhex() { std::string s; std::cin >> s; return b2d(strtoull(s.c_str(), nullptr, 16)); }

static uint64_t mix(uint64_t z) {
  z += 0x9E3779B97F4A7C15ULL;
  z = (z ^ (z >> 30)) * 0xBF58476D1CE4E5B9ULL;
  z = (z ^ (z >> 27)) * 0x94D049BB133111EBULL;
  return z ^ (z >> 31);
}
static double uni(uint64_t seed, uint64_t id, uint64_t k) { return (mix(mix(seed) ^ mix(id * 7919ULL + k)) >> 11) / 9007199254740992.; }

int main() {
  int NX;
  while (std::cin >> NX) {
    int NY, NZ, ns[3], per[3], bkind, nsteps, init, dump;
    uint64_t seed;
    std::cin >> NY >> NZ >> ns[0] >> ns[1] >> ns[2] >> per[0] >> per[1] >> per[2] >> bkind;
    const double gamma = rdhex();
    std::cin >> nsteps;
    const double cfl = rdhex();
    std::cin >> init >> seed;
    const double mach = rdhex();
    const double h[3] = {rdhex(), rdhex(), rdhex()};
    std::cin >> dump;
    uint64_t order;
    std::cin >> order;
    const double maxv = rdhex(); // Hydro:maximum velocity (1e99 = limiter off)
    const int NG[3] = {NX, NY, NZ};
    const Box<> box(CoordinateVector<>(0.), CoordinateVector<>(NX * h[0], NY * h[1], NZ * h[2]));
    DensitySubGridCreator< HydroDensitySubGrid > creator(box, CoordinateVector< int_fast32_t >(NX, NY, NZ),
                                                         CoordinateVector< int_fast32_t >(ns[0], ns[1], ns[2]),
                                                         CoordinateVector< bool >(per[0], per[1], per[2]));
    const size_t N = creator.number_of_original_subgrids();
    std::vector< HydroDensitySubGrid * > grids;
    for (size_t s = 0; s < N; ++s) grids.push_back(creator.create_subgrid(s));
    Hydro hydro(gamma, 100., 1.e4, maxv, false);
    InflowHydroBoundary binflow;
    OutflowHydroBoundary boutflow;
    ReflectiveHydroBoundary breflect;
    const HydroBoundary *bnds[3] = {&binflow, &boutflow, &breflect};
    const HydroBoundary &boundary = *bnds[bkind];

    // global cell id of every (subgrid, cell), from the real geometry
    const size_t ntot = (size_t)NX * NY * NZ;
    std::vector< std::pair< size_t, size_t > > where(ntot);
    std::vector< std::vector< size_t > > gidof(N);
    for (size_t s = 0; s < N; ++s) {
      const size_t nc = grids[s]->_number_of_cells[0] * grids[s]->_number_of_cells[3];
      gidof[s].resize(nc);
      for (size_t l = 0; l < nc; ++l) {
        const CoordinateVector<> m = grids[s]->get_cell_midpoint(l);
        const long X = (long)std::floor(m.x() / h[0]), Y = (long)std::floor(m.y() / h[1]), Z = (long)std::floor(m.z() / h[2]);
        const size_t id = ((size_t)X * NY + Y) * NZ + Z;
        gidof[s][l] = id;
        where[id] = std::make_pair(s, l);
      }
    }
    // initial state per global cell
    for (size_t id = 0; id < ntot; ++id) {
      const long Z = id % NZ, Y = (id / NZ) % NY, X = id / ((size_t)NZ * NY);
      const double x = (X + 0.5) / NX, y = (Y + 0.5) / NY, z = (Z + 0.5) / NZ;
      double rho, P, v[3];
      const double tp = 6.283185307179586;
      if (init == 0) {
        rho = 1. + 0.3 * std::sin(tp * x) * std::cos(tp * y) + 0.2 * std::sin(tp * z);
        P = 1. + 0.2 * std::cos(tp * x) + 0.1 * std::sin(tp * (y + z));
        v[0] = std::sin(tp * y); v[1] = std::cos(tp * z); v[2] = std::sin(tp * (x + y));
      } else if (init == 1) {
        const int bx = (2 * X >= NX), by = (2 * Y >= NY), bz = (2 * Z >= NZ);
        rho = (bx ^ by) ? 1. : 0.125;
        P = (bx ^ bz) ? 1. : 0.1;
        v[0] = bx ? -1. : 1.; v[1] = by ? 0.5 : -0.5; v[2] = bz ? 0.25 : 0.;
      } else if (init == 2) {
        const bool vac = (3 * X >= NX && 3 * X < 2 * NX);
        const double u = uni(seed, id, 0);
        rho = vac ? (u < 0.3 ? 0. : (u < 0.6 ? 1.e-12 : 1.e-6)) : 1.;
        P = vac ? (rho == 0. ? 0. : 1.e-12) : 1.;
        v[0] = vac ? 0. : (3 * X < NX ? 1. : -1.); v[1] = 0.3 * (uni(seed, id, 1) - 0.5); v[2] = 0.;
      } else {
        rho = std::pow(10., 2. * uni(seed, id, 0) - 1.);
        P = std::pow(10., 2. * uni(seed, id, 1) - 1.);
        for (int k = 0; k < 3; ++k) v[k] = 2. * uni(seed, id, 2 + k) - 1.;
      }
      // velocities in units of mach * sound speed of the cell (or of unit gas for vacuum cells)
      const double cs = (rho > 0. && P > 0.) ? std::sqrt(gamma * P / rho) : 1.;
      HydroVariables &hv = grids[where[id].first]->_hydro_variables[where[id].second];
      hv.set_primitives_density(rho);
      hv.set_primitives_velocity(CoordinateVector<>(mach * cs * v[0], mach * cs * v[1], mach * cs * v[2]));
      hv.set_primitives_pressure(P);
    }
    for (size_t s = 0; s < N; ++s) grids[s]->initialize_hydrodynamic_variables(hydro, false);

    const int dirp[3] = {TRAVELDIRECTION_FACE_X_P, TRAVELDIRECTION_FACE_Y_P, TRAVELDIRECTION_FACE_Z_P};
    const int dirn[3] = {TRAVELDIRECTION_FACE_X_N, TRAVELDIRECTION_FACE_Y_N, TRAVELDIRECTION_FACE_Z_N};
    if (dump) {
      const HydroDensitySubGrid &g0 = *grids[0];
      printf("Geo");
      for (int a = 0; a < 3; ++a) printf(" %016" PRIx64, d2b(g0._cell_size[a]));
      for (int a = 0; a < 3; ++a) printf(" %016" PRIx64, d2b(g0._inv_cell_size[a]));
      for (int a = 0; a < 3; ++a) printf(" %016" PRIx64, d2b(g0._cell_areas[a]));
      printf(" %016" PRIx64 "\n", d2b(g0._inverse_cell_volume));
      for (size_t id = 0; id < ntot; ++id) {
        const HydroVariables &hv = grids[where[id].first]->_hydro_variables[where[id].second];
        printf("I %zu", id);
        for (int k = 0; k < 10; ++k) printf(" %016" PRIx64, d2b(k < 5 ? hv.conserved(k) : hv.primitives(k - 5)));
        printf("\n");
      }
    }
    double dt = 0.;
    long nclamp = 0;
    for (int step = 0; step <= nsteps; ++step) {
      // report (global cell order)
      double tot[5] = {0., 0., 0., 0., 0.}, ab[5] = {0., 0., 0., 0., 0.};
      double minm = HUGE_VAL, minE = HUGE_VAL, wallmach = 0.;
      long nonfinite = 0, negative = 0;
      for (size_t id = 0; id < ntot; ++id) {
        const HydroVariables &hv = grids[where[id].first]->_hydro_variables[where[id].second];
        for (int k = 0; k < 5; ++k) {
          tot[k] += hv.conserved(k);
          ab[k] += std::abs(hv.conserved(k));
          if (!std::isfinite(hv.conserved(k)) || !std::isfinite(hv.primitives(k))) ++nonfinite;
        }
        minm = std::min(minm, hv.conserved(0));
        minE = std::min(minE, hv.conserved(4));
        if (hv.conserved(0) < 0. || hv.conserved(4) < 0. || hv.primitives(0) < 0. || hv.primitives(4) < 0.) ++negative;
        const long c[3] = {(long)(id / ((size_t)NZ * NY)), (long)((id / NZ) % NY), (long)(id % NZ)};
        const double rho = hv.primitives(0), P = hv.primitives(4);
        if (rho > 0. && P > 0.) {
          const double cs = std::sqrt(gamma * P / rho);
          for (int a = 0; a < 3; ++a)
            if (!per[a]) {
              if (c[a] == NG[a] - 1) wallmach = std::max(wallmach, hv.primitives(1 + a) / cs);
              if (c[a] == 0) wallmach = std::max(wallmach, -hv.primitives(1 + a) / cs);
            }
        }
      }
      printf("T %d %016" PRIx64, step, d2b(dt));
      for (int k = 0; k < 5; ++k) printf(" %016" PRIx64, d2b(tot[k]));
      for (int k = 0; k < 5; ++k) printf(" %016" PRIx64, d2b(ab[k]));
      printf(" %016" PRIx64 " %016" PRIx64 " %ld %ld %016" PRIx64 " %ld\n", d2b(minm), d2b(minE), nonfinite, negative, d2b(wallmach), nclamp);
      if (step == nsteps) break;

      // time step: CFL * minimum over all cells (TaskBasedRadiationHydrodynamicsSimulation.cpp, "time step")
      double req = DBL_MAX;
      for (size_t s = 0; s < N; ++s)
        for (auto it = grids[s]->hydro_begin(); it != grids[s]->hydro_end(); ++it)
          req = std::min(req, hydro.get_timestep(it.get_hydro_variables(), it.get_ionization_variables(), it.get_volume()));
      dt = cfl * req;

      // tasks of the gradient phase: (subgrid, which sweep); which: 0 internal, 1..3 positive x/y/z, 4..6 negative x/y/z boundary
      std::vector< std::pair< size_t, int > > tasks;
      for (size_t s = 0; s < N; ++s) {
        tasks.push_back(std::make_pair(s, 0));
        for (int a = 0; a < 3; ++a) {
          tasks.push_back(std::make_pair(s, 1 + a));
          if (grids[s]->get_neighbour(dirn[a]) == NEIGHBOUR_OUTSIDE) tasks.push_back(std::make_pair(s, 4 + a));
        }
      }
      std::vector< size_t > cellwise;
      for (size_t s = 0; s < N; ++s) cellwise.push_back(s);
      uint64_t shuffle_state = mix(order * 1000003ULL + step);
      auto shuffle_tasks = [&]() {
        if (order == 0) return;
        for (size_t i = tasks.size(); i > 1; --i) { shuffle_state = mix(shuffle_state); std::swap(tasks[i - 1], tasks[shuffle_state % i]); }
      };
      auto shuffle_cellwise = [&]() {
        if (order == 0) return;
        for (size_t i = cellwise.size(); i > 1; --i) { shuffle_state = mix(shuffle_state); std::swap(cellwise[i - 1], cellwise[shuffle_state % i]); }
      };
      shuffle_tasks();
      for (size_t t = 0; t < tasks.size(); ++t) {
        HydroDensitySubGrid &g = *grids[tasks[t].first];
        const int w = tasks[t].second;
        if (w == 0) g.inner_gradient_sweep(hydro);
        else if (w <= 3) {
          const uint_fast32_t ngb = g.get_neighbour(dirp[w - 1]);
          if (ngb == NEIGHBOUR_OUTSIDE) g.outer_ghost_gradient_sweep(dirp[w - 1], hydro, boundary);
          else g.outer_gradient_sweep(dirp[w - 1], hydro, *grids[ngb]);
        } else g.outer_ghost_gradient_sweep(dirn[w - 4], hydro, boundary);
      }
      shuffle_cellwise();
      for (size_t t = 0; t < N; ++t) grids[cellwise[t]]->apply_slope_limiter(hydro);
      shuffle_cellwise();
      for (size_t t = 0; t < N; ++t) grids[cellwise[t]]->predict_primitive_variables(hydro, 0.5 * dt);
      shuffle_tasks();
      for (size_t t = 0; t < tasks.size(); ++t) {
        HydroDensitySubGrid &g = *grids[tasks[t].first];
        const int w = tasks[t].second;
        if (w == 0) g.inner_flux_sweep(hydro, dt);
        else if (w <= 3) {
          const uint_fast32_t ngb = g.get_neighbour(dirp[w - 1]);
          if (ngb == NEIGHBOUR_OUTSIDE) g.outer_ghost_flux_sweep(dirp[w - 1], hydro, boundary, dt);
          else g.outer_flux_sweep(dirp[w - 1], hydro, *grids[ngb], dt);
        } else g.outer_ghost_flux_sweep(dirn[w - 4], hydro, boundary, dt);
      }
      // would the positivity clamp fire? (no gravity, no energy term in this harness)
      nclamp = 0;
      for (size_t id = 0; id < ntot; ++id) {
        const HydroVariables &hv = grids[where[id].first]->_hydro_variables[where[id].second];
        if (hv.conserved(0) + hv.delta_conserved(0) * dt < 0. || hv.conserved(4) + hv.delta_conserved(4) * dt < 0.) ++nclamp;
      }
      shuffle_cellwise();
      for (size_t t = 0; t < N; ++t) grids[cellwise[t]]->update_conserved_variables(dt);
      shuffle_cellwise();
      for (size_t t = 0; t < N; ++t) grids[cellwise[t]]->update_primitive_variables(hydro);
    }
    uint64_t dg = 1469598103934665603ULL;
    for (size_t id = 0; id < ntot; ++id) {
      const HydroVariables &hv = grids[where[id].first]->_hydro_variables[where[id].second];
      if (dump) printf("D %zu", id);
      for (int k = 0; k < 10; ++k) {
        const double x = k < 5 ? hv.conserved(k) : hv.primitives(k - 5);
        uint64_t b = d2b(x);
        for (int j = 0; j < 8; ++j) { dg ^= (b >> (8 * j)) & 0xff; dg *= 1099511628211ULL; }
        if (dump) printf(" %016" PRIx64, b);
      }
      if (dump) printf("\n");
    }
    printf("X %016" PRIx64 "\nEND\n", dg);
    fflush(stdout);
    for (size_t s = 0; s < N; ++s) delete grids[s];
  }
  return 0;
}
