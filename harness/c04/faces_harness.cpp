// C04/C10 harness: which cells the REAL sweeps of HydroDensitySubGrid.hpp visit.
// The include guard of Hydro.hpp is pre-defined and a stand-in `class Hydro` with the same method names/signatures only
// LOGS its arguments, so the unchanged text of src/HydroDensitySubGrid.hpp reports every (axis, left cell, right cell, dx, A)
// it passes to the per-face operations.  Cells are identified by pointer offset into the subgrids' _hydro_variables arrays.
// Subgrids and their neighbour relations come from the real DensitySubGridCreator::create_subgrid; the sweeps are called
// per subgrid in the order make_hydro_tasks creates the tasks, phase by phase as execute_task dispatches them.
// input line : L nx ny nz sx sy sz px py pz        (cells per subgrid, subgrids, periodicity flags)
// output     : p a s l t r d A w   gradient pair visit      q a sgn s l d A w   gradient boundary visit
//              S s l               slope limiter            E s l               prediction
//              P a s l t r d A w   flux pair visit          Q a sgn s l d A w   flux boundary visit
//              R s l               primitive update         END
//   d: 0 = the distance argument is exactly +cell size (resp. +1/cell size for gradients) of that axis, 1 = exactly minus it, 9 = other
//   A: 0 = the area argument is exactly the subgrid's face area of that axis (gradients: always 0), 9 = other
//   w: 0 = limiter pointers are the slots of the same cells and the ghost position is cell midpoint + offset, 9 = other
#include <cfloat>
#include <cinttypes>
#include <cstdio>
#include <cstring>
#include <iostream>
#include <sstream>
#include <string>
#include <vector>
#define HYDRO_HPP
#define SAFE_HYDRO_VARIABLES
#include "HydroBoundary.hpp"
#include "HydroVariables.hpp"
#include "IonizationVariables.hpp"

class HydroDensitySubGrid;
struct Registry {
  std::vector< HydroDensitySubGrid * > grids;
  void locate(const HydroVariables *p, long &s, long &l) const;
  bool limslot(const double *w, long s, long l) const;
  int dcode(long s, int a, double dx, bool inverse) const;
  int acode(long s, int a, double A) const;
  bool posok(long s, long l, int a, int sgn, const CoordinateVector<> posR) const;
};
static Registry REG;

class Hydro {
public:
  inline void ionization_to_hydro(const IonizationVariables &, HydroVariables &) const {}
  inline void set_conserved_variables(HydroVariables &, const double) const {}
  inline double get_timestep(const HydroVariables &, const IonizationVariables &, const double) const { return 1.; }
  inline void hydro_to_ionization(const HydroVariables &, IonizationVariables &) const {}
  inline void add_ionization_energy(IonizationVariables &, HydroVariables &, const double, const double) const {}
  inline void set_primitive_variables(HydroVariables &h, IonizationVariables &, const double) const {
    long s, l;
    REG.locate(&h, s, l);
    printf("R %ld %ld\n", s, l);
  }
  inline void predict_primitive_variables(HydroVariables &h, const double) const {
    long s, l;
    REG.locate(&h, s, l);
    printf("E %ld %ld\n", s, l);
  }
  inline void apply_slope_limiter(HydroVariables &h, const double Wlim[10], const CoordinateVector<>) const {
    long s, l;
    REG.locate(&h, s, l);
    printf("S %ld %ld%s\n", s, l, REG.limslot(Wlim, s, l) ? "" : " BADLIM");
  }
  inline void do_flux_calculation(const uint_fast8_t i, HydroVariables &left, HydroVariables &right, const double dx,
                                  const double A, const double) const {
    long s, l, t, r;
    REG.locate(&left, s, l);
    REG.locate(&right, t, r);
    printf("P %d %ld %ld %ld %ld %d %d 0\n", (int)i, s, l, t, r, REG.dcode(s, i, dx, false), REG.acode(s, i, A));
  }
  inline void do_ghost_flux_calculation(const uint_fast8_t i, const CoordinateVector<> posR, HydroVariables &left,
                                        const HydroBoundary &, const double dx, const double A, const double) const {
    long s, l;
    REG.locate(&left, s, l);
    const int sgn = 1 - 2 * std::signbit(dx);
    printf("Q %d %d %ld %ld %d %d %d\n", (int)i, sgn, s, l, REG.dcode(s, i, dx, false), REG.acode(s, i, A),
           REG.posok(s, l, i, sgn, posR) ? 0 : 9);
  }
  inline void do_gradient_calculation(const int i, HydroVariables &left, HydroVariables &right, const double dxinv,
                                      double WLlim[10], double WRlim[10]) const {
    long s, l, t, r;
    REG.locate(&left, s, l);
    REG.locate(&right, t, r);
    printf("p %d %ld %ld %ld %ld %d 0 %d\n", i, s, l, t, r, REG.dcode(s, i, dxinv, true),
           (REG.limslot(WLlim, s, l) && REG.limslot(WRlim, t, r)) ? 0 : 9);
  }
  inline void do_ghost_gradient_calculation(const int_fast32_t i, const CoordinateVector<> posR, HydroVariables &left,
                                            const HydroBoundary &, const double dxinv, double WLlim[10]) const {
    long s, l;
    REG.locate(&left, s, l);
    const int sgn = 1 - 2 * std::signbit(dxinv);
    printf("q %d %d %ld %ld %d 0 %d\n", (int)i, sgn, s, l, REG.dcode(s, i, dxinv, true),
           (REG.limslot(WLlim, s, l) && REG.posok(s, l, i, sgn, posR)) ? 0 : 9);
  }
};

#define private public
#define protected public
#include "DensitySubGridCreator.hpp"
#include "HydroDensitySubGrid.hpp"
#undef private
#undef protected

void Registry::locate(const HydroVariables *p, long &s, long &l) const {
  for (size_t g = 0; g < grids.size(); ++g) {
    const HydroVariables *b = grids[g]->_hydro_variables;
    const long n = grids[g]->_number_of_cells[0] * grids[g]->_number_of_cells[3];
    // pointer offset; (p - b) is only meaningful inside the array, so compare addresses first
    if ((uintptr_t)p >= (uintptr_t)b && (uintptr_t)p < (uintptr_t)(b + n) &&
        ((uintptr_t)p - (uintptr_t)b) % sizeof(HydroVariables) == 0) {
      s = (long)g;
      l = (long)(p - b);
      return;
    }
  }
  s = -1;
  l = (long)((uintptr_t)p & 0xffff);
}
bool Registry::limslot(const double *w, long s, long l) const {
  return s >= 0 && w == &grids[s]->_primitive_variable_limiters[10 * l];
}
int Registry::dcode(long s, int a, double dx, bool inverse) const {
  if (s < 0) return 9;
  const double ref = inverse ? grids[s]->_inv_cell_size[a] : grids[s]->_cell_size[a];
  return dx == ref ? 0 : (dx == -ref ? 1 : 9);
}
int Registry::acode(long s, int a, double A) const { return (s >= 0 && A == grids[s]->_cell_areas[a]) ? 0 : 9; }
bool Registry::posok(long s, long l, int a, int sgn, const CoordinateVector<> posR) const {
  if (s < 0) return false;
  CoordinateVector<> off(0.);
  off[a] = sgn * grids[s]->_cell_size[a];
  const CoordinateVector<> e = grids[s]->get_cell_midpoint(l) + off;
  return e.x() == posR.x() && e.y() == posR.y() && e.z() == posR.z();
}

int main() {
  std::string tag;
  while (std::cin >> tag) {
    int n[3], ns[3], per[3];
    std::cin >> n[0] >> n[1] >> n[2] >> ns[0] >> ns[1] >> ns[2] >> per[0] >> per[1] >> per[2];
    const Box<> box(CoordinateVector<>(0.), CoordinateVector<>(1., 0.75, 1.25));
    DensitySubGridCreator< HydroDensitySubGrid > creator(
        box, CoordinateVector< int_fast32_t >(n[0] * ns[0], n[1] * ns[1], n[2] * ns[2]),
        CoordinateVector< int_fast32_t >(ns[0], ns[1], ns[2]), CoordinateVector< bool >(per[0], per[1], per[2]));
    const size_t N = creator.number_of_original_subgrids();
    REG.grids.clear();
    for (size_t s = 0; s < N; ++s) REG.grids.push_back(creator.create_subgrid(s));
    Hydro hydro;
    ReflectiveHydroBoundary boundary;
    const int dirp[3] = {TRAVELDIRECTION_FACE_X_P, TRAVELDIRECTION_FACE_Y_P, TRAVELDIRECTION_FACE_Z_P};
    const int dirn[3] = {TRAVELDIRECTION_FACE_X_N, TRAVELDIRECTION_FACE_Y_N, TRAVELDIRECTION_FACE_Z_N};
    const double dt = 0.125;
    // gradient sweeps (tasks 0..6 of make_hydro_tasks)
    for (size_t s = 0; s < N; ++s) {
      HydroDensitySubGrid &g = *REG.grids[s];
      g.inner_gradient_sweep(hydro);
      for (int a = 0; a < 3; ++a) {
        const uint_fast32_t ngb = g.get_neighbour(dirp[a]);
        if (ngb == NEIGHBOUR_OUTSIDE) g.outer_ghost_gradient_sweep(dirp[a], hydro, boundary);
        else g.outer_gradient_sweep(dirp[a], hydro, *REG.grids[ngb]);
        if (g.get_neighbour(dirn[a]) == NEIGHBOUR_OUTSIDE) g.outer_ghost_gradient_sweep(dirn[a], hydro, boundary);
      }
    }
    for (size_t s = 0; s < N; ++s) REG.grids[s]->apply_slope_limiter(hydro);
    for (size_t s = 0; s < N; ++s) REG.grids[s]->predict_primitive_variables(hydro, 0.5 * dt);
    // flux sweeps (tasks 9..15)
    for (size_t s = 0; s < N; ++s) {
      HydroDensitySubGrid &g = *REG.grids[s];
      g.inner_flux_sweep(hydro, dt);
      for (int a = 0; a < 3; ++a) {
        const uint_fast32_t ngb = g.get_neighbour(dirp[a]);
        if (ngb == NEIGHBOUR_OUTSIDE) g.outer_ghost_flux_sweep(dirp[a], hydro, boundary, dt);
        else g.outer_flux_sweep(dirp[a], hydro, *REG.grids[ngb], dt);
        if (g.get_neighbour(dirn[a]) == NEIGHBOUR_OUTSIDE) g.outer_ghost_flux_sweep(dirn[a], hydro, boundary, dt);
      }
    }
    for (size_t s = 0; s < N; ++s) REG.grids[s]->update_conserved_variables(dt);
    for (size_t s = 0; s < N; ++s) REG.grids[s]->update_primitive_variables(hydro);
    puts("END");
    fflush(stdout);
    for (size_t s = 0; s < N; ++s) delete REG.grids[s];
    REG.grids.clear();
  }
  return 0;
}
