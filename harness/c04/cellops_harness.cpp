// C04/C10 harness: the REAL Hydro / HydroDensitySubGrid / HydroBoundary operations applied to a small register
// file of cells, every field given and returned as a bit pattern.
// One test per input line, ';'-separated groups of blank-separated tokens:
//   N gamma maxv ; <46 hex: cell 0> ; ... ; <46 hex: cell N-1> ; op args ; op args ; ...
// cell fields: prim[5] cons[5] delta[5] grad[5][3] grav[3] eterm lim[10] T xH
// ops (i = axis, l/r = cell numbers, doubles as hex):
//   F i l r dx A dt        Hydro::do_flux_calculation
//   B kind i l dx A dt     Hydro::do_ghost_flux_calculation, kind 0 inflow / 1 outflow / 2 reflective
//   G i l r dxinv          Hydro::do_gradient_calculation
//   H kind i l dxinv       Hydro::do_ghost_gradient_calculation
//   S l dx0 dx1 dx2        Hydro::apply_slope_limiter
//   P l dt                 Hydro::predict_primitive_variables
//   U l dt                 HydroDensitySubGrid::update_conserved_variables (one-cell subgrid)
//   R l invvol             Hydro::set_primitive_variables
// output: one line, the 46 fields of every cell after the ops.
#include <cinttypes>
#include <cstdio>
#include <cstring>
#include <iostream>
#include <sstream>
#include <string>
#include <vector>
#define private public
#define protected public
#include "HydroDensitySubGrid.hpp"
#undef private
#undef protected

static double b2d(uint64_t b) { double d; std::memcpy(&d, &b, 8); return d; }
static uint64_t d2b(double d) { uint64_t b; std::memcpy(&b, &d, 8); return b; }
static double hx(const std::string &s) { return b2d(strtoull(s.c_str(), nullptr, 16)); }

struct RegCell {
  HydroVariables h;
  double lim[10];
  IonizationVariables ion;
};
static const int NF = 46;

static void load(RegCell &c, const std::vector< std::string > &t) {
  int k = 0;
  for (int j = 0; j < 5; ++j) c.h.primitives(j) = hx(t[k++]);
  for (int j = 0; j < 5; ++j) c.h.conserved(j) = hx(t[k++]);
  for (int j = 0; j < 5; ++j) c.h.delta_conserved(j) = hx(t[k++]);
  for (int j = 0; j < 5; ++j)
    for (int d = 0; d < 3; ++d) c.h.primitive_gradients(j)[d] = hx(t[k++]);
  const double ax = hx(t[k++]), ay = hx(t[k++]), az = hx(t[k++]);
  c.h.set_gravitational_acceleration(CoordinateVector<>(ax, ay, az));
  c.h.set_energy_term(hx(t[k++]));
  for (int j = 0; j < 10; ++j) c.lim[j] = hx(t[k++]);
  c.ion.set_temperature(hx(t[k++]));
  c.ion.set_ionic_fraction(ION_H_n, hx(t[k++]));
}

static void dump(const RegCell &c, std::string &out) {
  char b[32];
  auto put = [&](double x) { sprintf(b, "%016" PRIx64 " ", d2b(x)); out += b; };
  for (int j = 0; j < 5; ++j) put(c.h.primitives(j));
  for (int j = 0; j < 5; ++j) put(c.h.conserved(j));
  for (int j = 0; j < 5; ++j) put(c.h.delta_conserved(j));
  for (int j = 0; j < 5; ++j)
    for (int d = 0; d < 3; ++d) put(c.h.primitive_gradients(j)[d]);
  const CoordinateVector<> a = c.h.get_gravitational_acceleration();
  put(a.x()); put(a.y()); put(a.z());
  put(c.h.get_energy_term());
  for (int j = 0; j < 10; ++j) put(c.lim[j]);
  put(c.ion.get_temperature());
  put(c.ion.get_ionic_fraction(ION_H_n));
}

static std::vector< std::string > toks(const std::string &s) {
  std::istringstream is(s);
  std::vector< std::string > v;
  std::string w;
  while (is >> w) v.push_back(w);
  return v;
}

int main() {
  InflowHydroBoundary binflow;
  OutflowHydroBoundary boutflow;
  ReflectiveHydroBoundary breflect;
  const HydroBoundary *bnd[3] = {&binflow, &boutflow, &breflect};
  const double box[6] = {0., 0., 0., 1., 1., 1.};
  HydroDensitySubGrid one(box, CoordinateVector< int_fast32_t >(1, 1, 1));
  std::string line;
  while (std::getline(std::cin, line)) {
    std::vector< std::string > grp;
    {
      std::istringstream is(line);
      std::string g;
      while (std::getline(is, g, ';')) grp.push_back(g);
    }
    if (grp.empty()) continue;
    std::vector< std::string > h = toks(grp[0]);
    const int N = atoi(h[0].c_str());
    const double gamma = hx(h[1]), maxv = hx(h[2]);
    Hydro hydro(gamma, 100., 1.e4, maxv, false);
    std::vector< RegCell > c(N);
    for (int i = 0; i < N; ++i) load(c[i], toks(grp[1 + i]));
    for (size_t g = 1 + N; g < grp.size(); ++g) {
      std::vector< std::string > t = toks(grp[g]);
      if (t.empty()) continue;
      const char op = t[0][0];
      if (op == 'F') {
        const int i = atoi(t[1].c_str()), l = atoi(t[2].c_str()), r = atoi(t[3].c_str());
        hydro.do_flux_calculation(i, c[l].h, c[r].h, hx(t[4]), hx(t[5]), hx(t[6]));
      } else if (op == 'B') {
        const int k = atoi(t[1].c_str()), i = atoi(t[2].c_str()), l = atoi(t[3].c_str());
        hydro.do_ghost_flux_calculation(i, CoordinateVector<>(0.), c[l].h, *bnd[k], hx(t[4]), hx(t[5]), hx(t[6]));
      } else if (op == 'G') {
        const int i = atoi(t[1].c_str()), l = atoi(t[2].c_str()), r = atoi(t[3].c_str());
        hydro.do_gradient_calculation(i, c[l].h, c[r].h, hx(t[4]), c[l].lim, c[r].lim);
      } else if (op == 'H') {
        const int k = atoi(t[1].c_str()), i = atoi(t[2].c_str()), l = atoi(t[3].c_str());
        hydro.do_ghost_gradient_calculation(i, CoordinateVector<>(0.), c[l].h, *bnd[k], hx(t[4]), c[l].lim);
      } else if (op == 'S') {
        const int l = atoi(t[1].c_str());
        hydro.apply_slope_limiter(c[l].h, c[l].lim, CoordinateVector<>(hx(t[2]), hx(t[3]), hx(t[4])));
      } else if (op == 'P') {
        const int l = atoi(t[1].c_str());
        hydro.predict_primitive_variables(c[l].h, hx(t[2]));
      } else if (op == 'U') {
        const int l = atoi(t[1].c_str());
        one._hydro_variables[0] = c[l].h;
        for (int j = 0; j < 10; ++j) one._primitive_variable_limiters[j] = c[l].lim[j];
        one.update_conserved_variables(hx(t[2]));
        c[l].h = one._hydro_variables[0];
        for (int j = 0; j < 10; ++j) c[l].lim[j] = one._primitive_variable_limiters[j];
      } else if (op == 'R') {
        const int l = atoi(t[1].c_str());
        hydro.set_primitive_variables(c[l].h, c[l].ion, hx(t[2]));
      }
    }
    std::string out;
    for (int i = 0; i < N; ++i) dump(c[i], out);
    puts(out.c_str());
  }
  return 0;
}
