// C14 harness: real RestartManager/RestartWriter in a scratch directory.
// usage: rotate_harness <dir> <M> <ndumps> <chunks> <crash_point_of_last_dump|-1>
// Performs ndumps dumps (state ids 1..ndumps, <chunks> 8-byte words each). The crash point
// machinery (hook H5) is armed only for the last dump.  Prints the manager counters after every
// completed dump.
#include <cinttypes>
#include <cstdio>
#include <cstdlib>
#include <string>
#include <fstream>
#include <sstream>
#include <iostream>
#include <map>
#include <vector>
#include <algorithm>
#define private public
#include "RestartManager.hpp"
#undef private

int main(int argc, char **argv) {
  if (argc < 6)
    return 2;
  const std::string dir = argv[1];
  const uint_fast32_t M = atol(argv[2]);
  const long n = atol(argv[3]);
  const long chunks = atol(argv[4]);
  const long crash = atol(argv[5]);
  printf("sizeof_counter %zu\n", sizeof(uint_fast32_t));
  RestartManager manager(dir, 0., M, 1.e99, "");
  for (long d = 1; d <= n; ++d) {
    CMIVerifCrashState &state = cmi_verif_crash_state();
    state.armed = (d == n) ? crash : -1;
    if (d == n) {
      const char *trace = getenv("CMI_VERIF_LAST_TRACE");
      if (trace != nullptr) {
        state.trace = fopen(trace, "w");
      }
    } else {
      state.trace = nullptr;
    }
    RestartWriter *writer = manager.get_restart_writer();
    for (long c = 0; c < chunks; ++c) {
      const uint64_t word = d;
      writer->write(word);
    }
    delete writer;
    printf("after %ld %" PRIuFAST32 " %" PRIuFAST32 "\n", d, manager._number_of_backups, manager._number_of_restarts);
    fflush(stdout);
  }
  return 0;
}
