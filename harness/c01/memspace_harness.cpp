// C01 identity-level correspondence for MemorySpace::add_photons (overflow of a full outgoing buffer into a fresh buffer):
// every packet carries a tag (its weight); the tags found in the old and in the new buffer are printed.
// input line:  A cur n     (the target buffer holds packets tagged 0..cur-1, the local buffer n packets tagged 1000..)
// output line: A cur n | SAME or NEW | TARGET tags... | NEWBUF tags... | meta (subgrid and direction copied to the new buffer)
#include <cstdio>
#include <iostream>
#include <sstream>
#include <string>
#include "MemorySpace.hpp"
#include "PhotonBuffer.hpp"

int main() {
  std::string line;
  while (std::getline(std::cin, line)) {
    std::istringstream is(line);
    std::string k;
    long cur, n;
    if (!(is >> k >> cur >> n))
      continue;
    MemorySpace space(8);
    // occupy a few slots first so that the fresh buffer is not slot 1 by accident of a cleared space
    const size_t dummy = space.get_free_buffer();
    const size_t index = space.get_free_buffer();
    PhotonBuffer &target = space[index];
    target.set_subgrid_index(17);
    target.set_direction(5);
    for (long i = 0; i < cur; ++i) {
      const uint_fast32_t t = target.get_next_free_photon();
      target[t].set_weight((double)i);
    }
    PhotonBuffer local;
    local.reset();
    for (long i = 0; i < n; ++i) {
      const uint_fast32_t t = local.get_next_free_photon();
      local[t].set_weight(1000. + (double)i);
    }
    const size_t out = space.add_photons(index, local);
    printf("A %ld %ld | %s | TARGET", cur, n, (out == index) ? "SAME" : "NEW");
    for (uint_fast32_t i = 0; i < space[index].size(); ++i)
      printf(" %ld", (long)space[index][i].get_weight());
    printf(" | NEWBUF");
    if (out != index) {
      for (uint_fast32_t i = 0; i < space[out].size(); ++i)
        printf(" %ld", (long)space[out][i].get_weight());
      printf(" | meta %zu %ld", space[out].get_subgrid_index(), (long)space[out].get_direction());
    } else {
      printf(" | meta - -");
    }
    printf("\n");
    (void)dummy;
  }
  return 0;
}
