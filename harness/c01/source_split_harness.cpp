// C01 source-side correspondence harness: real DistributedPhotonSource (constructor, get_number_of_batches,
// get_photon_batch) on a real DensitySubGridCreator with subgrid copies, driven by the round-robin loop of the
// "photon source tasks" section of TaskBasedIonizationSimulation.cpp (re-typed skeleton; every call is the real member).
//
// input line:  nx ny nz  lv[0..nx*ny*nz-1]  N cap ncont nblocks nsrc  (x y z w)*nsrc        (positions in the unit box)
// output:      CASE ...;  SRC n c  per source (model inputs: floor(N*w), copies+1);  DRAWS d*;  WRAP (floors exceed N) or
//              SUBGRIDS s*;  TOTALS t*;  NBATCH b*;  TASKS (isrc size)*;  DONE sum;  CONT (block size)*
#include <cinttypes>
#include <cstdio>
#include <iostream>
#include <sstream>
#include <string>
#include <vector>
#define private public
#define protected public
#include "DensitySubGridCreator.hpp"
#include "DistributedPhotonSource.hpp"
#include "HomogeneousDensityFunction.hpp"
#include "PhotonSourceDistribution.hpp"
#include "RandomGenerator.hpp"
#undef private
#undef protected

typedef DensitySubGridCreator< DensitySubGrid > Creator;

class ListDistribution : public PhotonSourceDistribution {
public:
  std::vector< CoordinateVector<> > _pos;
  std::vector< double > _w;
  virtual photonsourcenumber_t get_number_of_sources() const { return _pos.size(); }
  virtual CoordinateVector<> get_position(photonsourcenumber_t i) { return _pos[i]; }
  virtual double get_weight(photonsourcenumber_t i) const { return _w[i]; }
  virtual double get_total_luminosity() const { return 1.e48; }
};

int main() {
  std::string line;
  while (std::getline(std::cin, line)) {
    std::istringstream is(line);
    long nx, ny, nz;
    if (!(is >> nx >> ny >> nz))
      continue;
    const size_t NS = nx * ny * nz;
    std::vector< uint_fast8_t > lv(NS, 0);
    for (size_t i = 0; i < NS; ++i) {
      long l;
      is >> l;
      lv[i] = l;
    }
    size_t N, cap, ncont, nblocks, nsrc;
    is >> N >> cap >> ncont >> nblocks >> nsrc;
    ListDistribution dist;
    for (size_t i = 0; i < nsrc; ++i) {
      double x, y, z, w;
      is >> x >> y >> z >> w;
      dist._pos.push_back(CoordinateVector<>(x, y, z));
      dist._w.push_back(w);
    }
    printf("CASE %ld %ld %ld %zu %zu %zu %zu %zu\n", nx, ny, nz, N, cap, ncont, nblocks, nsrc);
    Creator creator(Box<>(CoordinateVector<>(0.), CoordinateVector<>(1.)), CoordinateVector< int_fast32_t >(4 * nx, 4 * ny, 4 * nz),
                    CoordinateVector< int_fast32_t >(nx, ny, nz), CoordinateVector< bool >(false, false, false));
    HomogeneousDensityFunction df(1., 8000.);
    creator.initialize(df);
    creator.create_copies(lv);
    // model inputs, computed independently of the class under test
    size_t floors = 0;
    for (size_t i = 0; i < nsrc; ++i) {
      const size_t n = N * dist._w[i];
      auto it = creator.get_subgrid(dist._pos[i]);
      auto cp = it.get_copies();
      size_t c = 1;
      if (cp.first != creator.all_end())
        for (auto j = cp.first; j != cp.second; ++j)
          ++c;
      printf("SRC %zu %zu\n", n, c);
      floors += n;
    }
    if (floors > N) {
      printf("WRAP\n");
      fflush(stdout);
      continue;
    }
    {
      RandomGenerator rg;
      printf("DRAWS");
      for (size_t i = 0; i < N - floors; ++i) {
        const size_t index = rg.get_uniform_random_double() * nsrc;
        printf(" %zu", index);
      }
      printf("\n");
    }
    DistributedPhotonSource< DensitySubGrid > source(N, dist, creator);
    printf("SUBGRIDS");
    for (size_t i = 0; i < source._subgrids.size(); ++i)
      printf(" %zu", source._subgrids[i]);
    printf("\nTOTALS");
    for (size_t i = 0; i < source._total_number_of_photons.size(); ++i)
      printf(" %zu", source._total_number_of_photons[i]);
    printf("\nNBATCH");
    for (size_t i = 0; i < source.get_number_of_sources(); ++i)
      printf(" %zu", source.get_number_of_batches(i, cap));
    printf("\nTASKS");
    // the loop of TaskBasedIonizationSimulation.cpp ("photon source tasks"), PHOTONBUFFER_SIZE = cap
    size_t number_of_photons_done = 0;
    const size_t number_of_discrete_photons = N;
    size_t guard = 0;
    while (number_of_photons_done < number_of_discrete_photons && guard < 4 * N + 16) {
      for (size_t isrc = 0; isrc < source.get_number_of_sources(); ++isrc) {
        const size_t number_of_photons_this_batch = source.get_photon_batch(isrc, cap);
        if (number_of_photons_this_batch > 0) {
          printf(" %zu %zu", isrc, number_of_photons_this_batch);
          number_of_photons_done += number_of_photons_this_batch;
        }
      }
      ++guard;
    }
    printf("\nDONE %zu", number_of_photons_done);
    for (size_t i = 0; i < source._number_done.size(); ++i)
      printf(" %zu", source._number_done[i]);
    // all further requests return 0
    size_t extra = 0;
    for (size_t i = 0; i < source.get_number_of_sources(); ++i)
      extra += source.get_photon_batch(i, cap);
    printf(" EXTRA %zu\n", extra);
    // continuous source batches
    printf("CONT");
    {
      const uint_fast32_t batch_size = cap;
      uint_fast32_t block_index = 0;
      const uint_fast32_t num_batches = ncont / batch_size;
      for (uint_fast32_t ibatch = 0; ibatch < num_batches; ++ibatch) {
        printf(" %" PRIuFAST32 " %" PRIuFAST32, (uint_fast32_t)(block_index % nblocks), batch_size);
        ++block_index;
      }
      const uint_fast32_t num_last_batch = ncont % batch_size;
      if (num_last_batch > 0)
        printf(" %" PRIuFAST32 " %" PRIuFAST32, (uint_fast32_t)(block_index % nblocks), num_last_batch);
    }
    printf("\n");
    fflush(stdout);
  }
  return 0;
}
