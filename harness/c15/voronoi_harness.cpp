// C15 harness: runs the REAL NewVoronoiGrid / OldVoronoiGrid classes on generator sets read from stdin and prints
// everything the check needs in canonical text (doubles as 16 hex digits of the bit pattern, indices in decimal).
//
// The four translation units of the Voronoi code (LegacyEngine library in the repository's build) are compiled
// into this harness by #include of the .cpp files; all other code they use is header-only.  HAVE_MULTIPRECISION comes
// from the configured Configuration.hpp (Boost.Multiprecision is installed here), so the exact predicates are the
// real ones.  `private` is redefined only AFTER every system/Boost header has been included, and only to READ two
// private members of NewVoronoiGrid: _real_rescaled_positions and _real_rescaled_box (the internal integer-mantissa
// representation in [1,2) on which the exact predicates run; the Delaunay structure the class builds is the one of
// these positions).  No repository code is modified or called differently from production.
//
// input, one problem:
//   P <n> <m> <anchor x y z> <sides x y z> <k> <variant>*k     variant = N<threads> | O<threads>
//   n lines  x y z   generator positions
//   m lines  x y z   query positions for get_index
// output per variant V (each variant runs in a forked child so that abort()/hang of one variant is observable):
//   V B ax ay az sx sy sz tx ty tz   (N only) internal box anchor, sides and fl(anchor+sides)
//   V R i x y z                      (N only) internal position of generator i
//   V W i c0 .. c5                   (N only) mirrored coordinate of generator i in the 6 wall copies (L R F B Bo T) as the class computes them
//   V T c0x c0y c0z c1x .. c3z       (N only) the four corners of the all-enclosing tetrahedron in the internal representation
//   V P ok nbad                      (N only) precondition of the exact predicates (ExactGeometricTests works on the 52-bit
//                                    mantissas and needs every coordinate in [1,2)): ok = 1 iff all internal coordinates printed
//                                    above are in [1,2).  When ok = 0 the grid is NOT constructed (the predicates would run on
//                                    garbage; the class can then loop forever or read out of bounds) unless C15_FORCE=1 is set.
//   V C i volume cx cy cz nfaces
//   V F i neighbour area mx my mz nvert
//   V D i a b c                      (N1 only) the Delaunay tetrahedra (g_i, a, b, c) of cell i's final triangulation that contain g_i: the
//                                    class computes each vertex of the cell as the circumcentre of one of them (NewVoronoiCellConstructor::
//                                    get_cell).  Obtained by calling the class's own compute_cell(i, constructor) once more and reading the
//                                    constructor's private _tetrahedra/_vertices.  Used ONLY to scale the tolerance of the numeric oracle.
//   V L q index
//   V X <reason>                     child died (signal / exit code)
//   V E                              end of variant
#include <algorithm>
#include <boost/multiprecision/integer.hpp>
#include <cfloat>
#include <cinttypes>
#include <climits>
#include <cmath>
#include <cstdint>
#include <cstdio>
#include <cstdlib>
#include <cstring>
#include <fstream>
#include <iomanip>
#include <iostream>
#include <omp.h>
#include <ostream>
#include <sstream>
#include <string>
#include <tuple>
#include <vector>
#include <sys/wait.h>
#include <unistd.h>

// every call of an exact predicate made by the Voronoi sources goes through this wrapper: the predicates read the 52-bit mantissa
// of their arguments, which is the coordinate only for arguments in [1,2)
#include "ExactGeometricTests.hpp"
static long long c17_pred_calls = 0, c17_pred_bad = 0;
static double c17_pred_first = 0.;
static inline void c17_chk(const CoordinateVector<> &p) {
  for (int a = 0; a < 3; ++a)
    if (!(p[a] >= 1. && p[a] < 2.)) {
      if (__sync_fetch_and_add(&c17_pred_bad, 1) == 0) c17_pred_first = p[a];
    }
}
struct CheckedGeometricTests {
  static char orient3d_adaptive(const CoordinateVector<> &a, const CoordinateVector<> &b, const CoordinateVector<> &c, const CoordinateVector<> &d) {
    __sync_fetch_and_add(&c17_pred_calls, 1);
    c17_chk(a); c17_chk(b); c17_chk(c); c17_chk(d);
    return ExactGeometricTests::orient3d_adaptive(a, b, c, d);
  }
  static char insphere_adaptive(const CoordinateVector<> &a, const CoordinateVector<> &b, const CoordinateVector<> &c, const CoordinateVector<> &d, const CoordinateVector<> &e) {
    __sync_fetch_and_add(&c17_pred_calls, 1);
    c17_chk(a); c17_chk(b); c17_chk(c); c17_chk(d); c17_chk(e);
    return ExactGeometricTests::insphere_adaptive(a, b, c, d, e);
  }
  static char insphere_exact(const CoordinateVector<> &a, const CoordinateVector<> &b, const CoordinateVector<> &c, const CoordinateVector<> &d, const CoordinateVector<> &e) {
    __sync_fetch_and_add(&c17_pred_calls, 1);
    c17_chk(a); c17_chk(b); c17_chk(c); c17_chk(d); c17_chk(e);
    return ExactGeometricTests::insphere_exact(a, b, c, d, e);
  }
};
#define ExactGeometricTests CheckedGeometricTests
#define private public
#include "NewVoronoiGrid.cpp"
#undef private
#include "NewVoronoiCellConstructor.cpp"
#undef ExactGeometricTests
#include "OldVoronoiCell.cpp"
#include "OldVoronoiGrid.cpp"

static double b2d(uint64_t b) {
  double d;
  std::memcpy(&d, &b, 8);
  return d;
}
static unsigned long long H(double d) {
  uint64_t b;
  std::memcpy(&b, &d, 8);
  return (unsigned long long)b;
}

static void dump(const char *tag, const VoronoiGrid &g, size_t n, const std::vector< CoordinateVector<> > &q) {
  for (size_t i = 0; i < n; ++i) {
    const double v = g.get_volume(i);
    const CoordinateVector<> c = g.get_centroid(i);
    const std::vector< VoronoiFace > f = g.get_faces(i);
    printf("%s C %zu %016llx %016llx %016llx %016llx %zu\n", tag, i, H(v), H(c.x()), H(c.y()), H(c.z()), f.size());
    for (size_t k = 0; k < f.size(); ++k) {
      const CoordinateVector<> m = f[k].get_midpoint();
      printf("%s F %zu %lu %016llx %016llx %016llx %016llx %zu\n", tag, i, (unsigned long)f[k].get_neighbour(),
             H(f[k].get_surface_area()), H(m.x()), H(m.y()), H(m.z()), f[k].get_vertices().size());
    }
  }
  for (size_t k = 0; k < q.size(); ++k)
    printf("%s L %zu %lu\n", tag, k, (unsigned long)g.get_index(q[k]));
}

int main() {
  std::string op;
  while (std::cin >> op) {
    if (op != "P") {
      printf("? %s\n", op.c_str());
      continue;
    }
    size_t n, m, k;
    uint64_t w[6];
    std::cin >> std::dec >> n >> m;
    for (int i = 0; i < 6; ++i)
      std::cin >> std::hex >> w[i];
    std::cin >> std::dec >> k;
    std::vector< std::string > variants(k);
    for (size_t i = 0; i < k; ++i)
      std::cin >> variants[i];
    const Box<> box(CoordinateVector<>(b2d(w[0]), b2d(w[1]), b2d(w[2])), CoordinateVector<>(b2d(w[3]), b2d(w[4]), b2d(w[5])));
    std::vector< CoordinateVector<> > pos(n), q(m);
    for (size_t i = 0; i < n + m; ++i) {
      uint64_t a, b, c;
      std::cin >> std::hex >> a >> b >> c;
      (i < n ? pos[i] : q[i - n]) = CoordinateVector<>(b2d(a), b2d(b), b2d(c));
    }
    for (size_t iv = 0; iv < k; ++iv) {
      const char *tag = variants[iv].c_str();
      const int nthr = atoi(tag + 1);
      fflush(stdout);
      const pid_t pid = fork();
      if (pid == 0) {
        alarm(getenv("C15_ALARM") ? atoi(getenv("C15_ALARM")) : 600);
        if (tag[0] == 'N') {
          NewVoronoiGrid g(pos, box);
          const Box<> rb = g._real_rescaled_box._box;
          const CoordinateVector<> top = rb.get_anchor() + rb.get_sides();
          printf("%s B %016llx %016llx %016llx %016llx %016llx %016llx %016llx %016llx %016llx\n", tag, H(rb.get_anchor().x()),
                 H(rb.get_anchor().y()), H(rb.get_anchor().z()), H(rb.get_sides().x()), H(rb.get_sides().y()), H(rb.get_sides().z()),
                 H(top.x()), H(top.y()), H(top.z()));
          for (size_t i = 0; i < n; ++i) {
            const CoordinateVector<> &p = g._real_rescaled_positions[i];
            printf("%s R %zu %016llx %016llx %016llx\n", tag, i, H(p.x()), H(p.y()), H(p.z()));
            printf("%s W %zu", tag, i);
            for (uint_fast32_t wl = 0; wl < 6; ++wl) {
              const CoordinateVector<> cp = g._real_rescaled_box.get_position(NEWVORONOICELL_BOX_LEFT + wl, p);
              printf(" %016llx", H(cp[wl / 2]));
            }
            printf("\n");
          }
          printf("%s T", tag);
          size_t nbad = 0;
          for (uint_fast32_t c = 0; c < 4; ++c) {
            const CoordinateVector<> cp = g._real_rescaled_box.get_position(NEWVORONOICELL_BOX_CORNER0 + c, CoordinateVector<>(0.));
            for (int a = 0; a < 3; ++a) {
              printf(" %016llx", H(cp[a]));
              if (!(cp[a] >= 1. && cp[a] < 2.))
                ++nbad;
            }
          }
          printf("\n");
          for (size_t i = 0; i < n; ++i) {
            const CoordinateVector<> &p = g._real_rescaled_positions[i];
            for (int a = 0; a < 3; ++a)
              if (!(p[a] >= 1. && p[a] < 2.))
                ++nbad;
            for (uint_fast32_t wl = 0; wl < 6; ++wl) {
              const double c = g._real_rescaled_box.get_position(NEWVORONOICELL_BOX_LEFT + wl, p)[wl / 2];
              if (!(c >= 1. && c < 2.))
                ++nbad;
            }
          }
          printf("%s P %d %zu\n", tag, nbad == 0 ? 1 : 0, nbad);
          fflush(stdout); // what the class was given must be visible even if the construction never returns
          if (nbad == 0 || getenv("C15_FORCE") != nullptr) {
            c17_pred_calls = c17_pred_bad = 0;
            g.compute_grid(nthr);
            printf("%s Q %lld %lld %016llx\n", tag, c17_pred_calls, c17_pred_bad, H(c17_pred_first));
            dump(tag, g, n, q);
            if (nthr == 1) {
              NewVoronoiCellConstructor *con = new NewVoronoiCellConstructor();
              for (size_t i = 0; i < n; ++i) {
                g.compute_cell(i, *con);
                for (uint_fast32_t t = 0; t < con->_tetrahedra_size; ++t) {
                  if (!con->_tetrahedra[t].is_active())
                    continue;
                  unsigned long v[4];
                  int zero = -1;
                  for (int a = 0; a < 4; ++a) {
                    v[a] = con->_tetrahedra[t].get_vertex(a);
                    if (v[a] == 0)
                      zero = a;
                  }
                  if (zero < 0)
                    continue;
                  printf("%s D %zu", tag, i);
                  for (int a = 0; a < 4; ++a)
                    if (a != zero)
                      printf(" %lu", (unsigned long)con->_vertices[v[a]]);
                  printf("\n");
                }
              }
              delete con;
            }
          }
        } else {
          OldVoronoiGrid g(pos, box);
          g.compute_grid(nthr);
          dump(tag, g, n, q);
        }
        fflush(stdout);
        _exit(0);
      }
      int st = 0;
      waitpid(pid, &st, 0);
      if (WIFSIGNALED(st))
        printf("%s X signal %d\n", tag, WTERMSIG(st));
      else if (WEXITSTATUS(st) != 0)
        printf("%s X exit %d\n", tag, WEXITSTATUS(st));
      printf("%s E\n", tag);
      fflush(stdout);
    }
  }
  return 0;
}
