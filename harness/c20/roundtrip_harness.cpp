// C20 correspondence harness: drives the real YAMLDictionary / ParameterFile / UnitConverter
// with the commands read from stdin (all strings hex encoded, one answer line per command).
//   Y <text>                     parse, print, re-parse
//   Q <text> <n> {<type> <key> <default>}*   ParameterFile: queries, used-values dump, re-parse, same queries again
//   G <unit>                     get_unit
//   C <q> <value bits> <unit>    to_SI<q>, to_unit<q> of the result
//   V <value bits> <from> <to>   convert
//   S <q>                        get_SI_unit_name
#include <algorithm>
#include <cinttypes>
#include <cstdio>
#include <cstring>
#include <fstream>
#include <iostream>
#include <map>
#include <sstream>
#include <stdexcept>
#include <string>
#include <vector>

struct HarnessError {};
#include "Error.hpp"
// the error macro aborts the process; make it observable instead (error path only)
#undef cmac_error
#define cmac_error(s, ...)                                                                                             \
  { throw HarnessError(); }

#define private public
#include "ParameterFile.cpp"
#undef private

static std::string hex(const std::string &s) {
  if (s.empty())
    return "-";
  static const char *d = "0123456789abcdef";
  std::string r;
  for (unsigned char c : s) {
    r += d[c >> 4];
    r += d[c & 15];
  }
  return r;
}
static std::string unhex(const std::string &h) {
  if (h == "-")
    return "";
  std::string r;
  for (size_t i = 0; i + 1 < h.size(); i += 2)
    r += (char)std::stoi(h.substr(i, 2), nullptr, 16);
  return r;
}
static double b2d(uint64_t b) {
  double d;
  std::memcpy(&d, &b, 8);
  return d;
}
static std::string d2h(double d) {
  uint64_t b;
  std::memcpy(&b, &d, 8);
  char buf[32];
  snprintf(buf, sizeof buf, "%016" PRIx64, b);
  return buf;
}
static std::string dump(const std::map< std::string, std::string > &m) {
  if (m.empty())
    return "-";
  std::string r;
  for (auto it = m.begin(); it != m.end(); ++it) {
    if (!r.empty())
      r += ",";
    r += hex(it->first) + ":" + hex(it->second);
  }
  return r;
}

template < int Q > struct Conv {
  static double si(int q, double v, const std::string &u) {
    return q == Q ? UnitConverter::to_SI< (Quantity)Q >(v, u) : Conv< Q - 1 >::si(q, v, u);
  }
  static double un(int q, double v, const std::string &u) {
    return q == Q ? UnitConverter::to_unit< (Quantity)Q >(v, u) : Conv< Q - 1 >::un(q, v, u);
  }
  static double pv(int q, ParameterFile &p, const std::string &k, const std::string &d) {
    return q == Q ? p.get_physical_value< (Quantity)Q >(k, d) : Conv< Q - 1 >::pv(q, p, k, d);
  }
  static CoordinateVector<> pvec(int q, ParameterFile &p, const std::string &k, const std::string &d) {
    return q == Q ? p.get_physical_vector< (Quantity)Q >(k, d) : Conv< Q - 1 >::pvec(q, p, k, d);
  }
};
template <> struct Conv< -1 > {
  static double si(int, double, const std::string &) { throw HarnessError(); }
  static double un(int, double, const std::string &) { throw HarnessError(); }
  static double pv(int, ParameterFile &, const std::string &, const std::string &) { throw HarnessError(); }
  static CoordinateVector<> pvec(int, ParameterFile &, const std::string &, const std::string &) {
    throw HarnessError();
  }
};
typedef Conv< NUMBER_OF_QUANTITIES - 1 > AllQ;

struct Query {
  std::string type, key, def;
};

// result of one query as text: doubles as bit patterns, everything else verbatim (hex)
static std::string run_query(ParameterFile &p, const Query &q) {
  try {
    if (q.type == "s") {
      return "s" + hex(p.get_value< std::string >(q.key, q.def));
    } else if (q.type == "d") {
      return "d" + d2h(p.get_value< double >(q.key, Utilities::convert< double >(q.def)));
    } else if (q.type == "i") {
      return "i" + std::to_string(p.get_value< int >(q.key, Utilities::convert< int >(q.def)));
    } else if (q.type == "b") {
      return std::string("b") + (p.get_value< bool >(q.key, Utilities::convert< bool >(q.def)) ? "1" : "0");
    } else if (q.type == "v") {
      CoordinateVector<> v = p.get_value< CoordinateVector<> >(q.key, Utilities::convert< CoordinateVector<> >(q.def));
      return "v" + d2h(v.x()) + "/" + d2h(v.y()) + "/" + d2h(v.z());
    } else if (q.type[0] == 'p') {
      return "p" + d2h(AllQ::pv(std::stoi(q.type.substr(1)), p, q.key, q.def));
    } else if (q.type[0] == 'w') {
      CoordinateVector<> v = AllQ::pvec(std::stoi(q.type.substr(1)), p, q.key, q.def);
      return "w" + d2h(v.x()) + "/" + d2h(v.y()) + "/" + d2h(v.z());
    }
  } catch (HarnessError &) {
    return "ERR";
  } catch (std::exception &) {
    return "EXC";
  }
  return "?";
}

int main(int argc, char **argv) {
  const std::string tmp = argc > 1 ? argv[1] : "c20_param.tmp";
  std::string op;
  while (std::cin >> op) {
    std::string out = op;
    try {
      if (op == "Y") {
        std::string h;
        std::cin >> h;
        std::istringstream is(unhex(h));
        YAMLDictionary d(is);
        out += " D=" + dump(d._dictionary);
        std::ostringstream os;
        d.print_contents(os);
        out += " P=" + hex(os.str());
        try {
          std::istringstream is2(os.str());
          YAMLDictionary d2(is2);
          out += " R=" + dump(d2._dictionary);
        } catch (HarnessError &) {
          out += " R=ERR";
        }
      } else if (op == "Q") {
        std::string h;
        size_t n;
        std::cin >> h >> n;
        std::vector< Query > qs(n);
        for (size_t i = 0; i < n; ++i) {
          std::string k, d;
          std::cin >> qs[i].type >> k >> d;
          qs[i].key = unhex(k);
          qs[i].def = unhex(d);
        }
        {
          std::ofstream f(tmp);
          f << unhex(h);
        }
        ParameterFile p(tmp);
        out += " A=";
        for (size_t i = 0; i < n; ++i)
          out += (i ? "," : "") + run_query(p, qs[i]);
        if (n == 0)
          out += "-";
        out += " D=" + dump(p._yaml_dictionary._dictionary);
        out += " U=" + dump(p._yaml_dictionary._used_values);
        std::ostringstream os;
        p.print_contents(os);
        // the first line is "# file written on <time stamp>."; keep it out of the compared text
        std::string text = os.str();
        const size_t nl = text.find('\n');
        const std::string first = text.substr(0, nl);
        out += std::string(" H=") + (first.compare(0, 18, "# file written on ") == 0 ? "1" : "0");
        out += " W=" + hex(text.substr(nl + 1));
        {
          std::ofstream f(tmp);
          f << text;
        }
        try {
          ParameterFile p2(tmp);
          out += " R=" + dump(p2._yaml_dictionary._dictionary);
          out += " B=";
          for (size_t i = 0; i < n; ++i)
            out += (i ? "," : "") + run_query(p2, qs[i]);
          if (n == 0)
            out += "-";
          std::ostringstream os2;
          p2.print_contents(os2);
          std::string t2 = os2.str();
          out += " W2=" + hex(t2.substr(t2.find('\n') + 1));
        } catch (HarnessError &) {
          out += " R=ERR";
        }
      } else if (op == "G") {
        std::string h;
        std::cin >> h;
        Unit u = UnitConverter::get_unit(unhex(h));
        char buf[160];
        snprintf(buf, sizeof buf, " %s %ld %ld %ld %ld %ld %ld", d2h(u._value).c_str(), (long)u._length, (long)u._time,
                 (long)u._mass, (long)u._temperature, (long)u._current, (long)u._angle);
        out += buf;
      } else if (op == "C") {
        int q;
        uint64_t b;
        std::string h;
        std::cin >> q >> std::hex >> b >> std::dec >> h;
        const double si = AllQ::si(q, b2d(b), unhex(h));
        out += " " + d2h(si);
        out += " " + d2h(AllQ::un(q, si, unhex(h)));
      } else if (op == "V") {
        uint64_t b;
        std::string f, t;
        std::cin >> std::hex >> b >> std::dec >> f >> t;
        out += " " + d2h(UnitConverter::convert(b2d(b), unhex(f), unhex(t)));
      } else if (op == "S") {
        int q;
        std::cin >> q;
        if (q < 0 || q >= NUMBER_OF_QUANTITIES)
          throw HarnessError();
        out += " " + hex(UnitConverter::get_SI_unit_name(q));
      } else if (op == "N") {
        out += " " + std::to_string((int)NUMBER_OF_QUANTITIES);
      } else {
        out += " ?";
      }
    } catch (HarnessError &) {
      out += " ERR";
    } catch (std::exception &) {
      out += " ERR";
    }
    std::cout << out << "\n";
  }
  std::remove(tmp.c_str());
  return 0;
}
