// C20 snapshot round trip harness: REAL grid -> REAL HDF5 writer -> REAL snapshot reader -> REAL grid.
//
//   usage: snapshot_harness <work directory>         commands on stdin, one per line:
//
//   S <mode> <salt> <hex of parameter file text>
//      mode T : DensitySubGridCreator< DensitySubGrid > + GadgetDensityGridWriter::write(grid_creator, ..)
//               (what TaskBasedIonizationSimulation does) read back by CMacIonizeSnapshotDensityFunction
//      mode H : the same with DensitySubGridCreator< HydroDensitySubGrid > (third writer overload)
//      mode L : CartesianDensityGrid + GadgetDensityGridWriter::write(DensityGrid &, ..) (IonizationSimulation)
//      mode B : as T, but read back with BufferedCMacIonizeSnapshotDensityFunction
//   The parameter file text is what a user would write: SimulationBox, DensityGrid:number of cells,
//   DensitySubGridCreator:number of subgrids, DensityGridWriterFields:*, (DensityGrid:type).
//
//   Every cell gets its own values, functions of its global index gidx = (ix*Ny + iy)*Nz + iz that the
//   harness computes from the cell MIDPOINT with its own arithmetic (not with the index code under test):
//      number density  = 1 + salt + gidx
//      temperature     = 1000 + salt + gidx/4
//      neutral fraction of ion k = ((gidx + 1) * 32 + k) * 2^-40        (all exactly representable)
//
//   Answer (one block per command):
//      G <mode> nx ny nz sx sy sz ncell elsize nfield <field names>    elsize = H5Tget_size of the stored NumberDensity
//      W <p> <bits of field_0[p]> ...            raw content of the file, dataset position p (what the WRITER did)
//      K <p> <bits x> <bits y> <bits z>          raw stored Coordinates (only when stored)
//      C <ix> <iy> <iz> <w_0>:<r_0> ...          per cell of a second grid on the same geometry initialised from the
//                                                snapshot: value in the written grid : value read back (bit patterns)
//      E ok | E error <text>
#include <algorithm>
#include <cinttypes>
#include <cmath>
#include <cstdio>
#include <cstdlib>
#include <cstring>
#include <fstream>
#include <iostream>
#include <sstream>
#include <stdexcept>
#include <string>
#include <vector>

struct HarnessError {
  std::string what;
};
#include "Error.hpp"
// the error macro aborts the process; make it observable instead (error path only)
#undef cmac_error
#define cmac_error(s, ...)                                                                                             \
  {                                                                                                                    \
    char cmac_error_buffer[2000];                                                                                      \
    snprintf(cmac_error_buffer, sizeof cmac_error_buffer, s, ##__VA_ARGS__);                                           \
    throw HarnessError{std::string(cmac_error_buffer)};                                                                \
  }

// the code under test, compiled from the sources of the tree (they live in libSharedEngine / libLegacyEngine)
#include "ParameterFile.cpp"
#include "CompilerInfo.hpp"
#include "ConfigurationInfo.cpp"
#include "GadgetDensityGridWriter.cpp"
#include "CMacIonizeSnapshotDensityFunction.cpp"
#include "BufferedCMacIonizeSnapshotDensityFunction.hpp"
#include "CartesianDensityGrid.cpp"
#include "DensityGrid.cpp"
#include "SimulationBox.hpp"

// CompilerInfo.cpp is generated at build time by a cmake script (needs git); its content only ends up in the /Code
// group of the snapshot, which the reader ignores
const char CompilerInfo::_git_build_string[] = "c20-harness";
const uint_least32_t CompilerInfo::_compilation_time_day = 1;
const uint_least32_t CompilerInfo::_compilation_time_month = 1;
const uint_least32_t CompilerInfo::_compilation_time_year = 2000;
const uint_least32_t CompilerInfo::_compilation_time_hour = 0;
const uint_least32_t CompilerInfo::_compilation_time_minutes = 0;
const uint_least32_t CompilerInfo::_compilation_time_seconds = 0;
const char CompilerInfo::_compiler_name[] = "harness";
const char CompilerInfo::_compiler_version[] = "0";
const char CompilerInfo::_os_name[] = "os";
const char CompilerInfo::_os_kernel_name[] = "kernel";
const char CompilerInfo::_os_kernel_release[] = "0";
const char CompilerInfo::_os_kernel_version[] = "0";
const char CompilerInfo::_os_hardware_name[] = "hw";
const char CompilerInfo::_os_host_name[] = "host";

static std::string unhex(const std::string &h) {
  if (h == "-")
    return "";
  std::string r;
  for (size_t i = 0; i + 1 < h.size(); i += 2)
    r += (char)std::stoi(h.substr(i, 2), nullptr, 16);
  return r;
}
static std::string d2h(double d) {
  uint64_t b;
  std::memcpy(&b, &d, 8);
  char buf[32];
  snprintf(buf, sizeof buf, "%016" PRIx64, b);
  return buf;
}

/// value assignment ------------------------------------------------------------------------------------------------
struct Geometry {
  Box<> box;
  long n[3];
  long s[3];
  long salt;
  // global index of the cell with this midpoint; own arithmetic: (p - anchor) / side * n is i + 1/2 up to round off
  void cell_of(const CoordinateVector<> p, long c[3]) const {
    for (int a = 0; a < 3; ++a) {
      c[a] = (long)std::floor((p[a] - box.get_anchor()[a]) / box.get_sides()[a] * (double)n[a]);
    }
  }
  long gidx(const long c[3]) const { return (c[0] * n[1] + c[1]) * n[2] + c[2]; }
  double density(long g) const { return 1. + (double)salt + (double)g; }
  double temperature(long g) const { return 1000. + (double)salt + 0.25 * (double)g; }
  double fraction(long g, int ion) const { return std::ldexp((double)((g + 1) * 32 + ion), -40); }
};

class IndexedDensityFunction : public DensityFunction {
public:
  const Geometry &_g;
  IndexedDensityFunction(const Geometry &g) : _g(g) {}
  virtual DensityValues operator()(const Cell &cell) {
    long c[3];
    _g.cell_of(cell.get_cell_midpoint(), c);
    const long g = _g.gidx(c);
    DensityValues v;
    v.set_number_density(_g.density(g));
    v.set_temperature(_g.temperature(g));
    for (int ion = 0; ion < NUMBER_OF_IONNAMES; ++ion) {
      v.set_ionic_fraction(ion, _g.fraction(g, ion));
    }
    return v;
  }
};

/// stored fields of interest (in the order they are reported) ------------------------------------------------------
struct Field {
  std::string name; // dataset name
  int kind;         // 0 density, 1 temperature, 2 neutral fraction
  int ion;
};

static std::vector< Field > stored_fields(hid_t group) {
  std::vector< Field > f;
  if (HDF5Tools::group_exists(group, "NumberDensity"))
    f.push_back(Field{"NumberDensity", 0, 0});
  if (HDF5Tools::group_exists(group, "Temperature"))
    f.push_back(Field{"Temperature", 1, 0});
  for (int ion = 0; ion < NUMBER_OF_IONNAMES; ++ion) {
    const std::string name = "NeutralFraction" + get_ion_name(ion);
    if (HDF5Tools::group_exists(group, name))
      f.push_back(Field{name, 2, ion});
  }
  return f;
}

static double field_value(const Field &f, const IonizationVariables &v) {
  switch (f.kind) {
  case 0:
    return v.get_number_density();
  case 1:
    return v.get_temperature();
  default:
    return v.get_ionic_fraction(f.ion);
  }
}

static size_t element_size(hid_t group, const std::string name) {
  const hid_t ds = H5Dopen2(group, name.c_str(), H5P_DEFAULT);
  if (ds < 0)
    return 0;
  const hid_t t = H5Dget_type(ds);
  const size_t sz = H5Tget_size(t);
  H5Tclose(t);
  H5Dclose(ds);
  return sz;
}

/// one round trip --------------------------------------------------------------------------------------------------
template < typename _subgrid_type_ >
static void fill_and_compare_taskbased(const char mode, ParameterFile &params, const Geometry &geo,
                                       const std::string &workdir, const std::string &snapname,
                                       const std::string &readparamname, std::ostringstream &out);

static void report_file(const Geometry &geo, const char mode, const std::string &snapname,
                        std::vector< Field > &fields, std::ostringstream &out) {
  HDF5Tools::HDF5File file = HDF5Tools::open_file(snapname, HDF5Tools::HDF5FILEMODE_READ);
  HDF5Tools::HDF5Group group = HDF5Tools::open_group(file, "/PartType0");
  fields = stored_fields(group);
  const long ncell = geo.n[0] * geo.n[1] * geo.n[2];
  out << "G " << mode << " " << geo.n[0] << " " << geo.n[1] << " " << geo.n[2] << " " << geo.s[0] << " " << geo.s[1]
      << " " << geo.s[2] << " " << ncell << " " << element_size(group, "NumberDensity") << " " << fields.size();
  for (auto &f : fields)
    out << " " << f.name;
  out << "\n";
  std::vector< std::vector< double > > raw;
  for (auto &f : fields)
    raw.push_back(HDF5Tools::read_dataset< double >(group, f.name));
  const size_t nrow = raw.empty() ? 0 : raw[0].size();
  for (size_t p = 0; p < nrow; ++p) {
    out << "W " << p;
    for (size_t k = 0; k < raw.size(); ++k)
      out << " " << (p < raw[k].size() ? d2h(raw[k][p]) : std::string("short"));
    out << "\n";
  }
  if (HDF5Tools::group_exists(group, "Coordinates")) {
    std::vector< CoordinateVector<> > xs = HDF5Tools::read_dataset< CoordinateVector<> >(group, "Coordinates");
    for (size_t p = 0; p < xs.size(); ++p)
      out << "K " << p << " " << d2h(xs[p].x()) << " " << d2h(xs[p].y()) << " " << d2h(xs[p].z()) << "\n";
  }
  HDF5Tools::close_group(group);
  HDF5Tools::close_file(file);
}

static DensityFunction *make_reader(const char mode, const std::string &readparamname) {
  // what DensityFunctionFactory::generate does for "DensityFunction:type: CMacIonizeSnapshot" /
  // "BufferedCMacIonizeSnapshot"
  ParameterFile readparams(readparamname);
  if (mode == 'B')
    return new BufferedCMacIonizeSnapshotDensityFunction(readparams, nullptr);
  return new CMacIonizeSnapshotDensityFunction(readparams, nullptr);
}

template < typename _subgrid_type_ >
static void fill_and_compare_taskbased(const char mode, ParameterFile &params, const Geometry &geo,
                                       const std::string &workdir, const std::string &snapname,
                                       const std::string &readparamname, std::ostringstream &out) {
  // TaskBasedIonizationSimulation: _grid_creator = new DensitySubGridCreator< DensitySubGrid >(box, parameters)
  DensitySubGridCreator< _subgrid_type_ > grid_creator(geo.box, params);
  IndexedDensityFunction indexed(geo);
  grid_creator.initialize(indexed);

  {
    // DensityGridWriterFactory::generate(output_folder, params, hydro, log); _density_grid_writer->write(*_grid_creator,
    // counter, _parameter_file)
    DensityGridWriter *writer = new GadgetDensityGridWriter(workdir, params, mode == 'H', nullptr);
    writer->write(grid_creator, 0, params);
    delete writer;
  }

  std::vector< Field > fields;
  report_file(geo, mode, snapname, fields, out);

  // a new run on the same geometry with the snapshot as initial condition
  DensityFunction *reader = make_reader(mode, readparamname);
  reader->initialize();
  DensitySubGridCreator< _subgrid_type_ > second(geo.box, params);
  second.initialize(*reader);
  reader->free();
  delete reader;

  auto git1 = grid_creator.begin();
  auto git2 = second.begin();
  for (; git1 != grid_creator.original_end(); ++git1, ++git2) {
    auto c1 = (*git1).begin();
    auto c2 = (*git2).begin();
    for (; c1 != (*git1).end(); ++c1, ++c2) {
      long c[3];
      geo.cell_of(c1.get_cell_midpoint(), c);
      out << "C " << c[0] << " " << c[1] << " " << c[2];
      for (auto &f : fields)
        out << " " << d2h(field_value(f, c1.get_ionization_variables())) << ":"
            << d2h(field_value(f, c2.get_ionization_variables()));
      out << "\n";
    }
  }
}

static void fill_and_compare_legacy(const char mode, ParameterFile &params, const Geometry &geo,
                                    const std::string &workdir, const std::string &snapname,
                                    const std::string &readparamname, std::ostringstream &out) {
  // IonizationSimulation: DensityGridFactory -> CartesianDensityGrid(simulation_box, params, hydro, log);
  // grid->initialize(block, density_function); writer->write(*grid, iteration, params)
  SimulationBox simulation_box(params);
  IndexedDensityFunction indexed(geo);
  CartesianDensityGrid grid(simulation_box, params, false, nullptr);
  std::pair< cellsize_t, cellsize_t > block = std::make_pair(0, grid.get_number_of_cells());
  grid.initialize(block, indexed);
  {
    DensityGridWriter *writer = new GadgetDensityGridWriter(workdir, params, false, nullptr);
    writer->write(grid, 0, params);
    delete writer;
  }
  std::vector< Field > fields;
  report_file(geo, mode, snapname, fields, out);

  DensityFunction *reader = make_reader(mode, readparamname);
  reader->initialize();
  CartesianDensityGrid second(simulation_box, params, false, nullptr);
  second.initialize(block, *reader);
  reader->free();
  delete reader;

  auto c1 = grid.begin();
  auto c2 = second.begin();
  for (; c1 != grid.end(); ++c1, ++c2) {
    long c[3];
    geo.cell_of(c1.get_cell_midpoint(), c);
    out << "C " << c[0] << " " << c[1] << " " << c[2];
    for (auto &f : fields)
      out << " " << d2h(field_value(f, c1.get_ionization_variables())) << ":"
          << d2h(field_value(f, c2.get_ionization_variables()));
    out << "\n";
  }
}

int main(int argc, char **argv) {
  if (argc < 2) {
    std::cerr << "usage: snapshot_harness <work directory>" << std::endl;
    return 2;
  }
  const std::string workdir = argv[1];
  std::string line;
  while (std::getline(std::cin, line)) {
    std::istringstream is(line);
    std::string op;
    is >> op;
    if (op.empty())
      continue;
    std::ostringstream out;
    try {
      if (op != "S")
        throw HarnessError{"unknown command"};
      std::string mode, hex;
      long salt;
      is >> mode >> salt >> hex;
      const std::string paramname = workdir + "/c20snap.param";
      const std::string readparamname = workdir + "/c20snap_read.param";
      const std::string snapname = workdir + "/c20snap000.hdf5";
      std::remove(snapname.c_str());
      const std::string text = unhex(hex);
      {
        std::ofstream pf(paramname);
        pf << text;
      }
      {
        // the run that uses the snapshot as initial condition: same parameter file, other DensityFunction
        std::ofstream pf(readparamname);
        pf << text << "DensityFunction:\n  type: " << (mode[0] == 'B' ? "Buffered" : "")
           << "CMacIonizeSnapshot\n  filename: " << snapname << "\n";
      }
      ParameterFile params(paramname);
      SimulationBox simulation_box(params);
      Geometry geo;
      geo.box = simulation_box.get_box();
      const CoordinateVector< int_fast32_t > ncell = params.get_value< CoordinateVector< int_fast32_t > >(
          "DensityGrid:number of cells", CoordinateVector< int_fast32_t >(64));
      const CoordinateVector< int_fast32_t > nsub = params.get_value< CoordinateVector< int_fast32_t > >(
          "DensitySubGridCreator:number of subgrids", CoordinateVector< int_fast32_t >(8));
      for (int a = 0; a < 3; ++a) {
        geo.n[a] = ncell[a];
        geo.s[a] = nsub[a];
      }
      geo.salt = salt;
      if (mode == "T" || mode == "B") {
        fill_and_compare_taskbased< DensitySubGrid >(mode[0], params, geo, workdir, snapname, readparamname, out);
      } else if (mode == "H") {
        fill_and_compare_taskbased< HydroDensitySubGrid >(mode[0], params, geo, workdir, snapname, readparamname, out);
      } else if (mode == "L") {
        fill_and_compare_legacy(mode[0], params, geo, workdir, snapname, readparamname, out);
      } else {
        throw HarnessError{"unknown mode"};
      }
      out << "E ok\n";
    } catch (HarnessError &e) {
      std::string w = e.what;
      std::replace(w.begin(), w.end(), '\n', ' ');
      out << "E error " << w << "\n";
    } catch (std::exception &e) {
      out << "E error exception " << e.what() << "\n";
    }
    std::cout << out.str() << std::flush;
  }
  return 0;
}
