// C16 correspondence harness: drives the real AMRGrid / MortonKeyGenerator / CartesianDensityGrid /
// Octree / PointLocations with the operations read from stdin (same protocol as ocaml/c16_driver.ml for
// the first three; the search structures are compared with a brute force loop written out here).
#include <algorithm>
#include <cfloat>
#include <cinttypes>
#include <cmath>
#include <cstdio>
#include <cstdlib>
#include <cstring>
#include <fstream>
#include <iostream>
#include <map>
#include <sstream>
#include <string>
#include <tuple>
#include <vector>
// everything CartesianDensityGrid.hpp depends on, with normal access
#include "AMRGrid.hpp"
#include "DensityGrid.hpp"
#include "MortonKeyGenerator.hpp"
#include "Octree.hpp"
#include "PointLocations.hpp"
#define private public
#include "CartesianDensityGrid.hpp"
#undef private
// CartesianDensityGrid and DensityGrid live in the LegacyEngine library; compile them into the harness
// (nothing else of the libraries is needed, so the harness links without them)
#include "CartesianDensityGrid.cpp"
#include "DensityGrid.cpp"

static double b2d(uint64_t b) {
  double d;
  std::memcpy(&d, &b, 8);
  return d;
}
static uint64_t d2b(double d) {
  uint64_t b;
  std::memcpy(&b, &d, 8);
  return b;
}
#define HX "%016" PRIx64

typedef AMRGrid< double > Grid;

static void print_geometry(const Box<> &b) {
  printf(" " HX " " HX " " HX " " HX " " HX " " HX, d2b(b.get_anchor().x()), d2b(b.get_anchor().y()),
         d2b(b.get_anchor().z()), d2b(b.get_sides().x()), d2b(b.get_sides().y()), d2b(b.get_sides().z()));
}

int main(int argc, char **argv) {
  Grid *grid = nullptr;
  double unit = 1.;
  long aoff[3] = {0, 0, 0};
  CartesianDensityGrid *cart = nullptr;
  double cunit = 1.;
  long coff[3] = {0, 0, 0};
  double cside[3] = {1., 1., 1.};
  std::vector< CoordinateVector<> > positions;
  std::vector< double > hs;
  Octree *tree = nullptr;
  bool tree_periodic = false;
  PointLocations *locations = nullptr;
  MortonKeyGenerator morton(Box<>(CoordinateVector<>(0.), CoordinateVector<>(2097151.)));

  std::string op;
  while (std::cin >> op) {
    if (op == "G") {
      long nx, ny, nz, l0, e;
      std::cin >> nx >> ny >> nz >> l0 >> e >> aoff[0] >> aoff[1] >> aoff[2];
      delete grid;
      unit = std::ldexp(1., e - 10);
      grid = new Grid(Box<>(CoordinateVector<>(aoff[0] * unit, aoff[1] * unit, aoff[2] * unit),
                            CoordinateVector<>(nx * 1024 * unit, ny * 1024 * unit, nz * 1024 * unit)),
                      CoordinateVector< uint_fast32_t >(nx, ny, nz));
      grid->create_all_cells(l0);
      printf("G %zu %" PRIu64 "\n", grid->get_number_of_cells(), (uint64_t)grid->get_first_key());
    } else if (op == "GA") {
      // AMR grid in an arbitrary (not dyadic) box: anchor and sides as binary64 bit patterns (defect probes)
      long nx, ny, nz, l0;
      uint64_t a[3], sd[3];
      std::cin >> nx >> ny >> nz >> l0 >> std::hex >> a[0] >> a[1] >> a[2] >> sd[0] >> sd[1] >> sd[2] >> std::dec;
      delete grid;
      grid = new Grid(Box<>(CoordinateVector<>(b2d(a[0]), b2d(a[1]), b2d(a[2])),
                            CoordinateVector<>(b2d(sd[0]), b2d(sd[1]), b2d(sd[2]))),
                      CoordinateVector< uint_fast32_t >(nx, ny, nz));
      grid->create_all_cells(l0);
      printf("GA %zu %" PRIu64 "\n", grid->get_number_of_cells(), (uint64_t)grid->get_first_key());
    } else if (op == "KD") {
      // key of a position given as binary64 bit patterns; no cell lookup (the key may not exist)
      uint64_t a[3];
      std::cin >> std::hex >> a[0] >> a[1] >> a[2] >> std::dec;
      printf("KD %" PRIu64 "\n", (uint64_t)grid->get_key(CoordinateVector<>(b2d(a[0]), b2d(a[1]), b2d(a[2]))));
    } else if (op == "CA") {
      long nx, ny, nz;
      uint64_t a[3], sd[3];
      std::cin >> nx >> ny >> nz >> std::hex >> a[0] >> a[1] >> a[2] >> sd[0] >> sd[1] >> sd[2] >> std::dec;
      delete cart;
      cart = new CartesianDensityGrid(Box<>(CoordinateVector<>(b2d(a[0]), b2d(a[1]), b2d(a[2])),
                                            CoordinateVector<>(b2d(sd[0]), b2d(sd[1]), b2d(sd[2]))),
                                      CoordinateVector< int_fast32_t >(nx, ny, nz), CoordinateVector< bool >(false), false,
                                      nullptr);
      printf("CA %zu\n", (size_t)cart->get_number_of_cells());
    } else if (op == "PD") {
      uint64_t a[3];
      std::cin >> std::hex >> a[0] >> a[1] >> a[2] >> std::dec;
      const CoordinateVector<> p(b2d(a[0]), b2d(a[1]), b2d(a[2]));
      const CoordinateVector< int_fast32_t > idx = cart->get_cell_indices(p);
      printf("PD %ld %ld %ld %zu\n", (long)idx.x(), (long)idx.y(), (long)idx.z(), (size_t)cart->get_cell_index(p));
    } else if (op == "R") {
      uint64_t key;
      std::cin >> key;
      const uint64_t nk = grid->refine_cell(key);
      printf("R %" PRIu64 " %zu\n", nk, grid->get_number_of_cells());
    } else if (op == "E") {
      const size_t ncell = grid->get_number_of_cells();
      std::vector< uint64_t > keys;
      uint64_t key = grid->get_first_key();
      while (key != grid->get_max_key() && keys.size() < ncell + 1) {
        keys.push_back(key);
        key = grid->get_next_key(key);
      }
      printf("E %zu\n", keys.size());
      double vsum = 0.;
      for (size_t i = 0; i < keys.size(); ++i) {
        AMRGridCell< double > &cell = (*grid)[keys[i]];
        printf("c %" PRIu64 " %d", keys[i], (int)cell.get_level());
        print_geometry(cell.get_geometry());
        vsum += cell.get_volume();
        printf(" " HX " %" PRIu64 " %d\n", d2b(cell.get_volume()), (uint64_t)grid->get_key(cell.get_midpoint()),
               cell.is_single_cell() ? 1 : 0);
      }
      printf("S " HX "\n", d2b(vsum));
    } else if (op == "B") {
      // neighbour pointers after set_ngbs: for every single cell its box and, per direction, the neighbour's level,
      // single-cell flag, whether the neighbour points back to this cell, and the neighbour's box
      long px, py, pz;
      std::cin >> px >> py >> pz;
      grid->set_ngbs(CoordinateVector< bool >(px != 0, py != 0, pz != 0));
      const size_t ncell = grid->get_number_of_cells();
      std::vector< uint64_t > keys;
      uint64_t key = grid->get_first_key();
      while (key != grid->get_max_key() && keys.size() < ncell + 1) {
        keys.push_back(key);
        key = grid->get_next_key(key);
      }
      printf("B %zu\n", keys.size());
      for (size_t i = 0; i < keys.size(); ++i) {
        AMRGridCell< double > &cell = (*grid)[keys[i]];
        printf("b %" PRIu64 " %d", keys[i], (int)cell.get_level());
        print_geometry(cell.get_geometry());
        for (int d = 0; d < 6; ++d) {
          AMRGridCell< double > *ngb = cell.get_ngb((AMRNgbPosition)d);
          if (ngb == nullptr) {
            printf(" N");
          } else {
            const Box<> b = ngb->get_geometry();
            printf(" %d,%d,%d," HX "," HX "," HX "," HX "," HX "," HX, (int)ngb->get_level(), ngb->is_single_cell() ? 1 : 0,
                   ngb->get_ngb((AMRNgbPosition)(d ^ 1)) == &cell ? 1 : 0, d2b(b.get_anchor().x()), d2b(b.get_anchor().y()),
                   d2b(b.get_anchor().z()), d2b(b.get_sides().x()), d2b(b.get_sides().y()), d2b(b.get_sides().z()));
          }
        }
        printf("\n");
      }
      printf("T\n");
    } else if (op == "K") {
      long x, y, z;
      std::cin >> x >> y >> z;
      const CoordinateVector<> p((aoff[0] + x) * unit, (aoff[1] + y) * unit, (aoff[2] + z) * unit);
      const uint64_t key = grid->get_key(p);
      AMRGridCell< double > &cell = (*grid)[key];
      printf("K %" PRIu64 " %d", key, (int)cell.get_level());
      print_geometry(cell.get_geometry());
      printf("\n");
    } else if (op == "Z") {
      long x, y, z;
      std::cin >> x >> y >> z;
      printf("Z %" PRIu64 "\n", (uint64_t)morton.get_key(CoordinateVector<>(x, y, z)));
    } else if (op == "C") {
      long nx, ny, nz, px, py, pz, e;
      std::cin >> nx >> ny >> nz >> px >> py >> pz >> e >> coff[0] >> coff[1] >> coff[2];
      delete cart;
      cunit = std::ldexp(1., e - 4);
      cside[0] = nx * 16 * cunit;
      cside[1] = ny * 16 * cunit;
      cside[2] = nz * 16 * cunit;
      cart = new CartesianDensityGrid(Box<>(CoordinateVector<>(coff[0] * cunit, coff[1] * cunit, coff[2] * cunit),
                                            CoordinateVector<>(cside[0], cside[1], cside[2])),
                                      CoordinateVector< int_fast32_t >(nx, ny, nz),
                                      CoordinateVector< bool >(px != 0, py != 0, pz != 0), false, nullptr);
      printf("C %zu\n", (size_t)cart->get_number_of_cells());
    } else if (op == "L") {
      long l;
      std::cin >> l;
      const CoordinateVector< int_fast32_t > idx = cart->get_indices(l);
      printf("L %ld %ld %ld %zu\n", (long)idx.x(), (long)idx.y(), (long)idx.z(), (size_t)cart->get_long_index(idx));
    } else if (op == "I") {
      long ix, iy, iz;
      std::cin >> ix >> iy >> iz;
      printf("I %zu\n", (size_t)cart->get_long_index(CoordinateVector< int_fast32_t >(ix, iy, iz)));
    } else if (op == "P") {
      long x, y, z;
      std::cin >> x >> y >> z;
      const CoordinateVector<> p((coff[0] + x) * cunit, (coff[1] + y) * cunit, (coff[2] + z) * cunit);
      const CoordinateVector< int_fast32_t > idx = cart->get_cell_indices(p);
      const size_t l = cart->get_cell_index(p);
      printf("P %ld %ld %ld %zu", (long)idx.x(), (long)idx.y(), (long)idx.z(), l);
      print_geometry(cart->get_cell(idx));
      printf("\n");
    } else if (op == "N") {
      long l;
      std::cin >> l;
      auto ngbs = cart->get_neighbours(l);
      printf("N");
      for (size_t i = 0; i < ngbs.size(); ++i) {
        const DensityGrid::iterator it = std::get< 0 >(ngbs[i]);
        if (it == cart->end()) {
          printf(" -1");
        } else {
          printf(" %zu", (size_t)it.get_index());
        }
      }
      printf("\n");
    } else if (op == "W") {
      long ix, iy, iz;
      std::cin >> ix >> iy >> iz;
      CoordinateVector< int_fast32_t > idx(ix, iy, iz);
      CoordinateVector<> p(0., 0., 0.);
      const bool inside = cart->is_inside(idx, p);
      printf("W %d %ld %ld %ld %ld %ld %ld\n", inside ? 1 : 0, (long)idx.x(), (long)idx.y(), (long)idx.z(),
             (long)(p.x() / cside[0]), (long)(p.y() / cside[1]), (long)(p.z() / cside[2]));
    } else if (op == "OT" || op == "PL") {
      // point set: n lines "p x y z h"
      long n, arg;
      std::cin >> n >> arg;
      positions.assign(n, CoordinateVector<>());
      hs.assign(n, 0.);
      for (long i = 0; i < n; ++i) {
        std::string t;
        uint64_t a, b, c, h;
        std::cin >> t >> std::hex >> a >> b >> c >> h >> std::dec;
        positions[i] = CoordinateVector<>(b2d(a), b2d(b), b2d(c));
        hs[i] = b2d(h);
      }
      if (op == "OT") {
        delete tree;
        tree_periodic = arg != 0;
        tree = new Octree(positions, Box<>(CoordinateVector<>(0.), CoordinateVector<>(1.)), tree_periodic);
        tree->set_auxiliaries(hs, Octree::max< double >);
        printf("OT %ld\n", n);
      } else {
        delete locations;
        locations = new PointLocations(positions, arg, Box<>(CoordinateVector<>(0.), CoordinateVector<>(1.)));
        printf("PL %ld\n", n);
      }
    } else if (op == "Q" || op == "QC") {
      // Octree: smoothing length overlap search / closest point, against brute force with the same distance
      uint64_t a, b, c, r = 0;
      std::cin >> std::hex >> a >> b >> c;
      if (op == "Q") {
        std::cin >> r;
      }
      std::cin >> std::dec;
      const CoordinateVector<> q(b2d(a), b2d(b), b2d(c));
      const double radius = b2d(r);
      std::vector< double > dist(positions.size());
      for (size_t i = 0; i < positions.size(); ++i) {
        double d[3];
        for (int k = 0; k < 3; ++k) {
          d[k] = positions[i][k] - q[k];
          if (tree_periodic) {
            if (2 * d[k] < -1.) {
              d[k] += 1.;
            }
            if (2 * d[k] >= 1.) {
              d[k] -= 1.;
            }
          }
        }
        dist[i] = std::sqrt(d[0] * d[0] + d[1] * d[1] + d[2] * d[2]);
      }
      if (op == "Q") {
        std::vector< uint_fast32_t > res = (r == 0) ? tree->get_ngbs(q) : tree->get_ngbs_sphere(q, radius);
        std::sort(res.begin(), res.end());
        printf("Q tree:");
        for (size_t i = 0; i < res.size(); ++i) {
          printf(" %zu", (size_t)res[i]);
        }
        printf(" brute:");
        for (size_t i = 0; i < positions.size(); ++i) {
          if ((r == 0) ? (dist[i] <= hs[i]) : (dist[i] <= hs[i] + radius)) {
            printf(" %zu", i);
          }
        }
        printf("\n");
      } else {
        const size_t it = tree->get_closest_ngb(q);
        size_t ib = 0;
        for (size_t i = 1; i < positions.size(); ++i) {
          if (dist[i] < dist[ib]) {
            ib = i;
          }
        }
        printf("QC tree: %zu " HX " brute: %zu " HX "\n", it, d2b(dist[it]), ib, d2b(dist[ib]));
      }
    } else if (op == "QP") {
      // PointLocations: closest point to an arbitrary position
      uint64_t a, b, c;
      std::cin >> std::hex >> a >> b >> c >> std::dec;
      const CoordinateVector<> q(b2d(a), b2d(b), b2d(c));
      const size_t it = locations->get_closest_neighbour(q);
      size_t ib = 0;
      double rb = (positions[0] - q).norm2();
      for (size_t i = 1; i < positions.size(); ++i) {
        const double r2 = (positions[i] - q).norm2();
        if (r2 < rb) {
          rb = r2;
          ib = i;
        }
      }
      printf("QP grid: %zu " HX " brute: %zu " HX "\n", it, d2b((positions[it] - q).norm2()), ib, d2b(rb));
    } else if (op == "QR") {
      // PointLocations: all points within a radius of point idx, with the search loop of the unit test
      long idx;
      uint64_t r;
      std::cin >> idx >> std::hex >> r >> std::dec;
      const double radius2 = b2d(r) * b2d(r);
      const CoordinateVector<> &cpos = positions[idx];
      std::vector< size_t > found;
      size_t nblock = 1;
      auto it = locations->get_neighbours(idx);
      auto ngbs = it.get_neighbours();
      for (auto n = ngbs.begin(); n != ngbs.end(); ++n) {
        if ((long)*n != idx && (positions[*n] - cpos).norm2() < radius2) {
          found.push_back(*n);
        }
      }
      while (it.increase_range() && it.get_max_radius2() < radius2) {
        ++nblock;
        ngbs = it.get_neighbours();
        for (auto n = ngbs.begin(); n != ngbs.end(); ++n) {
          if ((long)*n != idx && (positions[*n] - cpos).norm2() < radius2) {
            found.push_back(*n);
          }
        }
      }
      std::sort(found.begin(), found.end());
      printf("QR grid:");
      for (size_t i = 0; i < found.size(); ++i) {
        printf(" %zu", found[i]);
      }
      printf(" brute:");
      for (size_t i = 0; i < positions.size(); ++i) {
        if ((long)i != idx && (positions[i] - cpos).norm2() < radius2) {
          printf(" %zu", i);
        }
      }
      printf(" blocks: %zu\n", nblock);
    }
    fflush(stdout);
  }
  delete grid;
  delete cart;
  delete tree;
  delete locations;
  return 0;
}
