// C16 (traversal clauses) correspondence harness: drives the REAL CartesianDensityGrid::interact and
// AMRDensityGrid::interact with the photons read from stdin; same line protocol as ocaml/c16i_driver.ml.
// All doubles are the 16 hex digits of their bit pattern, integers are decimal.
//   CG ax ay az sx sy sz nx ny nz px py pz    new Cartesian grid: box anchor, box sides, cells, periodicity flags
//   CD {n xH xHe}*                            cell contents in long-index order
//   CP px py pz dx dy dz tau sH sHe w j0      photon: position, direction, target optical depth, cross sections
//                                             (hydrogen, abundance corrected helium), weight, value of every J before
//   -> CR <cell|END> px py pz k {cell J_H}*k   returned iterator, final position, cells whose J_H changed
//   AF a b c                                  (model only: which AMR defects are repaired in the code under test)
//   AG ax ay az sx sy sz nx ny nz px py pz    new AMR grid: box, UNREFINED NUMBER OF CELLS, periodicity flags
//   AR key                                    cell with this key is to be refined (a set; applied by a refinement scheme)
//   AI                                        initialize(): refinement + set_ngbs  -> AI n key_1 .. key_n (ascending)
//   AD {n xH xHe}*                            cell contents, cells in ascending key order
//   AP ... (as CP)                            -> AQ <key|END> px py pz k {key J_H}*k
#include <algorithm>
#include <cinttypes>
#include <cmath>
#include <csignal>
#include <cstdio>
#include <cstdlib>
#include <cstring>
#include <iostream>
#include <set>
#include <sstream>
#include <string>
#include <unistd.h>
#include <vector>
// everything the two grid headers depend on, with normal access
#include "AMRGrid.hpp"
#include "AMRRefinementSchemeFactory.hpp"
#include "Abundances.hpp"
#include "DensityGrid.hpp"
#include "HomogeneousDensityFunction.hpp"
#include "ParameterFile.hpp"
#include "Photon.hpp"
#include "SimulationBox.hpp"
#define private public
#include "AMRDensityGrid.hpp"
#include "CartesianDensityGrid.hpp"
#undef private
// CartesianDensityGrid and DensityGrid live in the LegacyEngine library; compile them into the harness
#include "CartesianDensityGrid.cpp"
#include "DensityGrid.cpp"

static double b2d(uint64_t b) { double d; std::memcpy(&d, &b, 8); return d; }
static uint64_t d2b(double d) { uint64_t b; std::memcpy(&b, &d, 8); return b; }
static double rd(std::istream &s) { uint64_t b; s >> std::hex >> b; s >> std::dec; return b2d(b); }
#define HX "%016" PRIx64

static void on_alarm(int) {
  // the traversal did not return: say so on the protocol stream and stop
  const char msg[] = "HANG\n";
  if (write(1, msg, sizeof(msg) - 1) < 0) {
  }
  _exit(3);
}

// refinement scheme that refines exactly the cells whose key is in a given set
struct KeySetScheme : public AMRRefinementScheme {
  AMRDensityGrid **_grid;
  std::set< uint64_t > _keys;
  KeySetScheme(AMRDensityGrid **grid, const std::set< uint64_t > &keys) : _grid(grid), _keys(keys) {}
  virtual bool refine(uint_fast8_t level, DensityGrid::iterator &cell) const {
    const uint64_t key = (*_grid)->_grid.get_key(cell.get_cell_midpoint());
    return _keys.count(key) > 0;
  }
};

static void set_photon(Photon &photon, const double *v) {
  photon.set_weight(v[9]);
  for (int i = 0; i < NUMBER_OF_IONNAMES; ++i)
    photon.set_cross_section(i, 0.);
  photon.set_cross_section(ION_H_n, v[7]);
  photon.set_cross_section_He_corr(v[8]);
}

int main(int argc, char **argv) {
  if (argc > 1 && std::string(argv[1]) == "--info") {
    int helium = 0, varab = 0, lockfree = 0;
#ifdef HAS_HELIUM
    helium = 1;
#endif
#ifdef VARIABLE_ABUNDANCES
    varab = 1;
#endif
#ifdef USE_LOCKFREE
    lockfree = 1;
#endif
    printf("helium %d variable_abundances %d lockfree %d intsize %zu\n", helium, varab, lockfree, sizeof(int_fast32_t));
    return 0;
  }
  signal(SIGALRM, on_alarm);
  HomogeneousDensityFunction density(1., 2000.);
  density.initialize();
  CartesianDensityGrid *cart = nullptr;
  AMRDensityGrid *amr = nullptr;
  double abox[6] = {0, 0, 0, 1, 1, 1};
  long an[3] = {1, 1, 1}, aper[3] = {0, 0, 0};
  std::set< uint64_t > akeys;
  std::vector< std::pair< uint64_t, size_t > > aorder;   // (key, index in _cells), ascending key
  std::string line;
  while (std::getline(std::cin, line)) {
    if (line.empty())
      continue;
    std::istringstream s(line);
    std::string op;
    s >> op;
    if (op == "CG") {
      double b[6];
      for (int i = 0; i < 6; ++i)
        b[i] = rd(s);
      long n[3], p[3];
      s >> n[0] >> n[1] >> n[2] >> p[0] >> p[1] >> p[2];
      delete cart;
      cart = new CartesianDensityGrid(Box<>(CoordinateVector<>(b[0], b[1], b[2]), CoordinateVector<>(b[3], b[4], b[5])),
                                      CoordinateVector< int_fast32_t >(n[0], n[1], n[2]),
                                      CoordinateVector< bool >(p[0] != 0, p[1] != 0, p[2] != 0), false, nullptr);
      std::pair< cellsize_t, cellsize_t > block = std::make_pair(0, cart->get_number_of_cells());
      cart->initialize(block, density);
      printf("CG %zu\n", (size_t)cart->get_number_of_cells());
    } else if (op == "CD") {
      size_t i = 0;
      for (auto it = cart->begin(); it != cart->end(); ++it, ++i) {
        IonizationVariables &iv = it.get_ionization_variables();
        const double nd = rd(s), xH = rd(s), xHe = rd(s);
        iv.set_number_density(nd);
        iv.set_ionic_fraction(ION_H_n, xH);
#ifdef HAS_HELIUM
        iv.set_ionic_fraction(ION_He_n, xHe);
#endif
      }
      printf("CD %zu\n", i);
    } else if (op == "CP") {
      double v[11];
      for (int i = 0; i < 11; ++i)
        v[i] = rd(s);
      for (auto it = cart->begin(); it != cart->end(); ++it)
        it.get_ionization_variables().set_mean_intensity(ION_H_n, v[10]);
      Photon photon(CoordinateVector<>(v[0], v[1], v[2]), CoordinateVector<>(v[3], v[4], v[5]), 4.e15);
      set_photon(photon, v);
      alarm(20);
      DensityGrid::iterator r = cart->interact(photon, v[6]);
      alarm(0);
      const CoordinateVector<> p = photon.get_position();
      std::ostringstream o;
      size_t k = 0, c = 0;
      char buf[64];
      for (auto it = cart->begin(); it != cart->end(); ++it, ++c) {
        const double J = it.get_ionization_variables().get_mean_intensity(ION_H_n);
        if (d2b(J) != d2b(v[10])) {
          ++k;
          snprintf(buf, sizeof buf, " %zu " HX, c, d2b(J));
          o << buf;
        }
      }
      if (r == cart->end())
        printf("CR END");
      else
        printf("CR %zu", (size_t)r.get_index());
      printf(" " HX " " HX " " HX " %zu%s\n", d2b(p.x()), d2b(p.y()), d2b(p.z()), k, o.str().c_str());
    } else if (op == "AF") {
      printf("AF\n");
    } else if (op == "AG") {
      for (int i = 0; i < 6; ++i)
        abox[i] = rd(s);
      s >> an[0] >> an[1] >> an[2] >> aper[0] >> aper[1] >> aper[2];
      akeys.clear();
      printf("AG\n");
    } else if (op == "AR") {
      uint64_t key;
      s >> key;
      akeys.insert(key);
      printf("AR\n");
    } else if (op == "AI") {
      delete amr;
      amr = nullptr;
      amr = new AMRDensityGrid(Box<>(CoordinateVector<>(abox[0], abox[1], abox[2]), CoordinateVector<>(abox[3], abox[4], abox[5])),
                               CoordinateVector< uint_fast32_t >(an[0], an[1], an[2]), new KeySetScheme(&amr, akeys), 5,
                               CoordinateVector< bool >(aper[0] != 0, aper[1] != 0, aper[2] != 0), false, nullptr);
      std::pair< cellsize_t, cellsize_t > block = std::make_pair(0, amr->get_number_of_cells());
      amr->initialize(block, density);
      aorder.clear();
      for (size_t i = 0; i < amr->_cells.size(); ++i)
        aorder.push_back(std::make_pair((uint64_t)amr->_grid.get_key(amr->_cells[i]->get_midpoint()), i));
      std::sort(aorder.begin(), aorder.end());
      printf("AI %zu", aorder.size());
      for (size_t i = 0; i < aorder.size(); ++i)
        printf(" %" PRIu64, aorder[i].first);
      printf("\n");
    } else if (op == "AD") {
      for (size_t i = 0; i < aorder.size(); ++i) {
        IonizationVariables &iv = DensityGrid::iterator(aorder[i].second, *amr).get_ionization_variables();
        const double nd = rd(s), xH = rd(s), xHe = rd(s);
        iv.set_number_density(nd);
        iv.set_ionic_fraction(ION_H_n, xH);
#ifdef HAS_HELIUM
        iv.set_ionic_fraction(ION_He_n, xHe);
#endif
      }
      printf("AD %zu\n", aorder.size());
    } else if (op == "AP") {
      double v[11];
      for (int i = 0; i < 11; ++i)
        v[i] = rd(s);
      for (size_t i = 0; i < aorder.size(); ++i)
        DensityGrid::iterator(i, *amr).get_ionization_variables().set_mean_intensity(ION_H_n, v[10]);
      Photon photon(CoordinateVector<>(v[0], v[1], v[2]), CoordinateVector<>(v[3], v[4], v[5]), 4.e15);
      set_photon(photon, v);
      alarm(5);
      DensityGrid::iterator r = amr->interact(photon, v[6]);
      alarm(0);
      const CoordinateVector<> p = photon.get_position();
      std::ostringstream o;
      size_t k = 0;
      char buf[64];
      for (size_t i = 0; i < aorder.size(); ++i) {
        const double J = DensityGrid::iterator(aorder[i].second, *amr).get_ionization_variables().get_mean_intensity(ION_H_n);
        if (d2b(J) != d2b(v[10])) {
          ++k;
          snprintf(buf, sizeof buf, " %" PRIu64 " " HX, aorder[i].first, d2b(J));
          o << buf;
        }
      }
      if (r == amr->end()) {
        printf("AQ END");
      } else {
        uint64_t key = 0;
        for (size_t i = 0; i < aorder.size(); ++i)
          if (aorder[i].second == (size_t)r.get_index())
            key = aorder[i].first;
        printf("AQ %" PRIu64, key);
      }
      printf(" " HX " " HX " " HX " %zu%s\n", d2b(p.x()), d2b(p.y()), d2b(p.z()), k, o.str().c_str());
    } else {
      printf("? %s\n", line.c_str());
    }
    fflush(stdout);
  }
  delete cart;
  delete amr;
  return 0;
}
