// C16, Voronoi grids: drives the real VoronoiDensityGrid (legacy library of the repository under test) with the
// operations read from stdin (doubles as 64-bit hex patterns).
//   VG <type Old|New> <nlloyd> <px py pz> <anchor x y z> <sides x y z> <N> <x y z>*N    build + initialize (n = 1, xH = 1)
//        -> VG <ncell> ; then per cell  VC <i> <gx gy gz> <volume>
//   VL <x y z>                          -> VL <get_cell_index>
//   VP <o x y z> <d x y z> <tau>        -> VR END|<cell> <end x y z> <k> (<cell> <deposited path length>)*k
#include <cinttypes>
#include <csignal>
#include <cstdio>
#include <cstring>
#include <iostream>
#include <sstream>
#include <string>
#include <unistd.h>
#include <vector>
#include "HomogeneousDensityFunction.hpp"
#include "Photon.hpp"
#include "VoronoiDensityGrid.hpp"
#include "VoronoiGeneratorDistribution.hpp"

static double b2d(uint64_t b) { double d; std::memcpy(&d, &b, 8); return d; }
static uint64_t d2b(double d) { uint64_t b; std::memcpy(&b, &d, 8); return b; }
static double rd(std::istream &s) { uint64_t b; s >> std::hex >> b; s >> std::dec; return b2d(b); }
#define HX "%016" PRIx64
static void on_alarm(int) { const char m[] = "! hang: no answer within 30 s\n"; if (write(1, m, sizeof m - 1)) {} _exit(3); }

class ListDistribution : public VoronoiGeneratorDistribution {
  std::vector< CoordinateVector<> > _p;
  size_t _next;
public:
  ListDistribution(const std::vector< CoordinateVector<> > &p) : _p(p), _next(0) {}
  virtual generatornumber_t get_number_of_positions() const { return _p.size(); }
  virtual CoordinateVector<> get_position() { return _p[_next++]; }
};

int main() {
  signal(SIGALRM, on_alarm);
  HomogeneousDensityFunction density(1., 2000.);
  density.initialize();
  VoronoiDensityGrid *grid = nullptr;
  std::string line;
  while (std::getline(std::cin, line)) {
    if (line.empty()) continue;
    std::istringstream s(line);
    std::string op;
    s >> op;
    if (op == "VG") {
      std::string type;
      long nl, p[3];
      s >> type >> nl >> p[0] >> p[1] >> p[2];
      double b[6];
      for (int i = 0; i < 6; ++i) b[i] = rd(s);
      size_t n;
      s >> n;
      std::vector< CoordinateVector<> > pos(n);
      for (size_t i = 0; i < n; ++i) { const double x = rd(s), y = rd(s), z = rd(s); pos[i] = CoordinateVector<>(x, y, z); }
      delete grid;
      alarm(120);
      grid = new VoronoiDensityGrid(new ListDistribution(pos), Box<>(CoordinateVector<>(b[0], b[1], b[2]), CoordinateVector<>(b[3], b[4], b[5])), type,
                                    (uint_fast8_t)nl, CoordinateVector< bool >(p[0] != 0, p[1] != 0, p[2] != 0), false, true, nullptr);
      std::pair< cellsize_t, cellsize_t > block = std::make_pair(0, grid->get_number_of_cells());
      grid->initialize(block, density);
      alarm(0);
      printf("VG %zu\n", (size_t)grid->get_number_of_cells());
      for (auto it = grid->begin(); it != grid->end(); ++it) {
        IonizationVariables &iv = it.get_ionization_variables();
        iv.set_number_density(1.);
        iv.set_ionic_fraction(ION_H_n, 1.);
#ifdef HAS_HELIUM
        iv.set_ionic_fraction(ION_He_n, 0.);
#endif
        const CoordinateVector<> g = it.get_cell_midpoint();
        printf("VC %zu " HX " " HX " " HX " " HX "\n", (size_t)it.get_index(), d2b(g.x()), d2b(g.y()), d2b(g.z()), d2b(it.get_volume()));
      }
    } else if (op == "VL") {
      const double x = rd(s), y = rd(s), z = rd(s);
      alarm(30);
      printf("VL %zu\n", (size_t)grid->get_cell_index(CoordinateVector<>(x, y, z)));
      alarm(0);
    } else if (op == "VP") {
      double v[7];
      for (int i = 0; i < 7; ++i) v[i] = rd(s);
      for (auto it = grid->begin(); it != grid->end(); ++it) it.get_ionization_variables().set_mean_intensity(ION_H_n, 0.);
      Photon photon(CoordinateVector<>(v[0], v[1], v[2]), CoordinateVector<>(v[3], v[4], v[5]), 4.e15);
      photon.set_weight(1.);
      for (int i = 0; i < NUMBER_OF_IONNAMES; ++i) photon.set_cross_section(i, 0.);
      photon.set_cross_section(ION_H_n, 1.);
      photon.set_cross_section_He_corr(0.);
      alarm(30);
      DensityGrid::iterator r = grid->interact(photon, v[6]);
      alarm(0);
      const CoordinateVector<> p = photon.get_position();
      std::ostringstream o;
      size_t k = 0;
      char buf[64];
      for (auto it = grid->begin(); it != grid->end(); ++it) {
        const double J = it.get_ionization_variables().get_mean_intensity(ION_H_n);
        if (J != 0.) { ++k; snprintf(buf, sizeof buf, " %zu " HX, (size_t)it.get_index(), d2b(J)); o << buf; }
      }
      if (r == grid->end()) printf("VR END"); else printf("VR %zu", (size_t)r.get_index());
      printf(" " HX " " HX " " HX " %zu%s\n", d2b(p.x()), d2b(p.y()), d2b(p.z()), k, o.str().c_str());
    } else {
      printf("? %s\n", op.c_str());
    }
    fflush(stdout);
  }
  return 0;
}
