// C10, "every number of threads": the turbulence forcing applied at the start of a hydro step (real AlveliusTurbulenceForcing and
// real HydroDensitySubGrids, the driver's own atomic-counter loop) with 1 thread, sequentially, and with T OpenMP threads,
// repeated: every cell must end with the same bits.
//   input line : NX NY NZ sx sy sz T repeats seed        output: R <threads> <repeat> <cells differing from the sequential reference> <fnv of state>
#include <cinttypes>
#include <cmath>
#include <cstdio>
#include <cstring>
#include <iostream>
#include <omp.h>
#include <sstream>
#include <string>
#include <vector>
#define private public
#define protected public
#include "DensitySubGridCreator.hpp"
#include "HydroDensitySubGrid.hpp"
#undef private
#undef protected
#include "AlveliusTurbulenceForcing.hpp"
#include "AtomicValue.hpp"
#include "Hydro.hpp"

static uint64_t d2b(double d) { uint64_t b; std::memcpy(&b, &d, 8); return b; }
static uint64_t mix(uint64_t z) { z += 0x9E3779B97F4A7C15ULL; z = (z ^ (z >> 30)) * 0xBF58476D1CE4E5B9ULL; z = (z ^ (z >> 27)) * 0x94D049BB133111EBULL; return z ^ (z >> 31); }
static double uni(uint64_t seed, uint64_t id, uint64_t k) { return (mix(mix(seed) ^ mix(id * 7919ULL + k)) >> 11) / 9007199254740992.; }

int main() {
  int NX;
  while (std::cin >> NX) {
    int NY, NZ, ns[3], T, repeats;
    uint64_t seed;
    std::cin >> NY >> NZ >> ns[0] >> ns[1] >> ns[2] >> T >> repeats >> seed;
    const Box<> box(CoordinateVector<>(0.), CoordinateVector<>(1., 1., 1.));
    Hydro hydro(5. / 3., 100., 1.e4, 1.e99, false);
    AlveliusTurbulenceForcing forcing(CoordinateVector< int_fast32_t >(ns[0], ns[1], ns[2]), CoordinateVector< int_fast32_t >(NX / ns[0], NY / ns[1], NZ / ns[2]), box,
                                      1., 3., 2.5, 0.2, 1., 42, 1.e-3, 0.);
    forcing.update_turbulence(5.e-3);
    std::vector< uint64_t > ref;
    for (int pass = 0; pass <= repeats; ++pass) {
      const int threads = pass == 0 ? 1 : T;
      DensitySubGridCreator< HydroDensitySubGrid > creator(box, CoordinateVector< int_fast32_t >(NX, NY, NZ), CoordinateVector< int_fast32_t >(ns[0], ns[1], ns[2]),
                                                           CoordinateVector< bool >(true, true, true));
      const size_t N = creator.number_of_original_subgrids();
      std::vector< HydroDensitySubGrid * > grids;
      for (size_t s = 0; s < N; ++s) grids.push_back(creator.create_subgrid(s));
      for (size_t s = 0; s < N; ++s) {
        const size_t nc = grids[s]->_number_of_cells[0] * grids[s]->_number_of_cells[3];
        for (size_t l = 0; l < nc; ++l) {
          HydroVariables &hv = grids[s]->_hydro_variables[l];
          const uint64_t id = s * 100000 + l;
          hv.set_primitives_density(0.5 + uni(seed, id, 0));
          hv.set_primitives_velocity(CoordinateVector<>(uni(seed, id, 1) - 0.5, uni(seed, id, 2) - 0.5, uni(seed, id, 3) - 0.5));
          hv.set_primitives_pressure(0.5 + uni(seed, id, 4));
        }
        grids[s]->initialize_hydrodynamic_variables(hydro, false);
      }
      AtomicValue< size_t > igrid(0);
      size_t kicked = 0;
      std::vector< uint64_t > before;
      if (pass == 0)
        for (size_t s = 0; s < N; ++s) {
          const size_t nc = grids[s]->_number_of_cells[0] * grids[s]->_number_of_cells[3];
          for (size_t l = 0; l < nc; ++l) before.push_back(d2b(grids[s]->_hydro_variables[l].conserved(1)));
        }
      if (pass == 0) {
        for (size_t s = 0; s < N; ++s) forcing.add_turbulent_forcing(s, *grids[s]);
      } else {
        omp_set_num_threads(threads);
#pragma omp parallel default(shared)
        while (igrid.value() < N) {
          const size_t this_igrid = igrid.post_increment();
          if (this_igrid < N) forcing.add_turbulent_forcing(this_igrid, *grids[this_igrid]);
        }
      }
      std::vector< uint64_t > st;
      for (size_t s = 0; s < N; ++s) {
        const size_t nc = grids[s]->_number_of_cells[0] * grids[s]->_number_of_cells[3];
        for (size_t l = 0; l < nc; ++l) {
          const HydroVariables &hv = grids[s]->_hydro_variables[l];
          for (int k = 0; k < 5; ++k) st.push_back(d2b(hv.conserved(k)));
          for (int k = 0; k < 5; ++k) st.push_back(d2b(hv.primitives(k)));
        }
      }
      uint64_t h = 1469598103934665603ULL;
      for (uint64_t x : st) { h ^= x; h *= 1099511628211ULL; }
      size_t diff = 0;
      if (pass == 0) ref = st;
      else for (size_t i = 0; i < st.size(); i += 10) { bool d = false; for (int k = 0; k < 10; ++k) d = d || st[i + k] != ref[i + k]; diff += d; }
      if (pass == 0) {
        for (size_t i = 0; i < before.size(); ++i) kicked += before[i] != st[10 * i + 1];
        printf("K %zu %zu\n", kicked, before.size());
      }
      printf("R %d %d %zu %016" PRIx64 "\n", threads, pass, diff, h);
      for (size_t s = 0; s < N; ++s) delete grids[s];
    }
    printf("E\n");
    fflush(stdout);
  }
  return 0;
}
