// C11 harness: the real ExactRiemannSolver on inputs given as bit patterns.
//   S gamma rhoL uL PL rhoR uR PR dxdt        -> flag rhosol usol Psol           (ExactRiemannSolver::solve)
//   P gamma rhoL uL PL rhoR uR PR Plow Phigh  -> guess_P f(Plow) f(Phigh) fprime(Plow) fprime(Phigh) | solve_brent iterations-unknown
//     (private helpers called directly; the derived arguments are formed with the expressions solve() uses)
#include <cinttypes>
#include <cstdio>
#include <cstring>
#include <iostream>
#include <string>
#include <algorithm>
#include <cmath>
// everything ExactRiemannSolver.hpp includes (system headers and repo headers) first, so that only the
// class under test is affected by the access change
#include "Error.hpp"
#include "RiemannSolver.hpp"
#include "Utilities.hpp"
#define private public
#include "ExactRiemannSolver.hpp"
#undef private

static double b2d(uint64_t b) { double d; std::memcpy(&d, &b, 8); return d; }
static uint64_t d2b(double d) { uint64_t b; std::memcpy(&b, &d, 8); return b; }

int main() {
  std::string kind;
  while (std::cin >> kind) {
    const int nw = (kind == "P") ? 9 : 8;
    uint64_t w[9];
    for (int i = 0; i < nw; ++i)
      std::cin >> std::hex >> w[i];
    const double gamma = b2d(w[0]);
    const double rhoL = b2d(w[1]), uL = b2d(w[2]), PL = b2d(w[3]);
    const double rhoR = b2d(w[4]), uR = b2d(w[5]), PR = b2d(w[6]);
    ExactRiemannSolver solver(gamma);
    if (kind == "S") {
      const double dxdt = b2d(w[7]);
      double rhosol = 0., usol = 0., Psol = 0.;
      const int flag = solver.solve(rhoL, uL, PL, rhoR, uR, PR, rhosol, usol, Psol, dxdt);
      printf("%d %016" PRIx64 " %016" PRIx64 " %016" PRIx64 "\n", flag, d2b(rhosol), d2b(usol), d2b(Psol));
    } else {
#ifdef C11_PUBLIC_ONLY
      // fallback build (the private helper interface changed and the full harness no longer compiles): only solve() is exercised
      printf("NA\n");
#else
      const double Plow = b2d(w[7]), Phigh = b2d(w[8]);
      const double rhoLinv = 1. / rhoL;
      const double rhoRinv = 1. / rhoR;
      const double PLinv = 1. / PL;
      const double PRinv = 1. / PR;
      const double aL = solver.get_soundspeed(rhoLinv, PL);
      const double aR = solver.get_soundspeed(rhoRinv, PR);
      const double aLfac = solver._tdgm1 * aL;
      const double aRfac = solver._tdgm1 * aR;
      const double udiff = uR - uL;
      const double AL = solver._tdgp1 * rhoLinv;
      const double BL = solver._gm1dgp1 * PL;
      const double rhoLaLinv = 1. / (rhoL * aL);
      const double AR = solver._tdgp1 * rhoRinv;
      const double BR = solver._gm1dgp1 * PR;
      const double rhoRaRinv = 1. / (rhoR * aR);
      const double g = solver.guess_P(PL, aL, AL, BL, PR, aR, AR, BR, udiff);
      const double fl = solver.f(PL, AL, BL, PLinv, aLfac, PR, AR, BR, PRinv, aRfac, udiff, Plow);
      const double fh = solver.f(PL, AL, BL, PLinv, aLfac, PR, AR, BR, PRinv, aRfac, udiff, Phigh);
      const double dl = solver.fprime(PL, AL, BL, PLinv, rhoLaLinv, PR, AR, BR, PRinv, rhoRaRinv, Plow);
      const double dh = solver.fprime(PL, AL, BL, PLinv, rhoLaLinv, PR, AR, BR, PRinv, rhoRaRinv, Phigh);
      printf("%016" PRIx64 " %016" PRIx64 " %016" PRIx64 " %016" PRIx64 " %016" PRIx64 " | ", d2b(g), d2b(fl), d2b(fh),
             d2b(dl), d2b(dh));
      if (fl * fh > 0.) {
        printf("ERR\n"); // solve_brent would call cmac_error (abort)
      } else {
        const double b =
            solver.solve_brent(PL, AL, BL, PLinv, aLfac, PR, AR, BR, PRinv, aRfac, udiff, Plow, Phigh, fl, fh);
        printf("%016" PRIx64 "\n", d2b(b));
      }
#endif
    }
  }
  return 0;
}
