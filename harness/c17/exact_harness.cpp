// C17 correspondence harness: runs the real ExactGeometricTests functions on points given as bit patterns.
//   O <12 x 16 hex digits>   a.x a.y a.z b.x ... d.z   ->  O <orient3d_exact> <orient3d_adaptive> <filter decided 0|1> <filter answer>
//   I <15 x 16 hex digits>   a.x ... e.z               ->  I <insphere_exact> <insphere_adaptive> <filter decided 0|1> <filter answer>
//   M <16 hex digits>                                  ->  M <get_mantissa, decimal>
// "filter decided" is observed on a second compilation of the same header text in which the exact fall back is
// the header's own #else branch (HAVE_MULTIPRECISION undefined) with cmac_error turned into a C++ exception:
// the adaptive function of that copy returns normally exactly when the floating point filter decided.
#include <cinttypes>
#include <cstdio>
#include <cstring>
#include <iostream>
#include <string>

#include "ExactGeometricTests.hpp"

// second copy of the same source text, without the multiprecision fall back
#undef EXACTGEOMETRICTESTS_HPP
#undef HAVE_MULTIPRECISION
#undef cmac_error
struct c17_needs_exact {};
#define cmac_error(s, ...) throw c17_needs_exact();
#define ExactGeometricTests ExactGeometricTests_filter_only
#include "ExactGeometricTests.hpp"
#undef ExactGeometricTests

static double b2d(uint64_t b) {
  double d;
  std::memcpy(&d, &b, 8);
  return d;
}

int main() {
  char op;
  while (std::cin >> op) {
    if (op == 'O') {
      uint64_t w[12];
      for (int i = 0; i < 12; ++i)
        std::cin >> std::hex >> w[i];
      const CoordinateVector<> a(b2d(w[0]), b2d(w[1]), b2d(w[2])), b(b2d(w[3]), b2d(w[4]), b2d(w[5])),
          c(b2d(w[6]), b2d(w[7]), b2d(w[8])), d(b2d(w[9]), b2d(w[10]), b2d(w[11]));
      const int ex = ExactGeometricTests::orient3d_exact(a, b, c, d);
      const int ad = ExactGeometricTests::orient3d_adaptive(a, b, c, d);
      int dec = 1, fv = 0;
      try {
        fv = ExactGeometricTests_filter_only::orient3d_adaptive(a, b, c, d);
      } catch (c17_needs_exact &) {
        dec = 0;
      }
      printf("O %d %d %d %d\n", ex, ad, dec, fv);
    } else if (op == 'I') {
      uint64_t w[15];
      for (int i = 0; i < 15; ++i)
        std::cin >> std::hex >> w[i];
      const CoordinateVector<> a(b2d(w[0]), b2d(w[1]), b2d(w[2])), b(b2d(w[3]), b2d(w[4]), b2d(w[5])),
          c(b2d(w[6]), b2d(w[7]), b2d(w[8])), d(b2d(w[9]), b2d(w[10]), b2d(w[11])),
          e(b2d(w[12]), b2d(w[13]), b2d(w[14]));
      const int ex = ExactGeometricTests::insphere_exact(a, b, c, d, e);
      const int ad = ExactGeometricTests::insphere_adaptive(a, b, c, d, e);
      int dec = 1, fv = 0;
      try {
        fv = ExactGeometricTests_filter_only::insphere_adaptive(a, b, c, d, e);
      } catch (c17_needs_exact &) {
        dec = 0;
      }
      printf("I %d %d %d %d\n", ex, ad, dec, fv);
    } else if (op == 'M') {
      uint64_t w;
      std::cin >> std::hex >> w;
      printf("M %" PRIu64 "\n", (uint64_t)ExactGeometricTests::get_mantissa(b2d(w)));
    }
  }
  return 0;
}
