// C09 correspondence harness (ii): write -> read -> write on the real restartable classes, and the restored state
// compared with the dumped one.  Commands on stdin:
//   RT <seed>                         every component below with a pseudo random state
//   S <nx> <ny> <nz> <sx> <sy> <sz>   HydroDensitySubGrid with n cells on a box with the given sides (doubles as 16 hex
//                                     digits): _cell_size, _inv_cell_size and 1/V of the constructed and of the restored object
//   M <snap_n>                        RescaledICHydroMask with the given _snap_n (and a set _mask_velocity)
// Output: one line per component:  RT <name> bytes=<n> rewrite=<same|DIFF@offset> state=<same|DIFF:member>
#include <cinttypes>
#include <cstdio>
#include <cstring>
#include <fstream>
#include <iostream>
#include <map>
#include <new>
#include <sstream>
#include <string>
#include <vector>
#define private public
#define protected public
#include "AlveliusTurbulenceForcing.hpp"
#include "Box.hpp"
#include "CoordinateVector.hpp"
#include "DensitySubGridCreator.hpp"
#include "HomogeneousDensityFunction.hpp"
#include "HydroDensitySubGrid.hpp"
#include "HydroVariables.hpp"
#include "IonizationVariables.hpp"
#include "ParameterFile.hpp"
#include "RandomGenerator.hpp"
#include "RescaledICHydroMask.hpp"
#include "SingleStarPhotonSourceDistribution.hpp"
#include "SingleSupernovaPhotonSourceDistribution.hpp"
#include "TimeLine.hpp"
#include "YAMLDictionary.hpp"
#undef private
#undef protected

static uint64_t rs = 88172645463325252ull;
static uint64_t rnd() {
  rs ^= rs << 13;
  rs ^= rs >> 7;
  rs ^= rs << 17;
  return rs;
}
// a finite double with a random mantissa and a moderate exponent
static double rdbl() {
  const uint64_t m = rnd() & ((1ull << 52) - 1);
  const uint64_t e = 1023 - 40 + (rnd() % 80);
  const uint64_t s = rnd() & 1;
  const uint64_t b = (s << 63) | (e << 52) | m;
  double d;
  std::memcpy(&d, &b, 8);
  return d;
}
static uint64_t d2b(double d) {
  uint64_t b;
  std::memcpy(&b, &d, 8);
  return b;
}
static double b2d(uint64_t b) {
  double d;
  std::memcpy(&d, &b, 8);
  return d;
}
static std::string slurp(const std::string &name) {
  std::ifstream f(name, std::ios::binary);
  return std::string((std::istreambuf_iterator< char >(f)), std::istreambuf_iterator< char >());
}
static std::string tmp1, tmp2;

static std::string cmp_bytes(const std::string &a, const std::string &b) {
  if (a == b)
    return "same";
  size_t i = 0;
  while (i < a.size() && i < b.size() && a[i] == b[i])
    ++i;
  return "DIFF@" + std::to_string(i);
}

// generic: write a, construct b from the file, write b
template < typename T > static T *roundtrip(const char *name, const T &a, std::string &rewrite, size_t &nbytes, void *place = nullptr) {
  {
    RestartWriter w(tmp1);
    a.write_restart_file(w);
  }
  T *b;
  {
    RestartReader r(tmp1);
    b = place ? new (place) T(r) : new T(r);
  }
  {
    RestartWriter w(tmp2);
    b->write_restart_file(w);
  }
  const std::string x = slurp(tmp1), y = slurp(tmp2);
  nbytes = x.size();
  rewrite = cmp_bytes(x, y);
  return b;
}
static void report(const char *name, size_t nbytes, const std::string &rewrite, const std::string &state) {
  printf("RT %s bytes=%zu rewrite=%s state=%s\n", name, nbytes, rewrite.c_str(), state.c_str());
}
template < typename T > static void simple(const char *name, const T &a) {
  std::string rw;
  size_t n;
  T *b = roundtrip(name, a, rw, n);
  report(name, n, rw, std::memcmp(&a, b, sizeof(T)) == 0 ? "same" : "DIFF:object-bytes");
  delete b;
}

static void fill(HydroVariables &h) {
  for (int i = 0; i < 5; ++i) {
    h._primitives[i] = rdbl();
    h._conserved[i] = rdbl();
    h._delta_conserved[i] = rdbl();
    h._primitive_gradients[i] = CoordinateVector<>(rdbl(), rdbl(), rdbl());
  }
  h._gravitational_acceleration = CoordinateVector<>(rdbl(), rdbl(), rdbl());
  h._energy_rate_term = rdbl();
  h._energy_term = rdbl();
}
static void fill(IonizationVariables &v) {
  v._number_density = rdbl();
  v._temperature = rdbl();
  for (int i = 0; i < NUMBER_OF_IONNAMES; ++i) {
    v._ionic_fractions[i] = rdbl();
    v._mean_intensity[i] = rdbl();
  }
  for (int i = 0; i < NUMBER_OF_REEMISSIONPROBABILITIES; ++i)
    v._reemission_probabilities[i] = rdbl();
  for (int i = 0; i < NUMBER_OF_HEATINGTERMS; ++i)
    v._heating[i] = rdbl();
  v._cosmic_ray_factor = rdbl();
}
static void fill(HydroDensitySubGrid &g) {
  const int_fast32_t n = g._number_of_cells[0] * g._number_of_cells[1] * g._number_of_cells[2];
  for (int i = 0; i < TRAVELDIRECTION_NUMBER; ++i)
    g._ngbs[i] = static_cast< uint_least32_t >(rnd());
  g._owning_thread = static_cast< int_least32_t >(rnd() % 7);
  for (int_fast32_t i = 0; i < n; ++i) {
    fill(g._ionization_variables[i]);
    fill(g._hydro_variables[i]);
  }
}
static std::string subgrid_state(const HydroDensitySubGrid &a, const HydroDensitySubGrid &b) {
  const int_fast32_t n = a._number_of_cells[0] * a._number_of_cells[1] * a._number_of_cells[2];
  std::string d;
  if (std::memcmp(a._ngbs, b._ngbs, sizeof(a._ngbs)))
    d += ",_ngbs";
  if (std::memcmp(&a._anchor, &b._anchor, sizeof(a._anchor)))
    d += ",_anchor";
  if (std::memcmp(&a._cell_size, &b._cell_size, sizeof(a._cell_size)))
    d += ",_cell_size";
  if (std::memcmp(&a._inv_cell_size, &b._inv_cell_size, sizeof(a._inv_cell_size)))
    d += ",_inv_cell_size";
  if (std::memcmp(a._number_of_cells, b._number_of_cells, sizeof(a._number_of_cells)))
    d += ",_number_of_cells";
  if (a._owning_thread != b._owning_thread)
    d += ",_owning_thread";
  if (d2b(a._cell_volume) != d2b(b._cell_volume))
    d += ",_cell_volume";
  if (d2b(a._inverse_cell_volume) != d2b(b._inverse_cell_volume))
    d += ",_inverse_cell_volume";
  if (std::memcmp(a._cell_areas, b._cell_areas, sizeof(a._cell_areas)))
    d += ",_cell_areas";
  if (std::memcmp(a._ionization_variables, b._ionization_variables, n * sizeof(IonizationVariables)))
    d += ",_ionization_variables";
  if (std::memcmp(a._hydro_variables, b._hydro_variables, n * sizeof(HydroVariables)))
    d += ",_hydro_variables";
  if (std::memcmp(a._primitive_variable_limiters, b._primitive_variable_limiters, 10 * n * sizeof(double)))
    d += ",_primitive_variable_limiters";
  return d.empty() ? "same" : "DIFF:" + d.substr(1);
}

int main(int argc, char **argv) {
  const std::string base = argc > 1 ? argv[1] : "c09_component";
  tmp1 = base + ".1.tmp";
  tmp2 = base + ".2.tmp";
  std::string line;
  while (std::getline(std::cin, line)) {
    std::istringstream ls(line);
    std::string op;
    ls >> op;
    if (op == "RT") {
      uint64_t seed;
      ls >> seed;
      rs = 88172645463325252ull ^ (seed * 0x9E3779B97F4A7C15ull);
      if (rs == 0)
        rs = 1;
      simple("CoordinateVector<double>", CoordinateVector<>(rdbl(), rdbl(), rdbl()));
      simple("CoordinateVector<int_fast32_t>",
             CoordinateVector< int_fast32_t >(static_cast< int_fast32_t >(rnd()), static_cast< int_fast32_t >(rnd()), -5));
      simple("CoordinateVector<bool>", CoordinateVector< bool >(rnd() & 1, rnd() & 1, rnd() & 1));
      simple("Box", Box<>(CoordinateVector<>(rdbl(), rdbl(), rdbl()), CoordinateVector<>(rdbl(), rdbl(), rdbl())));
      {
        TimeLine tl(0., 1. + (rnd() % 1000), 1.e-9, 0.25);
        double a, t;
        for (int i = 0, n = rnd() % 6; i < n; ++i)
          tl.advance(0.001 * (1 + rnd() % 100), a, t);
        simple("TimeLine", tl);
      }
      {
        RandomGenerator g(static_cast< int_fast32_t >(rnd() % 100000));
        for (int i = 0, n = rnd() % 500; i < n; ++i)
          g.get_uniform_random_double();
        std::string rw;
        size_t n;
        RandomGenerator *b = roundtrip("RandomGenerator", g, rw, n);
        // the restored generator must continue with the same numbers
        bool same = std::memcmp(&g, b, sizeof(RandomGenerator)) == 0;
        for (int i = 0; i < 50; ++i)
          same = same && d2b(g.get_uniform_random_double()) == d2b(b->get_uniform_random_double());
        report("RandomGenerator", n, rw, same ? "same" : "DIFF:stream");
        delete b;
      }
      {
        HydroVariables h;
        fill(h);
        simple("HydroVariables", h);
      }
      {
        IonizationVariables v;
        fill(v);
        simple("IonizationVariables", v);
      }
      {
        // dyadic cell counts: every derived member is reproduced (the non-dyadic case is the S command)
        const double box[6] = {rdbl(), rdbl(), rdbl(), 8., 4., 2.};
        HydroDensitySubGrid g(box, CoordinateVector< int_fast32_t >(4, 2, 1));
        fill(g);
        std::string rw;
        size_t n;
        HydroDensitySubGrid *b = roundtrip("HydroDensitySubGrid", g, rw, n);
        report("HydroDensitySubGrid", n, rw, subgrid_state(g, *b));
        delete b;
        // the plain DensitySubGrid part on its own
        const DensitySubGrid &dg = g;
        {
          RestartWriter w(tmp1);
          dg.DensitySubGrid::write_restart_file(w);
        }
        DensitySubGrid *db;
        {
          RestartReader r(tmp1);
          db = new DensitySubGrid(r);
        }
        {
          RestartWriter w(tmp2);
          db->DensitySubGrid::write_restart_file(w);
        }
        report("DensitySubGrid", slurp(tmp1).size(), cmp_bytes(slurp(tmp1), slurp(tmp2)),
               std::memcmp(&g._inv_cell_size, &db->_inv_cell_size, sizeof(g._inv_cell_size)) == 0 ? "same" : "DIFF:_inv_cell_size");
        delete db;
      }
      {
        // DensitySubGridCreator with 2x1x2 subgrids of 2x3x1 cells and one copy
        const CoordinateVector<> anchor(0., 0., 0.), sides(4., 3., 2.);
        DensitySubGridCreator< HydroDensitySubGrid > creator(Box<>(anchor, sides), CoordinateVector< int_fast32_t >(4, 3, 2),
                                                             CoordinateVector< int_fast32_t >(2, 1, 2), CoordinateVector< bool >(true, false, true));
        HomogeneousDensityFunction df(1., 8000.);
        creator.initialize(df);
        std::vector< uint_fast8_t > levels(4, 0);
        levels[1] = 1;
        creator.create_copies(levels);
        for (size_t i = 0; i < creator._subgrids.size(); ++i)
          fill(*creator._subgrids[i]);
        std::string rw;
        size_t n;
        DensitySubGridCreator< HydroDensitySubGrid > *b = roundtrip("DensitySubGridCreator", creator, rw, n);
        std::string st = "same";
        if (b->_subgrids.size() != creator._subgrids.size() || b->_originals != creator._originals || b->_copies != creator._copies)
          st = "DIFF:layout";
        else
          for (size_t i = 0; i < creator._subgrids.size(); ++i) {
            const std::string s = subgrid_state(*creator._subgrids[i], *b->_subgrids[i]);
            if (s != "same") {
              st = s;
              break;
            }
          }
        report("DensitySubGridCreator", n, rw, st);
        delete b;
      }
      {
        std::istringstream y("SimulationBox:\n  anchor: [-10. m, -10. m, -10. m]\n  sides: [20. m, 20. m, 20. m]\nDensityGrid:\n  number of cells: [18, 18, 18]\nempty:\n  value: \"\"\n");
        ParameterFile p;
        p._yaml_dictionary = YAMLDictionary(y);
        p.get_value< std::string >("DensityGrid:type", "Cartesian");
        p.get_physical_vector< QUANTITY_LENGTH >("SimulationBox:sides", "[1. m, 1. m, 1. m]");
        std::string rw;
        size_t n;
        ParameterFile *b = roundtrip("ParameterFile", p, rw, n);
        report("ParameterFile", n, rw,
               (p._yaml_dictionary._dictionary == b->_yaml_dictionary._dictionary && p._yaml_dictionary._used_values == b->_yaml_dictionary._used_values) ? "same" : "DIFF:maps");
        delete b;
      }
      {
        SingleStarPhotonSourceDistribution s(CoordinateVector<>(rdbl(), rdbl(), rdbl()), rdbl());
        std::string rw;
        size_t n;
        SingleStarPhotonSourceDistribution *b = roundtrip("SingleStarPhotonSourceDistribution", s, rw, n);
        report("SingleStarPhotonSourceDistribution", n, rw,
               (std::memcmp(&s._position, &b->_position, sizeof(s._position)) == 0 && d2b(s._luminosity) == d2b(b->_luminosity)) ? "same" : "DIFF:members");
        delete b;
      }
    } else if (op == "S") {
      long n[3];
      uint64_t sb[3];
      ls >> n[0] >> n[1] >> n[2] >> std::hex >> sb[0] >> sb[1] >> sb[2];
      const double box[6] = {0., 0., 0., b2d(sb[0]), b2d(sb[1]), b2d(sb[2])};
      HydroDensitySubGrid g(box, CoordinateVector< int_fast32_t >(n[0], n[1], n[2]));
      fill(g);
      std::string rw;
      size_t nb;
      HydroDensitySubGrid *b = roundtrip("HydroDensitySubGrid", g, rw, nb);
      printf("S cs=%016" PRIx64 ",%016" PRIx64 ",%016" PRIx64 " inv_ctor=%016" PRIx64 ",%016" PRIx64 ",%016" PRIx64 " inv_restart=%016" PRIx64
             ",%016" PRIx64 ",%016" PRIx64 " ivol=%016" PRIx64 ",%016" PRIx64 " rewrite=%s state=%s\n",
             d2b(g._cell_size[0]), d2b(g._cell_size[1]), d2b(g._cell_size[2]), d2b(g._inv_cell_size[0]), d2b(g._inv_cell_size[1]), d2b(g._inv_cell_size[2]),
             d2b(b->_inv_cell_size[0]), d2b(b->_inv_cell_size[1]), d2b(b->_inv_cell_size[2]), d2b(g._inverse_cell_volume), d2b(b->_inverse_cell_volume),
             rw.c_str(), subgrid_state(g, *b).c_str());
      delete b;
    } else if (op == "M") {
      uint64_t snap;
      ls >> snap;
      RescaledICHydroMask m(CoordinateVector<>(0.5, 0.25, 0.125), 2., 0.01, 1., 0.01, 1000.);
      m._snap_n = snap;
      m._mask_density = 1.5;
      m._mask_velocity = 3.5;
      m._mask_pressure = 2.5;
      m._mask_velocities.push_back(CoordinateVector<>(1., 2., 3.));
      m._subgrid_offsets[3] = 17;
      std::string rw;
      size_t nb;
      // the restored object is built in memory filled with 0xAB: a member the restart constructor does not set shows it
      static unsigned char place[sizeof(RescaledICHydroMask) + 64];
      std::memset(place, 0xAB, sizeof(place));
      RescaledICHydroMask *b = roundtrip("RescaledICHydroMask", m, rw, nb, place);
      printf("M snap_n=%" PRIuFAST32 " restored_snap_n=%" PRIuFAST32 " mask_velocity=%016" PRIx64 " restored_mask_velocity=%016" PRIx64 " rewrite=%s\n", m._snap_n,
             b->_snap_n, d2b(m._mask_velocity), d2b(b->_mask_velocity), rw.c_str());
      b->~RescaledICHydroMask();
    }
    fflush(stdout);
  }
  return 0;
}
