// C09 correspondence harness (i): the real RestartWriter / RestartReader on typed token sequences read from stdin.
//   E tok tok ...        write the tokens with RestartWriter::write<T>, print the file's bytes in hex
//   D hex type type ...  put the bytes into a file, read them with RestartReader::read<T>, print the tokens
// tokens: b:0|1   i1:hh i2:hhhh i4:hhhhhhhh i8:<16 hex> (value, big endian hex)   d:<16 hex bit pattern>
//         r16:<32 hex, bytes in order>   s:<hex bytes>   m:<hexkey>=<hexval>,...      types: b i1 i2 i4 i8 d r16 s m
#include <cinttypes>
#include <cstdio>
#include <cstring>
#include <fstream>
#include <iostream>
#include <map>
#include <sstream>
#include <string>
#include <vector>
#include "RestartReader.hpp"
#include "RestartWriter.hpp"

struct Raw16 {
  unsigned char b[16];
};

static std::string unhex(const std::string &h) {
  std::string s;
  for (size_t i = 0; i + 1 < h.size(); i += 2)
    s.push_back(static_cast< char >(std::stoi(h.substr(i, 2), nullptr, 16)));
  return s;
}
static std::string hex(const std::string &s) {
  static const char *d = "0123456789abcdef";
  std::string h;
  for (unsigned char c : s) {
    h.push_back(d[c >> 4]);
    h.push_back(d[c & 15]);
  }
  return h;
}
static uint64_t hexval(const std::string &h) { return h.empty() ? 0 : std::stoull(h, nullptr, 16); }

static std::string slurp(const std::string &name) {
  std::ifstream f(name, std::ios::binary);
  return std::string((std::istreambuf_iterator< char >(f)), std::istreambuf_iterator< char >());
}

int main(int argc, char **argv) {
  const std::string tmp = argc > 1 ? argv[1] : "c09_codec.tmp";
  std::string line;
  while (std::getline(std::cin, line)) {
    std::istringstream ls(line);
    std::string op;
    ls >> op;
    if (op == "E") {
      {
        RestartWriter w(tmp);
        std::string tok;
        while (ls >> tok) {
          const size_t c = tok.find(':');
          const std::string ty = tok.substr(0, c), v = tok.substr(c + 1);
          if (ty == "b") {
            const bool x = (v == "1");
            w.write(x);
          } else if (ty == "i1") {
            const uint8_t x = static_cast< uint8_t >(hexval(v));
            w.write(x);
          } else if (ty == "i2") {
            const uint16_t x = static_cast< uint16_t >(hexval(v));
            w.write(x);
          } else if (ty == "i4") {
            const int32_t x = static_cast< int32_t >(static_cast< uint32_t >(hexval(v)));
            w.write(x);
          } else if (ty == "i8") {
            const uint64_t x = hexval(v);
            w.write(x);
          } else if (ty == "d") {
            const uint64_t bits = hexval(v);
            double x;
            std::memcpy(&x, &bits, 8);
            w.write(x);
          } else if (ty == "r16") {
            Raw16 x;
            const std::string s = unhex(v);
            std::memcpy(x.b, s.data(), 16);
            w.write(x);
          } else if (ty == "s") {
            const std::string x = unhex(v);
            w.write(x);
          } else if (ty == "m") {
            std::map< std::string, std::string > x;
            std::istringstream ms(v);
            std::string kv;
            while (std::getline(ms, kv, ',')) {
              const size_t e = kv.find('=');
              x[unhex(kv.substr(0, e))] = unhex(kv.substr(e + 1));
            }
            w.write(x);
          }
        }
      }
      printf("E %s\n", hex(slurp(tmp)).c_str());
    } else if (op == "D") {
      std::string h;
      ls >> h;
      if (h == "-")
        h = "";
      {
        std::ofstream f(tmp, std::ios::binary);
        const std::string s = unhex(h);
        f.write(s.data(), s.size());
      }
      RestartReader r(tmp);
      std::string ty;
      printf("D");
      while (ls >> ty) {
        if (ty == "b") {
          printf(" b:%d", r.read< bool >() ? 1 : 0);
        } else if (ty == "i1") {
          printf(" i1:%02x", static_cast< unsigned >(r.read< uint8_t >()));
        } else if (ty == "i2") {
          printf(" i2:%04x", static_cast< unsigned >(r.read< uint16_t >()));
        } else if (ty == "i4") {
          printf(" i4:%08x", static_cast< uint32_t >(r.read< int32_t >()));
        } else if (ty == "i8") {
          printf(" i8:%016" PRIx64, r.read< uint64_t >());
        } else if (ty == "d") {
          const double x = r.read< double >();
          uint64_t bits;
          std::memcpy(&bits, &x, 8);
          printf(" d:%016" PRIx64, bits);
        } else if (ty == "r16") {
          const Raw16 x = r.read< Raw16 >();
          printf(" r16:%s", hex(std::string(reinterpret_cast< const char * >(x.b), 16)).c_str());
        } else if (ty == "s") {
          printf(" s:%s", hex(r.read< std::string >()).c_str());
        } else if (ty == "m") {
          const std::map< std::string, std::string > x = r.read< std::map< std::string, std::string > >();
          printf(" m:");
          bool first = true;
          for (auto it = x.begin(); it != x.end(); ++it) {
            printf("%s%s=%s", first ? "" : ",", hex(it->first).c_str(), hex(it->second).c_str());
            first = false;
          }
        }
      }
      printf("\n");
    } else if (op == "Z") {
      printf("Z %zu\n", sizeof(size_t));
    }
  }
  return 0;
}
