// C12 replay harness: objects built by their restart constructor and destroyed again
// (run under valgrind --error-exitcode=99).  usage: restart_ctor_harness <class> <tmpfile>
#include "CaproniPhotonSourceDistribution.hpp"
#include "RestartReader.hpp"
#include "RestartWriter.hpp"
#include "UniformRandomPhotonSourceDistribution.hpp"
#include <cstdio>
#include <string>

int main(int argc, char **argv) {
  const std::string cls = argv[1];
  const std::string tmp = argv[2];
  if (cls == "UniformRandomPhotonSourceDistribution") {
    UniformRandomPhotonSourceDistribution *a = new UniformRandomPhotonSourceDistribution(
        1.e15, 1.e48, 3, CoordinateVector<>(0.), CoordinateVector<>(1.), 42, 1.e14, 0., false);
    {
      RestartWriter w(tmp);
      a->write_restart_file(w);
    }
    RestartReader r(tmp);
    UniformRandomPhotonSourceDistribution *b = new UniformRandomPhotonSourceDistribution(r);
    delete b;
    delete a;
  } else if (cls == "CaproniPhotonSourceDistribution") {
    CaproniPhotonSourceDistribution *a = new CaproniPhotonSourceDistribution(
        1.e-3, 3.e46, 8. * 1.98855e30, 15. * 1.98855e30, 120. * 1.98855e30, -2.3, 42, 1.e13, 0., 1., false);
    {
      RestartWriter w(tmp);
      a->write_restart_file(w);
    }
    RestartReader r(tmp);
    CaproniPhotonSourceDistribution *b = new CaproniPhotonSourceDistribution(r);
    delete b;
    delete a;
  } else {
    return 2;
  }
  std::remove(tmp.c_str());
  return 0;
}
