// C07 harness: the REAL hydro task table and the REAL task/lock/queue primitives.
//
// The translation unit src/TaskBasedRadiationHydrodynamicsSimulation.cpp is #included, so that its file-scope
// functions make_hydro_tasks / set_dependencies / reset_hydro_tasks / steal_task are the real ones.  They are called
// on a real DensitySubGridCreator<HydroDensitySubGrid> (subgrids made by the real create_subgrid, which also sets
// the neighbour relations).
//
// stdin : one request per line
//     G nx ny nz px py pz                     dump the task table
//     S nx ny nz px py pz nthreads seed       dump + run one hydro step on the real objects with `nthreads` VIRTUAL
//                                             threads interleaved by SplitMix64(seed) (see below)
//     P nx ny nz px py pz t u                 dump + lock the real tasks t and u one after the other (all locks free)
//     O nx ny nz px py pz k t_1 .. t_k        dump + execute the REAL task objects t_1 .. t_k one after the other in this order,
//                                             the way the worker loop does (counter reset by the real reset_hydro_tasks; a task
//                                             may start only if its REAL parent counter is 0, i.e. it has been queued; real
//                                             lock_dependency / start / stop / unlock_dependency; real
//                                             decrement_number_of_unfinished_parents on its children)
//     T nx ny nz px py pz nthreads            (only with -DC07_REAL_LOOP) dump + run the REAL worker loop: the source lines of
//                                             do_simulation from `AtomicValue< uint_fast32_t > number_of_tasks;` to the
//                                             `stop_parallel_timing_block();` after the `#pragma omp parallel` block are
//                                             copied verbatim by props/c07.py into c07_loop.inc and #included below, and
//                                             run by `nthreads` real OpenMP threads; execute_task is replaced by a recorder
//                                             (global atomic sequence numbers, busy flags per touched subgrid).  A hang
//                                             is detected by the caller's timeout.
// stdout, per request (canonical text, integers in decimal):
//     graph nx ny nz px py pz <ntasks>
//     t <id> <kind> <subgrid> <buffer|-> <direction|-> <lock0 owner|-> <lock1 owner|-> <initial counter> <children...>
//     slots <subgrid> <18 entries: task id or ->
//     cover <0|1>                 every task of the table sits in exactly one slot of one subgrid
//     lockfail <ids...>           tasks whose REAL Task::lock_dependency() fails although every lock is free
//     (S) sched <thread:pick ...> ; events <+id/-id ...> ; conflicts <t:u:subgrid ...> ; result ok|hang|cap <steps> <unexited> <number_of_tasks>
//     (P) pair <r1> <r2>          return values of the two real lock_dependency() calls
//     (O) events <+id/-id ...> ; ordered ok <k> | ordered illegal <index> <id> <counter|locked|twice|range>
//     (T) events / conflicts / result ok 0 0 <number_of_tasks>   (same meaning as for S, from the real threads)
//     end
//
// The virtual-thread executor re-types the worker loop of the hydro step (the `#pragma omp parallel` block with
// `while (number_of_tasks.value() > 0)`, inside do_simulation and therefore not callable) as a per-thread state
// machine with one state per access to shared data; every access itself is the real member function
// (TaskQueue::get_task / add_task, steal_task, Task::lock_dependency (inside get_task) / unlock_dependency /
// decrement_number_of_unfinished_parents, AtomicValue).  execute_task is NOT called (no hydro state is needed for the
// property); instead the subgrids a task touches are marked busy between start and unlock to observe conflicts.
#include <algorithm>
#include <array>
#include <atomic>
#include <cctype>
#include <cerrno>
#include <cfloat>
#include <cinttypes>
#include <clocale>
#include <cmath>
#include <csignal>
#include <cstdint>
#include <cstdio>
#include <cstdlib>
#include <cstring>
#include <ctime>
#include <exception>
#include <fstream>
#include <iostream>
#include <limits>
#include <map>
#include <new>
#include <set>
#include <sstream>
#include <stdexcept>
#include <string>
#include <tuple>
#include <typeinfo>
#include <utility>
#include <vector>
#include <unistd.h>
#include <sys/stat.h>
#include <sys/time.h>
#include <sys/resource.h>
#ifdef _OPENMP
#include <omp.h>
#endif
#include "Configuration.hpp"
#ifdef HAVE_HDF5
#include <hdf5.h>
#endif
#ifdef HAVE_MPI
#include <mpi.h>
#endif
#define private public
#define protected public
#include "TaskBasedRadiationHydrodynamicsSimulation.cpp"
#undef private
#undef protected

typedef DensitySubGridCreator< HydroDensitySubGrid > Creator;

static const char *kind_name(int_fast32_t type) {
  switch (type) {
  case TASKTYPE_GRADIENTSWEEP_INTERNAL:
    return "GI";
  case TASKTYPE_GRADIENTSWEEP_EXTERNAL_NEIGHBOUR:
    return "GN";
  case TASKTYPE_GRADIENTSWEEP_EXTERNAL_BOUNDARY:
    return "GB";
  case TASKTYPE_SLOPE_LIMITER:
    return "SL";
  case TASKTYPE_PREDICT_PRIMITIVES:
    return "PP";
  case TASKTYPE_FLUXSWEEP_INTERNAL:
    return "FI";
  case TASKTYPE_FLUXSWEEP_EXTERNAL_NEIGHBOUR:
    return "FN";
  case TASKTYPE_FLUXSWEEP_EXTERNAL_BOUNDARY:
    return "FB";
  case TASKTYPE_UPDATE_CONSERVED:
    return "UC";
  case TASKTYPE_UPDATE_PRIMITIVES:
    return "UP";
  default:
    return "??";
  }
}
static bool is_pair(int_fast32_t type) {
  return type == TASKTYPE_GRADIENTSWEEP_EXTERNAL_NEIGHBOUR || type == TASKTYPE_FLUXSWEEP_EXTERNAL_NEIGHBOUR;
}
static bool has_dir(int_fast32_t type) {
  return is_pair(type) || type == TASKTYPE_GRADIENTSWEEP_EXTERNAL_BOUNDARY ||
         type == TASKTYPE_FLUXSWEEP_EXTERNAL_BOUNDARY;
}

struct SplitMix {
  uint64_t s;
  uint64_t next() {
    s += 0x9E3779B97F4A7C15ull;
    uint64_t z = s;
    z = (z ^ (z >> 30)) * 0xBF58476D1CE4E5B9ull;
    z = (z ^ (z >> 27)) * 0x94D049BB133111EBull;
    return z ^ (z >> 31);
  }
};

struct World {
  Creator *creator;
  ThreadSafeVector< Task > *tasks;
  size_t nsub, ntask;
  std::map< ThreadLock *, size_t > owner;

  World(int nx, int ny, int nz, bool px, bool py, bool pz) {
    const double sides[3] = {1., 1., 1.};
    const double anchor[3] = {0., 0., 0.};
    Box<> box(CoordinateVector<>(anchor[0], anchor[1], anchor[2]), CoordinateVector<>(sides[0], sides[1], sides[2]));
    creator = new Creator(box, CoordinateVector< int_fast32_t >(2 * nx, 2 * ny, 2 * nz),
                          CoordinateVector< int_fast32_t >(nx, ny, nz), CoordinateVector< bool >(px, py, pz));
    nsub = creator->number_of_original_subgrids();
    for (size_t i = 0; i < nsub; ++i) {
      creator->_subgrids[i] = creator->create_subgrid(i); // real neighbour set-up
      creator->_subgrids[i]->set_owning_thread(0);
      owner[creator->_subgrids[i]->get_dependency()] = i;
    }
    tasks = new ThreadSafeVector< Task >(18 * nsub + 8, "Tasks");
    // exactly the calls of do_simulation ("hydro task creation")
    for (auto cellit = creator->begin(); cellit != creator->original_end(); ++cellit) {
      make_hydro_tasks(*tasks, cellit.get_index(), *creator);
    }
    for (auto cellit = creator->begin(); cellit != creator->original_end(); ++cellit) {
      set_dependencies(cellit.get_index(), *creator, *tasks);
    }
    ntask = tasks->size();
    reset();
  }
  ~World() {
    delete tasks;
    delete creator;
  }
  void reset() {
    for (auto cellit = creator->begin(); cellit != creator->original_end(); ++cellit) {
      reset_hydro_tasks(*tasks, *cellit);
    }
  }
  std::string lockname(ThreadLock *l) {
    if (l == nullptr)
      return "-";
    auto it = owner.find(l);
    if (it == owner.end())
      return "?";
    return std::to_string(it->second);
  }
  void dump(int nx, int ny, int nz, int px, int py, int pz) {
    printf("graph %d %d %d %d %d %d %zu\n", nx, ny, nz, px, py, pz, ntask);
    for (size_t i = 0; i < ntask; ++i) {
      Task &t = (*tasks)[i];
      const int_fast32_t type = t.get_type();
      printf("t %zu %s %zu", i, kind_name(type), t.get_subgrid());
      if (is_pair(type))
        printf(" %zu", t.get_buffer());
      else
        printf(" -");
      if (has_dir(type))
        printf(" %d", (int)t.get_interaction_direction() - (int)TRAVELDIRECTION_FACE_X_P);
      else
        printf(" -");
      printf(" %s %s %u", lockname(t._dependency[0]).c_str(), lockname(t._dependency[1]).c_str(),
             (unsigned)t.get_number_of_unfinished_parents());
      for (uint_fast8_t k = 0; k < t.get_number_of_children(); ++k)
        printf(" %zu", t.get_child(k));
      printf("\n");
    }
    std::vector< int > seen(ntask, 0);
    bool cover = true;
    for (size_t s = 0; s < nsub; ++s) {
      printf("slots %zu", s);
      for (int k = 0; k < 18; ++k) {
        const size_t it = creator->_subgrids[s]->get_hydro_task(k);
        if (it == NO_TASK)
          printf(" -");
        else {
          printf(" %zu", it);
          if (it < ntask)
            ++seen[it];
          else
            cover = false;
        }
      }
      printf("\n");
    }
    for (size_t i = 0; i < ntask; ++i)
      if (seen[i] != 1)
        cover = false;
    printf("cover %d\n", cover ? 1 : 0);
    // real lock_dependency with every lock free
    printf("lockfail");
    for (size_t i = 0; i < ntask; ++i) {
      bool ok = false;
      for (int attempt = 0; attempt < 3 && !ok; ++attempt)
        ok = (*tasks)[i].lock_dependency();
      if (ok)
        (*tasks)[i].unlock_dependency();
      else
        printf(" %zu", i);
    }
    printf("\n");
  }
};

enum PC { LOOPHEAD, FETCH, RUN, UNLOCK, RELEASE, ENQ, INC, EXITED };
struct VThread {
  PC pc;
  size_t cur;
  uint_fast8_t k;
  size_t ichild;
  bool failed_since_change;
};

static void simulate(World &w, int nthreads, uint64_t seed) {
  SplitMix rng{seed};
  std::vector< TaskQueue * > queues(nthreads);
  for (int i = 0; i < nthreads; ++i)
    queues[i] = new TaskQueue(w.ntask + 8, "q");
  // subgrid ownership as after initialize(): spread over the threads
  for (size_t s = 0; s < w.nsub; ++s)
    w.creator->_subgrids[s]->set_owning_thread(rng.next() % nthreads);
  // "reset the hydro tasks and add them to the queue" (do_simulation)
  AtomicValue< uint_fast32_t > number_of_tasks;
  for (auto cellit = w.creator->begin(); cellit != w.creator->original_end(); ++cellit) {
    reset_hydro_tasks(*w.tasks, *cellit);
    for (int_fast8_t i = 0; i < 18; ++i) {
      const size_t itask = (*cellit).get_hydro_task(i);
      if (itask != NO_TASK && (*w.tasks)[itask].get_number_of_unfinished_parents() == 0) {
        queues[(*cellit).get_owning_thread()]->add_task(itask);
        number_of_tasks.pre_increment();
      }
    }
  }
  std::vector< VThread > th(nthreads, VThread{LOOPHEAD, 0, 0, 0, false});
  std::vector< long > busy(w.nsub, -1); // task currently touching the subgrid
  std::string sched, events, conflicts;
  size_t steps = 0;
  const size_t cap = 400 * (size_t)nthreads * (12 * w.ntask + 100);
  const char *result = "ok";
  for (;;) {
    std::vector< int > alive;
    for (int i = 0; i < nthreads; ++i)
      if (th[i].pc != EXITED)
        alive.push_back(i);
    if (alive.empty())
      break;
    // fixpoint: nobody inside the loop body and every live thread failed a fetch since the last change
    bool stuck = true;
    for (int i : alive)
      if (!((th[i].pc == LOOPHEAD || th[i].pc == FETCH) && th[i].failed_since_change))
        stuck = false;
    if (stuck && number_of_tasks.value() > 0) {
      result = "hang";
      break;
    }
    if (steps >= cap) {
      result = "cap";
      break;
    }
    ++steps;
    const int i = alive[rng.next() % alive.size()];
    VThread &t = th[i];
    bool change = true;
    switch (t.pc) {
    case LOOPHEAD:
      sched += " " + std::to_string(i) + ":-";
      if (number_of_tasks.value() > 0) {
        t.pc = FETCH;
        change = false;
      } else
        t.pc = EXITED;
      break;
    case FETCH: {
      size_t current_task = queues[i]->get_task(*w.tasks);
      if (current_task == NO_TASK) {
        current_task = steal_task(i, nthreads, queues, *w.tasks, *w.creator);
      }
      if (current_task != NO_TASK) {
        (*w.tasks)[current_task].start(i);
        sched += " " + std::to_string(i) + ":" + std::to_string(current_task);
        events += " +" + std::to_string(current_task);
        t.cur = current_task;
        t.pc = RUN;
        Task &task = (*w.tasks)[current_task];
        std::vector< size_t > touched(1, task.get_subgrid());
        if (is_pair(task.get_type()) && task.get_buffer() != task.get_subgrid())
          touched.push_back(task.get_buffer());
        for (size_t s : touched) {
          if (busy[s] >= 0)
            conflicts += " " + std::to_string(busy[s]) + ":" + std::to_string(current_task) + ":" + std::to_string(s);
          busy[s] = (long)current_task;
        }
      } else {
        sched += " " + std::to_string(i) + ":-";
        t.pc = LOOPHEAD;
        t.failed_since_change = true;
        change = false;
      }
      break;
    }
    case RUN:
      sched += " " + std::to_string(i) + ":-";
      (*w.tasks)[t.cur].stop();
      events += " -" + std::to_string(t.cur);
      t.pc = UNLOCK;
      break;
    case UNLOCK: {
      sched += " " + std::to_string(i) + ":-";
      Task &task = (*w.tasks)[t.cur];
      if (busy[task.get_subgrid()] == (long)t.cur)
        busy[task.get_subgrid()] = -1;
      if (is_pair(task.get_type()) && busy[task.get_buffer()] == (long)t.cur)
        busy[task.get_buffer()] = -1;
      task.unlock_dependency();
      t.k = 0;
      t.pc = RELEASE;
      break;
    }
    case RELEASE:
      sched += " " + std::to_string(i) + ":-";
      if (t.k < (*w.tasks)[t.cur].get_number_of_children()) {
        t.ichild = (*w.tasks)[t.cur].get_child(t.k);
        if ((*w.tasks)[t.ichild].decrement_number_of_unfinished_parents() == 0) {
          t.pc = ENQ;
        } else {
          ++t.k;
        }
      } else {
        number_of_tasks.pre_decrement();
        t.pc = LOOPHEAD;
      }
      break;
    case ENQ:
      sched += " " + std::to_string(i) + ":-";
      queues[(*w.creator->get_subgrid((*w.tasks)[t.ichild].get_subgrid())).get_owning_thread()]->add_task(t.ichild);
      t.pc = INC;
      break;
    case INC:
      sched += " " + std::to_string(i) + ":-";
      number_of_tasks.pre_increment();
      ++t.k;
      t.pc = RELEASE;
      break;
    case EXITED:
      break;
    }
    if (change)
      for (int j = 0; j < nthreads; ++j)
        th[j].failed_since_change = false;
  }
  size_t unexited = 0;
  for (int i = 0; i < nthreads; ++i)
    if (th[i].pc != EXITED)
      ++unexited;
  printf("sched%s\n", sched.c_str());
  printf("events%s\n", events.c_str());
  printf("conflicts%s\n", conflicts.c_str());
  printf("result %s %zu %zu %lu\n", result, steps, unexited, (unsigned long)number_of_tasks.value());
  // leave every real lock free again (a hung run holds none; a capped one might)
  for (size_t s = 0; s < w.nsub; ++s)
    w.creator->_subgrids[s]->get_dependency()->unlock();
  for (int i = 0; i < nthreads; ++i)
    delete queues[i];
}

#ifdef C07_REAL_LOOP
// ---------------------------------------------------------------- the real worker loop on real threads
struct C07Event {
  uint64_t seq;
  long task; // >= 0: start of task, < 0: stop of task ~task
};
static std::atomic< uint64_t > c07_seq;
static std::vector< std::vector< C07Event > > c07_events;
static std::atomic< long > *c07_busy = nullptr;
static std::vector< std::string > c07_conflicts;
static ThreadLock c07_conflict_lock;
static World *c07_world = nullptr;

template < typename... A > inline void c07_execute_task(const size_t itask, A &&...) {
  const int tid = get_thread_index();
  c07_events[tid].push_back(C07Event{c07_seq++, (long)itask});
  Task &task = (*c07_world->tasks)[itask];
  size_t touched[2];
  int ntouched = 1;
  touched[0] = task.get_subgrid();
  if (is_pair(task.get_type()) && task.get_buffer() != task.get_subgrid())
    touched[ntouched++] = task.get_buffer();
  for (int k = 0; k < ntouched; ++k) {
    const long prev = c07_busy[touched[k]].exchange((long)itask);
    if (prev != -1) {
      c07_conflict_lock.lock();
      c07_conflicts.push_back(std::to_string(prev) + ":" + std::to_string(itask) + ":" + std::to_string(touched[k]));
      c07_conflict_lock.unlock();
    }
  }
  // stay "inside the subgrid" for a moment so that a conflicting task has a chance to show up
  for (volatile int spin = 0; spin < 300 + (int)(itask % 7) * 100; ++spin) {
  }
  for (int k = 0; k < ntouched; ++k) {
    long mine = (long)itask;
    c07_busy[touched[k]].compare_exchange_strong(mine, -1);
  }
  c07_events[tid].push_back(C07Event{c07_seq++, ~(long)itask});
}

#undef start_parallel_timing_block
#undef stop_parallel_timing_block
#define start_parallel_timing_block()
#define stop_parallel_timing_block()

static void c07_watchdog(int) {
  // the real loop did not leave the parallel region in time
  static const char msg[] = "result watchdog 0 0 0\nend\n";
  if (write(1, msg, sizeof(msg) - 1)) {
  }
  _exit(3);
}

static void real_loop(World &w, int nthreads) {
  c07_world = &w;
  c07_seq = 0;
  c07_events.assign(nthreads, std::vector< C07Event >());
  c07_conflicts.clear();
  delete[] c07_busy;
  c07_busy = new std::atomic< long >[w.nsub];
  for (size_t s = 0; s < w.nsub; ++s) {
    c07_busy[s] = -1;
    w.creator->_subgrids[s]->set_owning_thread(s % nthreads);
  }
  omp_set_dynamic(0);
  omp_set_num_threads(nthreads);
  // the names the copied source lines refer to
  Creator *grid_creator = w.creator;
  ThreadSafeVector< Task > *tasks = w.tasks;
  const int_fast32_t num_thread = nthreads;
  std::vector< TaskQueue * > queues(nthreads);
  for (int i = 0; i < nthreads; ++i)
    queues[i] = new TaskQueue(w.ntask + 8, "q");
  std::vector< uint_fast64_t > active_time(nthreads, 0);
  const double actual_timestep = 0.;
  const int hydro = 0, hydro_boundary_manager = 0;
  (void)num_thread;
  (void)actual_timestep;
  (void)hydro;
  (void)hydro_boundary_manager;
#define execute_task c07_execute_task
#include "c07_loop.inc"
#undef execute_task
  std::vector< C07Event > all;
  for (int i = 0; i < nthreads; ++i)
    all.insert(all.end(), c07_events[i].begin(), c07_events[i].end());
  std::sort(all.begin(), all.end(), [](const C07Event &a, const C07Event &b) { return a.seq < b.seq; });
  printf("events");
  for (const C07Event &e : all) {
    if (e.task >= 0)
      printf(" +%ld", e.task);
    else
      printf(" -%ld", ~e.task);
  }
  printf("\nconflicts");
  for (const std::string &c : c07_conflicts)
    printf(" %s", c.c_str());
  printf("\nresult ok 0 0 %lu\n", (unsigned long)number_of_tasks.value());
  for (int i = 0; i < nthreads; ++i)
    delete queues[i];
}
#endif

// execute the given real tasks sequentially in the given order, as one worker thread would if its fetches returned them
static void ordered_run(World &w, const std::vector< long > &order) {
  w.reset();
  std::vector< char > done(w.ntask, 0);
  std::string events;
  std::string verdict = "ok " + std::to_string(order.size());
  for (size_t k = 0; k < order.size(); ++k) {
    const long id = order[k];
    const char *bad = nullptr;
    if (id < 0 || (size_t)id >= w.ntask)
      bad = "range";
    else if (done[id])
      bad = "twice";
    else if ((*w.tasks)[id].get_number_of_unfinished_parents() != 0)
      bad = "counter"; // still waits for a parent: it would not be in any queue
    else if (!(*w.tasks)[id].lock_dependency())
      bad = "locked";
    if (bad != nullptr) {
      verdict = "illegal " + std::to_string(k) + " " + std::to_string(id) + " " + bad;
      break;
    }
    Task &task = (*w.tasks)[id];
    task.start(0);
    events += " +" + std::to_string(id);
    task.stop();
    events += " -" + std::to_string(id);
    task.unlock_dependency();
    done[id] = 1;
    for (uint_fast8_t c = 0; c < task.get_number_of_children(); ++c)
      (*w.tasks)[task.get_child(c)].decrement_number_of_unfinished_parents();
  }
  printf("events%s\n", events.c_str());
  printf("ordered %s\n", verdict.c_str());
  w.reset();
}

int main() {
  std::string sline;
  while (std::getline(std::cin, sline)) {
    const char *line = sline.c_str();
    char mode = 0;
    int nx, ny, nz, px, py, pz;
    long a = 0, b = 0;
    unsigned long long seed = 0;
    int n = 0;
    if (sscanf(line, " %c %d %d %d %d %d %d%n", &mode, &nx, &ny, &nz, &px, &py, &pz, &n) < 7)
      continue;
    World w(nx, ny, nz, px != 0, py != 0, pz != 0);
    w.dump(nx, ny, nz, px, py, pz);
    if (mode == 'S') {
      int nthreads = 1;
      sscanf(line + n, " %d %llu", &nthreads, &seed);
      simulate(w, nthreads, seed);
#ifdef C07_REAL_LOOP
    } else if (mode == 'T') {
      int nthreads = 1;
      sscanf(line + n, " %d", &nthreads);
      fflush(stdout);
      signal(SIGALRM, c07_watchdog);
      alarm(8);
      real_loop(w, nthreads);
      alarm(0);
#endif
    } else if (mode == 'O') {
      std::istringstream is(std::string(line + n));
      long k = 0, v = 0;
      std::vector< long > order;
      is >> k;
      while ((long)order.size() < k && (is >> v))
        order.push_back(v);
      ordered_run(w, order);
    } else if (mode == 'P') {
      sscanf(line + n, " %ld %ld", &a, &b);
      int r1 = -1, r2 = -1;
      if (a >= 0 && (size_t)a < w.ntask && b >= 0 && (size_t)b < w.ntask) {
        r1 = (*w.tasks)[a].lock_dependency();
        r2 = (*w.tasks)[b].lock_dependency();
      }
      printf("pair %d %d\n", r1, r2);
    }
    printf("end\n");
    fflush(stdout);
  }
  return 0;
}
